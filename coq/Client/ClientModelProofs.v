(* Client/ClientModelProofs.v — proofs about the protocol-level client model. *)

From Coq Require Import List NArith ZArith Bool String Ascii Arith Lia.
From Nexus Require Import Client.ClientModel.
Import ListNotations.
Open Scope N_scope.

(* ------------------------------------------------------------------ *)
(* generic tactics                                                     *)

Ltac break_match :=
  match goal with
  | |- context [match ?x with _ => _ end] => destruct x eqn:?
  | |- context [if ?x then _ else _] => destruct x eqn:?
  end.

Ltac break_let :=
  match goal with
  | |- context [let '(_, _) := ?x in _] => destruct x eqn:?
  end.

(* ------------------------------------------------------------------ *)
(* executions                                                          *)

Lemma exec_snoc : forall U c tr l,
  exec U c (tr ++ [l]) = exec_step U (exec U c tr) l.
Proof. intros. unfold exec. rewrite fold_left_app. reflexivity. Qed.

Definition reachable (U : unpackers) (c : config) (s : state) : Prop :=
  exists tr, x_panic (exec U c tr) = None /\ x_state (exec U c tr) = s.

Lemma exec_state_ind : forall U c (P : state -> Prop),
  P (init c) ->
  (forall s l s' outs, P s -> step U s l = Ok s' outs -> P s') ->
  forall tr, P (x_state (exec U c tr)).
Proof.
  intros U c P H0 Hs tr. induction tr as [|l tr IH] using rev_ind; [exact H0|].
  rewrite exec_snoc. unfold exec_step.
  destruct (x_panic (exec U c tr)); [exact IH|].
  destruct (step U (x_state (exec U c tr)) l) eqn:E; simpl; eauto.
Qed.

(* ------------------------------------------------------------------ *)
(* C17: the checked unpackers never panic                              *)

Lemma unpack_ppt_checked_total : forall d a site, unpack_ppt_checked d a <> RPanic site.
Proof.
  intros d a site. unfold unpack_ppt_checked.
  repeat break_match; discriminate.
Qed.

Lemma unpack_e2ee_checked_total : forall d a site, unpack_e2ee_checked d a <> RPanic site.
Proof.
  intros d a site. unfold unpack_e2ee_checked.
  repeat break_match; discriminate.
Qed.

Lemma unpack_checked_total : forall sch d a site, unpack checked sch d a <> RPanic site.
Proof.
  intros. unfold unpack. simpl. destruct (String.eqb sch "wamp");
    [apply unpack_e2ee_checked_total|apply unpack_ppt_checked_total].
Qed.

Definition is_chunk_label (l : label) : bool :=
  match l with ChunkSend _ _ | ChunkErr _ => true | _ => false end.

Lemma step_reply_no_panic : forall s r m site, step_reply s r m <> Panic site.
Proof.
  intros. unfold step_reply. repeat break_match; discriminate.
Qed.

Lemma step_event_no_panic : forall s sub pub d a site, step_event checked s sub pub d a <> Panic site.
Proof.
  intros. unfold step_event.
  destruct (alookup (s_ehandlers s) sub); [|discriminate].
  destruct (ppt_scheme d); [|discriminate].
  destruct (scheme_valid s0); [|discriminate].
  destruct (unpack checked s0 d a) eqn:E; try discriminate.
  exfalso. eapply unpack_checked_total; eauto.
Qed.

Lemma step_invocation_no_panic : forall s req reg d a site, step_invocation checked s req reg d a <> Panic site.
Proof.
  intros. unfold step_invocation.
  destruct (alookup (s_ihandlers s) reg); [|discriminate].
  assert (C : forall a', (match inv_find (s_invs s) reg req with
     | Some i =>
         if i_queue_alive i
         then
          let s1 := update_last_recv s req in
          Ok (set_invs s1 (inv_replace (s_invs s1)
                (upd_inv i (i_queue i ++ [{| c_tag := atag a'; c_n := List.length a'; c_progress := bool_ok (dget d "progress") |}])
                   true (i_running i) (i_more i) (i_cancelled i) (i_outer i) (i_recvprog i)))) []
         else
          if is_new_recv_id (s_last_recv s) req
          then
           let s1 := set_last_recv s req in
           Ok (set_invs s1
                ({| i_req := req; i_reg := reg; i_h := n;
                    i_queue := [{| c_tag := atag a'; c_n := List.length a'; c_progress := bool_ok (dget d "progress") |}];
                    i_queue_alive := true; i_running := false; i_more := true; i_cancelled := false; i_outer := true;
                    i_recvprog := bool_ok (dget d "receive_progress"); i_deadline := timeout_deadline s d |} :: s_invs s1)) []
          else Ok s []
     | None =>
         if is_new_recv_id (s_last_recv s) req
         then
          let s1 := set_last_recv s req in
          Ok (set_invs s1
               ({| i_req := req; i_reg := reg; i_h := n;
                   i_queue := [{| c_tag := atag a'; c_n := List.length a'; c_progress := bool_ok (dget d "progress") |}];
                   i_queue_alive := true; i_running := false; i_more := true; i_cancelled := false; i_outer := true;
                   i_recvprog := bool_ok (dget d "receive_progress"); i_deadline := timeout_deadline s d |} :: s_invs s1)) []
         else Ok s []
     end) <> Panic site).
  { intro a'. repeat break_match; discriminate. }
  destruct (ppt_scheme d); [|apply C].
  destruct (scheme_valid s0); [|discriminate].
  destruct (unpack checked s0 d a) eqn:E; try discriminate.
  - apply C.
  - exfalso. eapply unpack_checked_total; eauto.
Qed.

Lemma step_interrupt_no_panic : forall s req site, step_interrupt s req <> Panic site.
Proof.
  intros. unfold step_interrupt, cancel_inv. repeat break_match; discriminate.
Qed.

Lemma disconnect_total : forall s, exists s' outs, disconnect s = (s', outs).
Proof. intros. destruct (disconnect s). eauto. Qed.

Lemma step_router_no_panic : forall s m site, step_router checked s m <> Panic site.
Proof.
  intros. unfold step_router. destruct (negb (s_connected s)); [discriminate|].
  destruct m; try apply step_reply_no_panic; try discriminate.
  - apply step_event_no_panic.
  - apply step_invocation_no_panic.
  - apply step_interrupt_no_panic.
  - destruct (disconnect s). discriminate.
  - destruct (disconnect s). discriminate.
Qed.

Lemma step_api_start_no_panic : forall s o p rid site, step_api_start s o p rid <> Panic site.
Proof.
  intros. unfold step_api_start. repeat break_match; discriminate.
Qed.

Lemma step_api_finish_no_panic : forall s o site, step_api_finish checked s o <> Panic site.
Proof.
  intros. unfold step_api_finish.
  destruct (fin_of (s_finishing s) o); [|discriminate].
  destruct (f_op f); destruct (f_msg f); try discriminate;
    try (destruct (ppt_scheme details); [|discriminate];
         destruct (negb (cfg_ppt _)); [destruct (disconnect _); discriminate|];
         destruct (scheme_valid s0); [|discriminate];
         destruct (unpack checked s0 details args) eqn:E; try discriminate;
         exfalso; eapply unpack_checked_total; eauto).
Qed.

Theorem step_checked_panics_only_in_feeder : forall s l site,
  step checked s l = Panic site ->
  is_chunk_label l = true /\ s_peer_closed s = true.
Proof.
  intros s l site H. destruct l; simpl in H.
  - exfalso. revert H. repeat break_match; discriminate.
  - exfalso. eapply step_api_start_no_panic; eauto.
  - exfalso. eapply step_router_no_panic; eauto.
  - exfalso. unfold step_timer in H. revert H. repeat break_match; discriminate.
  - exfalso. unfold step_ctx in H. revert H. repeat break_match; discriminate.
  - exfalso. unfold step_ctx in H. revert H. repeat break_match; discriminate.
  - exfalso. eapply step_api_finish_no_panic; eauto.
  - exfalso. unfold step_inv_start in H. revert H. repeat break_match; discriminate.
  - exfalso. unfold step_inv_exit in H. revert H. repeat break_match; discriminate.
  - exfalso. unfold step_handler_return in H. revert H. repeat break_match; discriminate.
  - exfalso. unfold step_send_prog in H. revert H. repeat break_match; discriminate.
  - exfalso. unfold step_inv_timeout, cancel_inv in H. revert H. repeat break_match; discriminate.
  - unfold step_chunk in H. revert H. repeat break_match; try discriminate. intros _. auto.
  - unfold step_chunk in H. revert H. repeat break_match; try discriminate. intros _. auto.
  - exfalso. unfold step_close_start, finish_close in H. revert H. repeat break_match; discriminate.
  - exfalso. unfold step_close_timer in H. revert H. repeat break_match; discriminate.
  - exfalso. revert H. repeat break_match; discriminate.
  - exfalso. destruct r; discriminate.
Qed.

(* the trigger the partial theorem excludes: a CallProgressive feeder is
   handed a chunk (or an error) after Close() has closed the peer *)
Definition no_feeder_after_close (U : unpackers) (c : config) (tr : list label) : Prop :=
  forall pre l post, tr = pre ++ l :: post -> is_chunk_label l = true ->
    s_peer_closed (x_state (exec U c pre)) = false.

Theorem client_never_panics_partial_proof : forall c tr,
  no_feeder_after_close checked c tr -> x_panic (exec checked c tr) = None.
Proof.
  intros c tr. induction tr as [|l tr IH] using rev_ind; intro H; [reflexivity|].
  rewrite exec_snoc. unfold exec_step.
  assert (IH' : x_panic (exec checked c tr) = None).
  { apply IH. intros pre l0 post E Hl. apply (H pre l0 (post ++ [l])); auto.
    rewrite E. rewrite <- app_assoc. reflexivity. }
  rewrite IH'. destruct (step checked (x_state (exec checked c tr)) l) eqn:E; simpl; auto.
  exfalso. apply step_checked_panics_only_in_feeder in E. destruct E as [Hc Hp].
  rewrite (H tr l []) in Hp; auto. discriminate.
Qed.

Definition feeder_panic_trace : list label :=
  [ApiStart 1 (OpCallProg 1 false true None) 1; CloseStart 2; RouterMsg RGoodbye; ChunkSend 1 true].

Definition cfg0 : config := {| cfg_rt := 5000; cfg_mode := MKillNoWait; cfg_ppt := true; cfg_progcall := true |}.

Theorem client_never_panics_refuted_proof :
  exists c tr, x_panic (exec checked c tr) <> None.
Proof. exists cfg0, feeder_panic_trace. vm_compute. discriminate. Qed.

(* The unrepaired unpackers do panic on fields another client controls. *)
Example unchecked_event_panics :
  step unchecked (set_subs (init cfg0) [(9, 1%nat)] [])
       (RouterMsg (REvent 9 1 [("ppt_scheme"%string, VStr "x_a"); ("ppt_serializer"%string, VStr "json")] []))
  = Panic 162.
Proof. vm_compute. reflexivity. Qed.

(* ================================================================== *)
(* C16, step level                                                     *)

Definition msg_req (m : rmsg) : option id :=
  match m with
  | RSubscribed r _ | RUnsubscribed r | RRegistered r _ | RUnregistered r | RPublished r
  | RResult r _ _ | RError r _ => Some r
  | _ => None
  end.

Lemma alookup_in : forall {A} (l : list (N * A)) k v, alookup l k = Some v -> In (k, v) l.
Proof.
  induction l as [|[k' v'] r IH]; simpl; intros k v H; [discriminate|].
  destruct (N.eqb k k') eqn:E.
  - apply N.eqb_eq in E. subst. inversion H. auto.
  - right. auto.
Qed.

Lemma disconnect_waiters_returns : forall l l' outs os o k r,
  disconnect_waiters l = (l', outs, os) -> In (OReturn o k r) outs ->
  exists w, In (k, w) l /\ w_o w = o /\ w_phase w = WWaiting /\ r = RetNotConn.
Proof.
  induction l as [|[k0 w0] rest IH]; simpl; intros l' outs os o k r H Hin.
  - inversion H; subst. destruct Hin.
  - destruct (disconnect_waiters rest) as [[l1 o1] os1] eqn:E.
    destruct (w_phase w0) eqn:Ep; inversion H; subst; clear H.
    + destruct Hin as [Hin|Hin].
      * inversion Hin; subst. exists w0. auto.
      * destruct (IH _ _ _ _ _ _ eq_refl Hin) as [w [A B]]. exists w. auto.
    + destruct (IH _ _ _ _ _ _ eq_refl Hin) as [w [A B]]. exists w. auto.
Qed.

Lemma disconnect_waiters_only_returns : forall l l' outs os x,
  disconnect_waiters l = (l', outs, os) -> In x outs -> exists o k, x = OReturn o k RetNotConn.
Proof.
  induction l as [|[k0 w0] rest IH]; simpl; intros l' outs os x H Hin.
  - inversion H; subst. destruct Hin.
  - destruct (disconnect_waiters rest) as [[l1 o1] os1] eqn:E.
    destruct (w_phase w0) eqn:Ep; inversion H; subst; clear H.
    + destruct Hin as [Hin|Hin]; [subst; eauto|eapply IH; eauto].
    + eapply IH; eauto.
Qed.

Lemma disconnect_returns : forall s s' outs o k r,
  disconnect s = (s', outs) -> In (OReturn o k r) outs ->
  exists w, In (k, w) (s_awaiting s) /\ w_o w = o /\ w_phase w = WWaiting /\ r = RetNotConn.
Proof.
  intros s s' outs o k r H Hin. unfold disconnect in H.
  destruct (s_connected s); [|inversion H; subst; destruct Hin].
  destruct (disconnect_waiters (s_awaiting s)) as [[aw o1] os1] eqn:E.
  simpl in H.
  assert (X : In (OReturn o k r) o1).
  { destruct (s_closer s) as [[oc dl]|]; simpl in H; inversion H; subst; clear H.
    - destruct Hin as [Hin|Hin]; [discriminate|]. apply in_app_or in Hin.
      destruct Hin as [Hin|Hin]; [exact Hin|].
      simpl in Hin. destruct Hin as [Hin|[Hin|[]]]; discriminate.
    - destruct Hin as [Hin|Hin]; [discriminate|exact Hin]. }
  eapply disconnect_waiters_returns; eauto.
Qed.

(* what a reply makes the API function return, by the phase of its waiter *)
Definition reply_ret (w : waiter) (m : rmsg) (r : ret) : Prop :=
  match w_phase w with
  | WWaiting => immediate_ret (w_op w) 0 m = Some r
  | WCancelWait dl => (exists rq t, m = RError rq t) /\ r = RetCtx dl
  end.

Lemma immediate_ret_rid : forall p a b m, immediate_ret p a m = immediate_ret p b m.
Proof. intros. destruct p; destruct m; reflexivity. Qed.

(* A message from the router makes an API call return only if it bears the
   request id that call is registered under; GOODBYE / ABORT make every call
   that is still in its first select return ErrNotConn.  Nobody else returns. *)
Theorem reply_correlated_step_proof : forall U s m s' outs o k r,
  step U s (RouterMsg m) = Ok s' outs -> In (OReturn o k r) outs ->
  (msg_req m = Some k /\ exists w, alookup (s_awaiting s) k = Some w /\ w_o w = o /\
     reply_ret w m r /\ alookup (s_awaiting s') k = None)
  \/ ((m = RGoodbye \/ m = RAbort) /\ exists w, In (k, w) (s_awaiting s) /\ w_o w = o /\
        w_phase w = WWaiting /\ r = RetNotConn).
Proof.
  intros U s m s' outs o k r H Hin. simpl in H. unfold step_router in H.
  destruct (negb (s_connected s)); [discriminate|].
  assert (R : forall rq, msg_req m = Some rq -> step_reply s rq m = Ok s' outs ->
     msg_req m = Some k /\ exists w, alookup (s_awaiting s) k = Some w /\ w_o w = o /\
     reply_ret w m r /\ alookup (s_awaiting s') k = None).
  { intros rq Hrq Hs. unfold step_reply in Hs.
    destruct (alookup (s_awaiting s) rq) as [w|] eqn:Ew; [|inversion Hs; subst; destruct Hin].
    assert (Hrem : forall l, alookup (aremove l rq) rq = None (A:=waiter)).
    { induction l as [|[k1 v1] rr IHl]; simpl; auto. destruct (N.eqb rq k1) eqn:E1; auto. simpl. rewrite E1. auto. }
    destruct (w_phase w) eqn:Ep.
    - (* waiting *)
      match type of Hs with (if ?c then _ else _) = _ => destruct c eqn:Eprog end.
      + destruct m; inversion Hs; subst; simpl in Hin; intuition discriminate.
      + destruct (immediate_ret (w_op w) rq m) eqn:Ei.
        * inversion Hs; subst; clear Hs. destruct Hin as [X|[]]. inversion X; subst.
          split; auto. exists w. repeat split; auto.
          -- unfold reply_ret. rewrite Ep. rewrite (immediate_ret_rid _ 0 k). exact Ei.
          -- simpl. apply Hrem.
        * inversion Hs; subst. destruct Hin.
    - (* waiting for the answer to CANCEL *)
      destruct m; inversion Hs; subst; simpl in Hin; try (intuition discriminate; fail).
      destruct Hin as [X|[]]. inversion X; subst. simpl in Hrq. inversion Hrq; subst.
      split; auto. exists w. repeat split; auto.
      + unfold reply_ret. rewrite Ep. split; eauto.
      + simpl. apply Hrem. }
  destruct m; simpl in *;
    try (left; eapply R; eauto; fail).
  - (* event *) exfalso. unfold step_event in H. revert H. repeat break_match; intro H; inversion H; subst;
      simpl in Hin; intuition discriminate.
  - (* invocation *) exfalso. unfold step_invocation in H. revert H. repeat break_match; intro H; inversion H; subst;
      simpl in Hin; intuition discriminate.
  - (* interrupt *) exfalso. unfold step_interrupt, cancel_inv in H. revert H.
      repeat break_match; intro H; inversion H; subst; simpl in Hin; intuition discriminate.
  - right. split; auto. destruct (disconnect s) eqn:E. inversion H; subst. eapply disconnect_returns; eauto.
  - right. split; auto. destruct (disconnect s) eqn:E. inversion H; subst. eapply disconnect_returns; eauto.
  - inversion H; subst. destruct Hin.
Qed.

(* ---- progressive results ------------------------------------------- *)

Lemma disconnect_no_progress : forall s s' outs o k t n,
  disconnect s = (s', outs) -> ~ In (OProgress o k t n) outs.
Proof.
  intros s s' outs o k t n H Hin. unfold disconnect in H.
  destruct (s_connected s); [|inversion H; subst; destruct Hin].
  destruct (disconnect_waiters (s_awaiting s)) as [[aw o1] os1] eqn:E. simpl in H.
  assert (X : In (OProgress o k t n) o1).
  { destruct (s_closer s) as [[oc dl]|]; simpl in H; inversion H; subst; clear H.
    - destruct Hin as [Hin|Hin]; [discriminate|]. apply in_app_or in Hin.
      destruct Hin as [Hin|Hin]; [exact Hin|]. simpl in Hin. intuition discriminate.
    - destruct Hin as [Hin|Hin]; [discriminate|exact Hin]. }
  destruct (disconnect_waiters_only_returns _ _ _ _ _ E X) as (o' & k' & Y). discriminate.
Qed.

(* The progress handler runs only as the immediate effect of a progressive
   RESULT bearing the call's own request id, while that call is still waiting
   in its first select (so: never after Call has returned, never after the
   context was cancelled), and the call keeps waiting. *)
Theorem progress_step_proof : forall U s l s' outs o k t n,
  step U s l = Ok s' outs -> In (OProgress o k t n) outs ->
  exists d a w, l = RouterMsg (RResult k d a) /\ bool_ok (dget d "progress") = true /\
    alookup (s_awaiting s) k = Some w /\ w_o w = o /\ w_phase w = WWaiting /\ has_prog (w_op w) = true /\
    t = atag a /\ n = List.length a /\ outs = [OProgress o k t n] /\ s' = s.
Proof.
  intros U s l s' outs o k t n H Hin.
  destruct l; simpl in H.
  - revert H. repeat break_match; intro H; inversion H; subst; simpl in Hin; intuition discriminate.
  - exfalso. unfold step_api_start in H. revert H. repeat break_match; intro H; inversion H; subst;
      simpl in Hin; intuition discriminate.
  - unfold step_router in H. destruct (negb (s_connected s)); [discriminate|].
    assert (R : forall rq, msg_req m = Some rq -> step_reply s rq m = Ok s' outs ->
      exists d a w, RouterMsg m = RouterMsg (RResult k d a) /\ bool_ok (dget d "progress") = true /\
        alookup (s_awaiting s) k = Some w /\ w_o w = o /\ w_phase w = WWaiting /\ has_prog (w_op w) = true /\
        t = atag a /\ n = List.length a /\ outs = [OProgress o k t n] /\ s' = s).
    { intros rq Hrq Hs. unfold step_reply in Hs.
      destruct (alookup (s_awaiting s) rq) as [w|] eqn:Ew; [|inversion Hs; subst; destruct Hin].
      destruct (w_phase w) eqn:Ep.
      - match type of Hs with (if ?c then _ else _) = _ => destruct c eqn:Eprog end.
        + destruct m; try discriminate. inversion Hs; subst; clear Hs.
          destruct Hin as [X|[]]. inversion X; subst. simpl in Hrq. inversion Hrq; subst.
          apply andb_true_iff in Eprog. destruct Eprog as [E1 E2].
          exists details, args, w. repeat split; auto.
        + exfalso. revert Hs. repeat break_match; intro Hs; inversion Hs; subst; simpl in Hin; intuition discriminate.
      - exfalso. revert Hs. repeat break_match; intro Hs; inversion Hs; subst; simpl in Hin; intuition discriminate. }
    destruct m; simpl in *; try (eapply R; eauto; fail); exfalso.
    + unfold step_event in H. revert H. repeat break_match; intro H; inversion H; subst; simpl in Hin; intuition discriminate.
    + unfold step_invocation in H. revert H. repeat break_match; intro H; inversion H; subst; simpl in Hin; intuition discriminate.
    + unfold step_interrupt, cancel_inv in H. revert H. repeat break_match; intro H; inversion H; subst; simpl in Hin; intuition discriminate.
    + destruct (disconnect s) eqn:E. inversion H; subst. eapply disconnect_no_progress; eauto.
    + destruct (disconnect s) eqn:E. inversion H; subst. eapply disconnect_no_progress; eauto.
    + inversion H; subst. destruct Hin.
  - exfalso. unfold step_timer in H. revert H. repeat break_match; intro H; inversion H; subst; simpl in Hin; intuition discriminate.
  - exfalso. unfold step_ctx in H. revert H. repeat break_match; intro H; inversion H; subst; simpl in Hin; intuition discriminate.
  - exfalso. unfold step_ctx in H. revert H. repeat break_match; intro H; inversion H; subst; simpl in Hin; intuition discriminate.
  - exfalso. unfold step_api_finish in H.
    destruct (fin_of (s_finishing s) o0); [|discriminate].
    destruct (f_op f); destruct (f_msg f); try discriminate;
      revert H; repeat break_match; intro H; inversion H; subst; simpl in Hin;
      try (intuition discriminate; fail);
      try (destruct Hin as [X|[X|X]]; try discriminate; eapply disconnect_no_progress; eauto).
  - exfalso. unfold step_inv_start in H. revert H. repeat break_match; intro H; inversion H; subst; simpl in Hin; intuition discriminate.
  - exfalso. unfold step_inv_exit in H. revert H. repeat break_match; intro H; inversion H; subst; simpl in Hin; intuition discriminate.
  - exfalso. unfold step_handler_return in H. revert H. repeat break_match; intro H; inversion H; subst; simpl in Hin; intuition discriminate.
  - exfalso. unfold step_send_prog in H. revert H. repeat break_match; intro H; inversion H; subst; simpl in Hin; intuition discriminate.
  - exfalso. unfold step_inv_timeout, cancel_inv in H. revert H. repeat break_match; intro H; inversion H; subst; simpl in Hin; intuition discriminate.
  - exfalso. unfold step_chunk in H. revert H. repeat break_match; intro H; inversion H; subst; simpl in Hin; intuition discriminate.
  - exfalso. unfold step_chunk in H. revert H. repeat break_match; intro H; inversion H; subst; simpl in Hin; intuition discriminate.
  - exfalso. unfold step_close_start, finish_close in H. revert H. repeat break_match; intro H; inversion H; subst; simpl in Hin; intuition discriminate.
  - exfalso. unfold step_close_timer in H. revert H. repeat break_match; try discriminate. intro H; inversion H; subst.
    eapply disconnect_no_progress; eauto.
  - exfalso. revert H. repeat break_match; try discriminate. intro H; inversion H; subst.
    eapply disconnect_no_progress; eauto.
  - exfalso. match type of H with match ?x with _ => _ end = _ => destruct x end; inversion H; subst; simpl in Hin; intuition discriminate.
Qed.

(* ---- cancellation ---------------------------------------------------- *)

Lemma waiter_of_in : forall l o k w, waiter_of l o = Some (k, w) -> In (k, w) l /\ w_o w = o.
Proof.
  induction l as [|[k0 w0] r IH]; simpl; intros o k w H; [discriminate|].
  destruct (Nat.eqb (w_o w0) o) eqn:E.
  - inversion H; subst. apply Nat.eqb_eq in E. auto.
  - destruct (IH _ _ _ H). auto.
Qed.

(* Cancelling (or expiring) the context of a Call that waits for its reply
   sends exactly one CANCEL, for the call's own request id, with the
   configured mode; the call then waits, under a fresh response timer, for
   the answer to that CANCEL only. *)
Theorem cancel_sends_mode_proof : forall U s o (expired : bool) s' outs,
  step U s (if expired then CtxExpire o else CtxCancel o) = Ok s' outs ->
  exists k w, waiter_of (s_awaiting s) o = Some (k, w) /\ is_call (w_op w) = true /\ w_phase w = WWaiting /\
    outs = [OSend (CCancel k (cfg_mode (s_cfg s)))] /\
    alookup (s_awaiting s') k =
      Some {| w_o := o; w_op := w_op w; w_phase := WCancelWait expired;
              w_timer := Some (s_now s + cfg_rt (s_cfg s)); w_ctx := w_ctx w |}.
Proof.
  intros U s o expired s' outs H.
  assert (H' : step_ctx s o expired = Ok s' outs) by (destruct expired; exact H).
  clear H. unfold step_ctx in H'.
  destruct (waiter_of (s_awaiting s) o) as [[k w]|] eqn:Ew; [|discriminate].
  destruct (is_call (w_op w)) eqn:Ec; [|discriminate]. simpl in H'.
  destruct (w_phase w) eqn:Ep; [|discriminate].
  match type of H' with (if negb ?c then _ else _) = _ => destruct c; [|discriminate] end.
  simpl in H'. inversion H'; subst; clear H'.
  exists k, w. repeat split; auto. simpl. rewrite N.eqb_refl. reflexivity.
Qed.

(* ================================================================== *)
(* Well-formedness of the awaiting-reply table                          *)

Lemma aremove_in : forall {A} (l : list (N * A)) k k' v, In (k', v) (aremove l k) -> In (k', v) l /\ k' <> k.
Proof.
  induction l as [|[k0 v0] r IH]; simpl; intros k k' v H; [destruct H|].
  destruct (N.eqb k k0) eqn:E.
  - destruct (IH _ _ _ H). auto.
  - destruct H as [H|H].
    + inversion H; subst. split; auto. intro X; subst. rewrite N.eqb_refl in E. discriminate.
    + destruct (IH _ _ _ H). auto.
Qed.

Lemma aremove_keeps : forall {A} (l : list (N * A)) k k' v, In (k', v) l -> k' <> k -> In (k', v) (aremove l k).
Proof.
  induction l as [|[k0 v0] r IH]; simpl; intros k k' v H N; [destruct H|].
  destruct (N.eqb k k0) eqn:E.
  - destruct H as [H|H]; [|auto]. inversion H; subst. apply N.eqb_eq in E. congruence.
  - destruct H as [H|H]; [left; auto|right; auto].
Qed.

Lemma aremove_nodup : forall {A} (l : list (N * A)) k, NoDup (map fst l) -> NoDup (map fst (aremove l k)).
Proof.
  induction l as [|[k0 v0] r IH]; simpl; intros k H; [constructor|].
  inversion H; subst. destruct (N.eqb k k0); [auto|]. simpl. constructor; auto.
  intro X. apply H2. apply in_map_iff in X. destruct X as [[k1 v1] [E1 I1]]. simpl in E1. subst.
  apply aremove_in in I1. destruct I1. change k0 with (fst (k0, v1)). apply in_map. assumption.
Qed.

Lemma aremove_lookup_same : forall {A} (l : list (N * A)) k, alookup (aremove l k) k = None.
Proof.
  induction l as [|[k1 v1] r IH]; simpl; intro k; auto.
  destruct (N.eqb k k1) eqn:E; auto. simpl. rewrite E. auto.
Qed.

Lemma aremove_lookup_other : forall {A} (l : list (N * A)) k k', k' <> k -> alookup (aremove l k) k' = alookup l k'.
Proof.
  induction l as [|[k1 v1] r IH]; simpl; intros k k' N; auto.
  destruct (N.eqb k k1) eqn:E.
  - apply N.eqb_eq in E. subst. destruct (N.eqb k' k1) eqn:E'; [apply N.eqb_eq in E'; congruence|auto].
  - simpl. destruct (N.eqb k' k1); auto.
Qed.

Lemma nodup_alookup : forall {A} (l : list (N * A)) k v, NoDup (map fst l) -> In (k, v) l -> alookup l k = Some v.
Proof.
  induction l as [|[k0 v0] r IH]; simpl; intros k v H Hi; [destruct Hi|].
  inversion H; subst. destruct Hi as [Hi|Hi].
  - inversion Hi; subst. rewrite N.eqb_refl. reflexivity.
  - destruct (N.eqb k k0) eqn:E; [|auto]. apply N.eqb_eq in E. subst. exfalso. apply H2.
    change k0 with (fst (k0, v)). apply in_map. assumption.
Qed.

Lemma alookup_none_notin : forall {A} (l : list (N * A)) k v, alookup l k = None -> ~ In (k, v) l.
Proof.
  induction l as [|[k0 v0] r IH]; simpl; intros k v H Hi; [assumption|].
  destruct (N.eqb k k0) eqn:E; [discriminate|]. destruct Hi as [Hi|Hi].
  - inversion Hi; subst. rewrite N.eqb_refl in E. discriminate.
  - eapply IH; eauto.
Qed.

Lemma disconnect_waiters_sub : forall l l' outs os k w,
  disconnect_waiters l = (l', outs, os) -> In (k, w) l' -> In (k, w) l /\ exists dl, w_phase w = WCancelWait dl.
Proof.
  induction l as [|[k0 w0] rest IH]; simpl; intros l' outs os k w H Hi.
  - inversion H; subst. destruct Hi.
  - destruct (disconnect_waiters rest) as [[l1 o1] os1] eqn:E.
    destruct (w_phase w0) eqn:Ep; inversion H; subst; clear H.
    + destruct (IH _ _ _ _ _ eq_refl Hi). auto.
    + destruct Hi as [Hi|Hi].
      * inversion Hi; subst. split; auto. eauto.
      * destruct (IH _ _ _ _ _ eq_refl Hi). auto.
Qed.

Lemma disconnect_waiters_nodup : forall l l' outs os,
  disconnect_waiters l = (l', outs, os) -> NoDup (map fst l) -> NoDup (map fst l').
Proof.
  induction l as [|[k0 w0] rest IH]; simpl; intros l' outs os H Hn.
  - inversion H; subst. constructor.
  - destruct (disconnect_waiters rest) as [[l1 o1] os1] eqn:E. inversion Hn; subst.
    destruct (w_phase w0) eqn:Ep; inversion H; subst; clear H.
    + eapply IH; eauto.
    + simpl. constructor; [|eapply IH; eauto].
      intro X. match goal with Y : ~ In _ _ |- _ => apply Y end.
      apply in_map_iff in X. destruct X as [[k1 w1] [E1 I1]]. simpl in E1. subst.
      destruct (disconnect_waiters_sub _ _ _ _ _ _ E I1) as [I2 _].
      change k0 with (fst (k0, w1)). apply in_map. assumption.
Qed.

Record WF (s : state) : Prop := {
  wf_nodup : NoDup (map fst (s_awaiting s));
  wf_keys : forall k w, In (k, w) (s_awaiting s) -> 0 < k /\ k <= s_next s;
  wf_fin : forall f, In f (s_finishing s) ->
             0 < f_id f /\ f_id f <= s_next s /\ alookup (s_awaiting s) (f_id f) = None }.

Lemma wf_init : forall c, WF (init c).
Proof. intro c. constructor; simpl; intros; try constructor; contradiction. Qed.

(* generic: a state that differs from a well-formed one outside the three
   fields the invariant speaks about *)
Lemma wf_same : forall s s', WF s -> s_awaiting s' = s_awaiting s -> s_finishing s' = s_finishing s ->
  s_next s' = s_next s -> WF s'.
Proof.
  intros s s' [A B C] E1 E2 E3. constructor; rewrite ?E1, ?E2, ?E3; auto.
Qed.

Lemma fin_remove_in : forall l o f, In f (fin_remove l o) -> In f l.
Proof.
  induction l as [|f0 r IH]; simpl; intros o f H; [destruct H|].
  destruct (Nat.eqb (f_o f0) o); [right; eauto|]. destruct H; [left; auto|right; eauto].
Qed.

Lemma wf_remove_waiter : forall s k, WF s ->
  WF (set_awaiting s (aremove (s_awaiting s) k)).
Proof.
  intros s k [A B C]. constructor; simpl.
  - apply aremove_nodup. exact A.
  - intros k' w H. apply aremove_in in H. destruct H. eauto.
  - intros f H. destruct (C f H) as (X & Y & Z). repeat split; auto.
    destruct (N.eq_dec (f_id f) k) as [->|N]; [apply aremove_lookup_same|].
    rewrite aremove_lookup_other; auto.
Qed.

Lemma wf_disconnect : forall s s' outs, WF s -> disconnect s = (s', outs) -> WF s'.
Proof.
  intros s s' outs W H. unfold disconnect in H.
  destruct (s_connected s); [|inversion H; subst; exact W].
  destruct (disconnect_waiters (s_awaiting s)) as [[aw o1] os1] eqn:E. simpl in H.
  assert (W1 : WF (set_awaiting s aw)).
  { destruct W as [A B C]. constructor; simpl.
    - eapply disconnect_waiters_nodup; eauto.
    - intros k w Hi. destruct (disconnect_waiters_sub _ _ _ _ _ _ E Hi). eauto.
    - intros f Hf. destruct (C f Hf) as (X & Y & Z). repeat split; auto.
      destruct (alookup aw (f_id f)) eqn:El; auto. exfalso.
      apply alookup_in in El. destruct (disconnect_waiters_sub _ _ _ _ _ _ E El) as [I2 _].
      eapply alookup_none_notin; eauto. }
  destruct (s_closer s) as [[oc dl]|]; simpl in H; inversion H; subst; clear H;
    (eapply wf_same; [exact W1|reflexivity|reflexivity|reflexivity]).
Qed.

Theorem wf_step : forall U s l s' outs, WF s -> step U s l = Ok s' outs -> WF s'.
Proof.
  intros U s l s' outs W H. destruct l; simpl in H.
  - revert H. repeat break_match; intro H; inversion H; subst. eapply wf_same; eauto.
  - (* ApiStart *)
    unfold step_api_start in H.
    assert (ENQ : forall s0 x, WF s0 ->
       (let nid := s_next s0 + 1 in
        if negb (rid =? nid) then Invalid else
        let s1 := set_next s0 nid in
        let s2 := set_busy s1 (o :: s_busy s1) in
        let s3 := set_awaiting s2 (aset (s_awaiting s2) nid (new_waiter s2 o p)) in
        let s4 := match p with
                  | OpCallProg pr hp true _ => set_chunkers s3 ((o, (nid, pr, hp)) :: s_chunkers s3)
                  | _ => s3 end in
        Ok s4 [OSend (request_msg p nid x)]) = Ok s' outs -> WF s').
    { intros s0 x W0 H0. cbv zeta in H0. destruct (negb (rid =? s_next s0 + 1)); [discriminate|].
      assert (W3 : WF (set_awaiting (set_busy (set_next s0 (s_next s0 + 1)) (o :: s_busy s0))
                         (aset (s_awaiting s0) (s_next s0 + 1) (new_waiter (set_busy (set_next s0 (s_next s0 + 1)) (o :: s_busy s0)) o p)))).
      { destruct W0 as [A B C]. constructor; simpl.
        - constructor; [|apply aremove_nodup; exact A].
          intro X. apply in_map_iff in X. destruct X as [[k1 w1] [E1 I1]]. simpl in E1. subst.
          apply aremove_in in I1. destruct I1 as [I1 _]. apply B in I1. lia.
        - intros k w [Hi|Hi].
          + inversion Hi; subst. lia.
          + apply aremove_in in Hi. destruct Hi as [Hi _]. apply B in Hi. lia.
        - intros f Hf. destruct (C f Hf) as (X & Y & Z). repeat split; auto; try lia.
          destruct (N.eqb (f_id f) (s_next s0 + 1)) eqn:E; [apply N.eqb_eq in E; lia|].
          rewrite aremove_lookup_other; auto. apply N.eqb_neq in E. auto. }
      destruct p; inversion H0; subst; try exact W3.
      destruct more; inversion H0; subst; (eapply wf_same; [exact W3|reflexivity|reflexivity|reflexivity]). }
    assert (WSUB : forall eh ts, WF (set_subs s eh ts)) by (intros; eapply wf_same; eauto).
    assert (WREG : forall ih pr, WF (set_regs s ih pr)) by (intros; eapply wf_same; eauto).
    assert (WNEXT : WF (set_next s (s_next s + 1))).
    { destruct W as [A B C]. constructor; simpl; auto.
      - intros k w Hi. apply B in Hi. lia.
      - intros f Hf. destruct (C f Hf) as (X & Y & Z). repeat split; auto. lia. }
    destruct (mem_nat o (s_busy s)); [discriminate|].
    assert (PLAIN : (if s_connected s
                     then (let nid := s_next s + 1 in
                           if negb (rid =? nid) then Invalid else
                           let s1 := set_next s nid in
                           let s2 := set_busy s1 (o :: s_busy s1) in
                           let s3 := set_awaiting s2 (aset (s_awaiting s2) nid (new_waiter s2 o p)) in
                           let s4 := match p with
                                     | OpCallProg pr hp true _ => set_chunkers s3 ((o, (nid, pr, hp)) :: s_chunkers s3)
                                     | _ => s3 end in
                           Ok s4 [OSend (request_msg p nid 0)])
                     else if rid =? 0 then Ok s [OReturn o 0 RetNotConn] else Invalid) = Ok s' outs -> WF s').
    { intro HP. destruct (s_connected s); [eapply (ENQ s 0 W); exact HP|].
      destruct (rid =? 0); inversion HP; subst; exact W. }
    destruct p; try (apply PLAIN; exact H).
    + (* Unsubscribe *)
      destruct (alookup (s_topic_sub s) topic) as [sub|].
      * cbv zeta in H. destruct (s_connected (set_subs s (aremove (s_ehandlers s) sub) (aremove (s_topic_sub s) topic))).
        -- eapply (ENQ _ sub (WSUB _ _)). exact H.
        -- destruct (rid =? 0); inversion H; subst. apply WSUB.
      * destruct (rid =? 0); inversion H; subst. exact W.
    + (* Unregister *)
      destruct (alookup (s_proc_reg s) proc) as [reg|].
      * cbv zeta in H. destruct (s_connected (set_regs s (aremove (s_ihandlers s) reg) (aremove (s_proc_reg s) proc))).
        -- eapply (ENQ _ reg (WREG _ _)). exact H.
        -- destruct (rid =? 0); inversion H; subst. apply WREG.
      * destruct (rid =? 0); inversion H; subst. exact W.
    + (* Publish *)
      destruct ack; [apply PLAIN; exact H|].
      destruct (s_connected s).
      * cbv zeta in H. destruct (negb (rid =? s_next s + 1)); inversion H; subst. exact WNEXT.
      * destruct (rid =? 0); inversion H; subst. exact W.
    + (* CallProgressive *)
      destruct (s_connected s) eqn:Ec.
      * destruct (cfg_progcall (s_cfg s)).
        -- apply PLAIN. exact H.
        -- destruct (rid =? 0); inversion H; subst. exact W.
      * destruct (rid =? 0); inversion H; subst. exact W.
    + (* a call that fails its local validation *)
      destruct (negb (rid =? 0)); [discriminate|].
      destruct (s_connected s); inversion H; subst; [exact WNEXT|exact W].
  - (* RouterMsg *)
    unfold step_router in H. destruct (negb (s_connected s)); [discriminate|].
    assert (R : forall rq, step_reply s rq m = Ok s' outs -> WF s').
    { intros rq Hs. unfold step_reply in Hs.
      destruct (alookup (s_awaiting s) rq) as [w|] eqn:Ew; [|inversion Hs; subst; exact W].
      pose proof (wf_remove_waiter s rq W) as W1.
      destruct (w_phase w).
      - match type of Hs with (if ?c then _ else _) = _ => destruct c end.
        + destruct m; inversion Hs; subst; exact W.
        + destruct (immediate_ret (w_op w) rq m).
          * inversion Hs; subst. eapply wf_same; [exact W1|reflexivity|reflexivity|reflexivity].
          * inversion Hs; subst; clear Hs. destruct W1 as [A B C]. constructor; simpl; auto.
            intros f [Hf|Hf].
            -- subst f. simpl. destruct W as [A0 B0 C0]. apply alookup_in in Ew. apply B0 in Ew.
               repeat split; try lia. apply aremove_lookup_same.
            -- apply C. exact Hf.
      - destruct m; inversion Hs; subst; try exact W.
        eapply wf_same; [exact W1|reflexivity|reflexivity|reflexivity]. }
    destruct m; simpl in H; try (eapply R; eauto; fail).
    + unfold step_event in H. revert H. repeat break_match; intro H; inversion H; subst; exact W.
    + unfold step_invocation in H. revert H. unfold update_last_recv.
      repeat break_match; intro H; inversion H; subst; try exact W;
        (eapply wf_same; [exact W|reflexivity|reflexivity|reflexivity]).
    + unfold step_interrupt, cancel_inv, update_last_recv in H. revert H.
      repeat break_match; intro H; inversion H; subst; try exact W;
        (eapply wf_same; [exact W|reflexivity|reflexivity|reflexivity]).
    + destruct (disconnect s) eqn:E. inversion H; subst. eapply wf_disconnect; eauto.
    + destruct (disconnect s) eqn:E. inversion H; subst. eapply wf_disconnect; eauto.
    + inversion H; subst. exact W.
  - (* TimerFire *)
    unfold step_timer in H. revert H. repeat break_match; intro H; inversion H; subst.
    eapply wf_same; [apply (wf_remove_waiter s i W)|reflexivity|reflexivity|reflexivity].
  - (* CtxCancel *)
    unfold step_ctx in H. revert H. repeat break_match; intro H; inversion H; subst.
    destruct W as [A B C]. apply waiter_of_in in Heqo0. destruct Heqo0 as [Hi _].
    constructor; simpl.
    + constructor; [|apply aremove_nodup; exact A].
      intro X. apply in_map_iff in X. destruct X as [[k1 w1] [E1 I1]]. simpl in E1. subst.
      apply aremove_in in I1. destruct I1. congruence.
    + intros k w' [Hk|Hk]; [inversion Hk; subst; eauto|]. apply aremove_in in Hk. destruct Hk. eauto.
    + intros f Hf. destruct (C f Hf) as (X & Y & Z). repeat split; auto.
      destruct (N.eqb (f_id f) i) eqn:E.
      * apply N.eqb_eq in E. subst. exfalso. eapply alookup_none_notin; eauto.
      * rewrite aremove_lookup_other; auto. apply N.eqb_neq in E. auto.
  - (* CtxExpire *)
    unfold step_ctx in H. revert H. repeat break_match; intro H; inversion H; subst.
    destruct W as [A B C]. apply waiter_of_in in Heqo0. destruct Heqo0 as [Hi _].
    constructor; simpl.
    + constructor; [|apply aremove_nodup; exact A].
      intro X. apply in_map_iff in X. destruct X as [[k1 w1] [E1 I1]]. simpl in E1. subst.
      apply aremove_in in I1. destruct I1. congruence.
    + intros k w' [Hk|Hk]; [inversion Hk; subst; eauto|]. apply aremove_in in Hk. destruct Hk. eauto.
    + intros f Hf. destruct (C f Hf) as (X & Y & Z). repeat split; auto.
      destruct (N.eqb (f_id f) i) eqn:E.
      * apply N.eqb_eq in E. subst. exfalso. eapply alookup_none_notin; eauto.
      * rewrite aremove_lookup_other; auto. apply N.eqb_neq in E. auto.
  - (* ApiFinish *)
    unfold step_api_finish in H.
    destruct (fin_of (s_finishing s) o) as [f|]; [|discriminate].
    assert (W1 : WF (unbusy (set_finishing s (fin_remove (s_finishing s) o)) o)).
    { destruct W as [A B C]. constructor; simpl; auto. intros f0 Hf. apply C. eapply fin_remove_in; eauto. }
    destruct (f_op f); destruct (f_msg f); try discriminate;
      revert H; repeat break_match; intro H; inversion H; subst;
      try exact W1;
      try (eapply wf_same; [exact W1|reflexivity|reflexivity|reflexivity]);
      try (eapply wf_disconnect; eauto).
  - unfold step_inv_start in H. revert H. repeat break_match; intro H; inversion H; subst; try exact W;
    eapply wf_same; eauto.
  - unfold step_inv_exit in H. revert H. repeat break_match; intro H; inversion H; subst; try exact W;
    eapply wf_same; eauto.
  - unfold step_handler_return in H. revert H. repeat break_match; intro H; inversion H; subst;
      eapply wf_same; eauto.
  - unfold step_send_prog in H. revert H. repeat break_match; intro H; inversion H; subst; exact W.
  - unfold step_inv_timeout, cancel_inv in H. revert H. repeat break_match; intro H; inversion H; subst; try exact W;
    eapply wf_same; eauto.
  - unfold step_chunk in H. revert H. repeat break_match; intro H; inversion H; subst; try exact W;
      eapply wf_same; eauto.
  - unfold step_chunk in H. revert H. repeat break_match; intro H; inversion H; subst; try exact W;
      eapply wf_same; eauto.
  - unfold step_close_start, finish_close in H. revert H. repeat break_match; intro H; inversion H; subst;
      try exact W; eapply wf_same; eauto.
  - unfold step_close_timer in H. revert H. repeat break_match; try discriminate. intro H; inversion H; subst.
    eapply wf_disconnect; eauto.
  - revert H. repeat break_match; try discriminate. intro H; inversion H; subst. eapply wf_disconnect; eauto.
  - match type of H with match ?x with _ => _ end = _ => destruct x end; inversion H; subst; try exact W; eapply wf_same; eauto.
Qed.

Theorem wf_reachable : forall U c tr, WF (x_state (exec U c tr)).
Proof.
  intros. apply exec_state_ind; [apply wf_init|]. intros. eapply wf_step; eauto.
Qed.

(* ================================================================== *)
(* Invocations                                                          *)

Definition final_reply (req : id) (m : cmsg) : bool :=
  match m with
  | CYield r _ false => r =? req
  | CErrorInv r IECanceled | CErrorInv r IEApp => r =? req
  | _ => false
  end.

Fixpoint count_final (req : id) (outs : list out) : nat :=
  match outs with
  | [] => 0
  | OSend m :: r => ((if final_reply req m then 1 else 0) + count_final req r)%nat
  | _ :: r => count_final req r
  end.

Lemma inv_replace_lookup : forall l i i', inv_by_req l (i_req i') = Some i ->
  i_reg i = i_reg i' -> i_req i = i_req i' ->
  inv_by_req (inv_replace l i') (i_req i') = Some i'.
Proof.
  induction l as [|i0 r IH]; simpl; intros i i' H E1 E2; [discriminate|].
  destruct (i_req i0 =? i_req i') eqn:E.
  - inversion H; subst i0. unfold inv_key_eqb. rewrite E1, E2, !N.eqb_refl. simpl. rewrite N.eqb_refl. reflexivity.
  - unfold inv_key_eqb. rewrite E, andb_false_r. simpl. rewrite E. eapply IH; eauto.
Qed.

Lemma inv_gc_lookup : forall l req i, inv_by_req (inv_gc l) req = Some i -> In i l /\ i_req i = req.
Proof.
  induction l as [|i0 r IH]; simpl; intros req i H; [discriminate|].
  destruct (i_queue_alive i0 || i_outer i0 || i_running i0).
  - simpl in H. destruct (i_req i0 =? req) eqn:E.
    + inversion H; subst. apply N.eqb_eq in E. auto.
    + destruct (IH _ _ H). auto.
  - destruct (IH _ _ H). auto.
Qed.

Lemma inv_replace_in : forall l i' i, In i (inv_replace l i') -> i = i' \/ In i l.
Proof.
  induction l as [|i0 r IH]; simpl; intros i' i H; [destruct H|].
  destruct (inv_key_eqb i0 (i_reg i') (i_req i')).
  - destruct H as [H|H]; [left; auto|right; right; auto].
  - destruct H as [H|H]; [right; left; auto|]. destruct (IH _ _ H); auto.
Qed.

Lemma disconnect_outs_shape : forall s s' outs x,
  disconnect s = (s', outs) -> In x outs ->
  x = ODone \/ (exists o k, x = OReturn o k RetNotConn) \/ (exists o, x = OCloseRet o false) \/ x = OPeerClosed.
Proof.
  intros s s' outs x H Hin. unfold disconnect in H.
  destruct (s_connected s); [|inversion H; subst; destruct Hin].
  destruct (disconnect_waiters (s_awaiting s)) as [[aw o1] os1] eqn:E. simpl in H.
  assert (X : forall y, In y o1 -> exists o k, y = OReturn o k RetNotConn)
    by (intros; eapply disconnect_waiters_only_returns; eauto).
  destruct (s_closer s) as [[oc dl]|]; simpl in H; inversion H; subst; clear H.
  - destruct Hin as [Hin|Hin]; [left; auto|]. apply in_app_or in Hin. destruct Hin as [Hin|Hin].
    + right. left. apply X. exact Hin.
    + simpl in Hin. destruct Hin as [Hin|[Hin|[]]]; subst; eauto.
  - destruct Hin as [Hin|Hin]; [left; auto|]. right. left. apply X. exact Hin.
Qed.

Ltac lit_outs H Hin :=
  revert H; repeat break_match; intro H; inversion H; subst; simpl in Hin; intuition discriminate.

Ltac disc_outs E Hin :=
  let X := fresh "X" in
  destruct (disconnect_outs_shape _ _ _ _ E Hin) as [X|[X|[X|X]]];
  [discriminate X
  |let a := fresh in let b := fresh in destruct X as (a & b & X); discriminate X
  |let a := fresh in destruct X as (a & X); discriminate X
  |discriminate X].

(* The user handler is started only by the invocation's own goroutine taking
   the OLDEST queued chunk, while no chunk is being handled: chunks reach the
   handler one at a time and in the order in which the INVOCATION messages
   arrived (step_invocation appends to the queue of the SAME record). *)
Theorem handler_start_step_proof : forall U s l s' outs h req reg t n p cdone,
  step U s l = Ok s' outs -> In (OHandler h req reg t n p cdone) outs ->
  l = InvStart req /\
  exists i c q, inv_by_req (s_invs s) req = Some i /\ i_running i = false /\ i_queue_alive i = true /\
    i_queue i = c :: q /\ c_tag c = t /\ c_n c = n /\ c_progress c = p /\ i_h i = h /\ i_reg i = reg /\
    cdone = i_cancelled i /\ outs = [OHandler h req reg t n p cdone].
Proof.
  intros U s l s' outs h req reg t n p cdone H Hin.
  destruct l; simpl in H.
  - exfalso. lit_outs H Hin.
  - exfalso. unfold step_api_start in H. lit_outs H Hin.
  - exfalso. unfold step_router in H. destruct (negb (s_connected s)); [discriminate|].
    destruct m; simpl in H;
      try (unfold step_reply in H; lit_outs H Hin).
    + unfold step_event in H. lit_outs H Hin.
    + unfold step_invocation in H. lit_outs H Hin.
    + unfold step_interrupt, cancel_inv in H. lit_outs H Hin.
    + destruct (disconnect s) eqn:E. inversion H; subst. disc_outs E Hin.
    + destruct (disconnect s) eqn:E. inversion H; subst. disc_outs E Hin.
  - exfalso. unfold step_timer in H. lit_outs H Hin.
  - exfalso. unfold step_ctx in H. lit_outs H Hin.
  - exfalso. unfold step_ctx in H. lit_outs H Hin.
  - exfalso. unfold step_api_finish in H.
    destruct (fin_of (s_finishing s) o); [|discriminate].
    destruct (f_op f); destruct (f_msg f); try discriminate;
      revert H; repeat break_match; intro H; inversion H; subst; simpl in Hin;
      try (intuition discriminate; fail);
      (destruct Hin as [X|[X|X]]; try discriminate;
       match goal with E : disconnect _ = _ |- _ => disc_outs E X end).
  - unfold step_inv_start in H.
    destruct (inv_by_req (s_invs s) req0) as [i|] eqn:Ei; [|discriminate].
    destruct (i_queue_alive i && negb (i_running i) && i_more i) eqn:Ec; [|discriminate].
    destruct (i_queue i) as [|c q] eqn:Eq; [discriminate|].
    inversion H; subst; clear H. destruct Hin as [X|[]]. inversion X; subst.
    apply andb_true_iff in Ec. destruct Ec as [Ec _]. apply andb_true_iff in Ec. destruct Ec as [Ea Er].
    split; [reflexivity|]. exists i, c, q. repeat split; auto.
    destruct (i_running i); [discriminate|reflexivity].
  - exfalso. unfold step_inv_exit in H. lit_outs H Hin.
  - exfalso. unfold step_handler_return in H. lit_outs H Hin.
  - exfalso. unfold step_send_prog in H. lit_outs H Hin.
  - exfalso. unfold step_inv_timeout, cancel_inv in H. lit_outs H Hin.
  - exfalso. unfold step_chunk in H. lit_outs H Hin.
  - exfalso. unfold step_chunk in H. lit_outs H Hin.
  - exfalso. unfold step_close_start, finish_close in H. lit_outs H Hin.
  - exfalso. unfold step_close_timer in H. revert H. repeat break_match; try discriminate.
    intro H. inversion H; subst. match goal with E : disconnect _ = _ |- _ => disc_outs E Hin end.
  - exfalso. revert H. repeat break_match; try discriminate.
    intro H. inversion H; subst. match goal with E : disconnect _ = _ |- _ => disc_outs E Hin end.
  - exfalso. match type of H with match ?x with _ => _ end = _ => destruct x end; inversion H; subst; simpl in Hin; intuition discriminate.
Qed.

Lemma count_final_no_send : forall req outs, (forall x, In x outs -> forall m, x <> OSend m) -> count_final req outs = 0%nat.
Proof.
  induction outs as [|x r IH]; simpl; intro H; auto.
  destruct x; try (apply IH; intros; apply H; auto).
  exfalso. eapply (H (OSend m)); auto.
Qed.

Lemma disconnect_count_final : forall s s' outs req, disconnect s = (s', outs) -> count_final req outs = 0%nat.
Proof.
  intros. apply count_final_no_send. intros x Hin m E. subst.
  disc_outs H Hin.
Qed.

(* A second INVOCATION for a (registration, request) whose queue exists is
   queued for the SAME run: no new record, no new goroutine, no output. *)
Theorem repeated_invocation_same_run_proof : forall U s req reg d a h i,
  s_connected s = true -> alookup (s_ihandlers s) reg = Some h -> ppt_scheme d = None ->
  inv_find (s_invs s) reg req = Some i -> i_queue_alive i = true ->
  exists s', step U s (RouterMsg (RInvocation req reg d a)) = Ok s' [] /\
    s_invs s' = inv_replace (s_invs (update_last_recv s req))
      (upd_inv i (i_queue i ++ [{| c_tag := atag a; c_n := List.length a; c_progress := bool_ok (dget d "progress") |}])
         true (i_running i) (i_more i) (i_cancelled i) (i_outer i) (i_recvprog i)).
Proof.
  intros U s req reg d a h i Hc Hh Hp Hi Ha. simpl. unfold step_router. rewrite Hc. simpl.
  unfold step_invocation. rewrite Hh, Hp, Hi, Ha. eexists. split; reflexivity.
Qed.

(* An INVOCATION whose request id is not new (IsNewRecvID) and for which no
   queue exists is dropped silently: no handler run, no reply, no state change. *)
Theorem stale_invocation_ignored_proof : forall U s req reg d a h,
  s_connected s = true -> alookup (s_ihandlers s) reg = Some h -> ppt_scheme d = None ->
  (forall i, inv_find (s_invs s) reg req = Some i -> i_queue_alive i = false) ->
  is_new_recv_id (s_last_recv s) req = false ->
  step U s (RouterMsg (RInvocation req reg d a)) = Ok s [].
Proof.
  intros U s req reg d a h Hc Hh Hp Hq Hn. simpl. unfold step_router. rewrite Hc. simpl.
  unfold step_invocation. rewrite Hh, Hp, Hn.
  destruct (inv_find (s_invs s) reg req) as [i|] eqn:Ei; [|reflexivity].
  rewrite (Hq i eq_refl). reflexivity.
Qed.

(* INTERRUPT (and the invocation's own timeout) cancel the handler's context;
   the ERROR "canceled" is sent iff the invocation had not been answered yet. *)
Theorem interrupt_cancels_ctx_proof : forall U s req i,
  s_connected s = true -> inv_by_req (s_invs (update_last_recv s req)) req = Some i -> i_outer i = true ->
  exists s' outs, step U s (RouterMsg (RInterrupt req)) = Ok s' outs /\
    outs = (if negb (i_cancelled i) then [OSend (CErrorInv req IECanceled)] else []) /\
    (forall i', inv_by_req (s_invs s') req = Some i' -> In i' (s_invs (update_last_recv s req)) \/
        (i_cancelled i' = true /\ i_outer i' = false)).
Proof.
  intros U s req i Hc Hi Ho. simpl. unfold step_router. rewrite Hc. simpl.
  unfold step_interrupt. rewrite Hi, Ho. unfold cancel_inv. rewrite Ho.
  assert (Hc' : s_connected (update_last_recv s req) = true).
  { unfold update_last_recv. destruct (is_new_recv_id _ _); auto. }
  rewrite Hc'. eexists. eexists. split; [reflexivity|]. split.
  - assert (Er : i_req i = req).
    { clear - Hi. induction (s_invs (update_last_recv s req)) as [|i0 r IH]; simpl in Hi; [discriminate|].
      destruct (i_req i0 =? req) eqn:E; [inversion Hi; subst; apply N.eqb_eq; auto|auto]. }
    rewrite Er. destruct (i_cancelled i); reflexivity.
  - intros i' Hi'. simpl in Hi'. apply inv_gc_lookup in Hi'. destruct Hi' as [Hin _].
    apply inv_replace_in in Hin. destruct Hin as [->|Hin]; [right; simpl; auto|left; auto].
Qed.

Lemma update_last_recv_invs : forall s r, s_invs (update_last_recv s r) = s_invs s.
Proof. intros. unfold update_last_recv. destruct (is_new_recv_id _ _); reflexivity. Qed.

Lemma update_last_recv_conn : forall s r, s_connected (update_last_recv s r) = s_connected s.
Proof. intros. unfold update_last_recv. destruct (is_new_recv_id _ _); reflexivity. Qed.

Lemma inv_by_req_req : forall l req i, inv_by_req l req = Some i -> i_req i = req.
Proof.
  induction l as [|i0 r IH]; simpl; intros req i H; [discriminate|].
  destruct (i_req i0 =? req) eqn:E; [inversion H; subst; apply N.eqb_eq; auto|auto].
Qed.

(* A final reply (YIELD without progress, ERROR canceled / application error)
   for request req is sent only on behalf of the current invocation record of
   req, while that record is unanswered, not cancelled and the client is
   connected; at most one per step; and the step marks that record answered
   (its outer goroutine is gone).  Hence: never a second YIELD / ERROR for
   the same run, and the reply carries the invocation's own request id. *)
Theorem final_reply_once_step_proof : forall U s l s' outs req,
  step U s l = Ok s' outs -> (0 < count_final req outs)%nat ->
  count_final req outs = 1%nat /\ s_connected s = true /\
  exists i i', s_invs s' = inv_gc (inv_replace (s_invs s) i') /\
    inv_by_req (s_invs s) req = Some i /\ i_outer i = true /\ i_cancelled i = false /\
    i_outer i' = false /\ i_req i' = req /\ i_reg i' = i_reg i.
Proof.
  intros U s l s' outs req H Hc.
  assert (LIT : forall P : Prop, count_final req outs = 0%nat -> P) by (intros; lia).
  destruct l; simpl in H.
  - apply LIT. revert H. repeat break_match; intro H; inversion H; subst; reflexivity.
  - apply LIT. unfold step_api_start in H. revert H. repeat break_match; intro H; inversion H; subst; try reflexivity;
      destruct p; reflexivity.
  - unfold step_router in H. destruct (negb (s_connected s)) eqn:Econ; [discriminate|].
    destruct m; simpl in H;
      try (apply LIT; unfold step_reply in H; revert H; repeat break_match; intro H; inversion H; subst; reflexivity).
    + apply LIT. unfold step_event in H. revert H. repeat break_match; intro H; inversion H; subst; reflexivity.
    + apply LIT. unfold step_invocation in H. revert H. repeat break_match; intro H; inversion H; subst; reflexivity.
    + (* INTERRUPT *)
      unfold step_interrupt in H. rewrite update_last_recv_invs in H.
      destruct (inv_by_req (s_invs s) req0) as [i|] eqn:Ei; [|apply LIT; inversion H; subst; reflexivity].
      destruct (i_outer i) eqn:Eo; [|apply LIT; inversion H; subst; reflexivity].
      unfold cancel_inv in H. rewrite Eo, update_last_recv_conn, update_last_recv_invs in H. simpl in H.
      pose proof (inv_by_req_req _ _ _ Ei) as Eq. rewrite Eq in H.
      destruct (negb (i_cancelled i) && s_connected s) eqn:E2; inversion H; subst; clear H;
        [|simpl in Hc; lia].
      simpl in Hc. destruct (i_req i =? req) eqn:Er; [|simpl in Hc; lia].
      apply N.eqb_eq in Er. subst req. apply andb_true_iff in E2. destruct E2 as [E2 E3].
      simpl. rewrite N.eqb_refl. split; [reflexivity|]. split; [exact E3|].
      eexists i, _. split; [simpl; rewrite ?update_last_recv_invs; reflexivity|].
      repeat split; auto. destruct (i_cancelled i); [discriminate|reflexivity].
    + apply LIT. destruct (disconnect s) eqn:E. inversion H; subst. eapply disconnect_count_final; eauto.
    + apply LIT. destruct (disconnect s) eqn:E. inversion H; subst. eapply disconnect_count_final; eauto.
  - apply LIT. unfold step_timer in H. revert H. repeat break_match; intro H; inversion H; subst; reflexivity.
  - apply LIT. unfold step_ctx in H. revert H. repeat break_match; intro H; inversion H; subst; reflexivity.
  - apply LIT. unfold step_ctx in H. revert H. repeat break_match; intro H; inversion H; subst; reflexivity.
  - apply LIT. unfold step_api_finish in H.
    destruct (fin_of (s_finishing s) o); [|discriminate].
    destruct (f_op f); destruct (f_msg f); try discriminate;
      revert H; repeat break_match; intro H; inversion H; subst; try reflexivity;
      simpl; eapply disconnect_count_final; eauto.
  - apply LIT. unfold step_inv_start in H. revert H. repeat break_match; intro H; inversion H; subst; reflexivity.
  - apply LIT. unfold step_inv_exit in H. revert H. repeat break_match; intro H; inversion H; subst; reflexivity.
  - (* HandlerReturn *)
    unfold step_handler_return in H.
    destruct (inv_by_req (s_invs s) req0) as [i|] eqn:Ei; [|discriminate].
    destruct (negb (i_running i)); [discriminate|].
    destruct (i_outer i && negb (i_cancelled i) && s_connected s) eqn:E2.
    + apply andb_true_iff in E2. destruct E2 as [E2 E3]. apply andb_true_iff in E2. destruct E2 as [E1 E2].
      destruct r; inversion H; subst; clear H; simpl in Hc; try lia;
        (destruct (req0 =? req) eqn:Er; [|simpl in Hc; lia]);
        apply N.eqb_eq in Er; subst req0; simpl; rewrite N.eqb_refl;
        (split; [reflexivity|]); (split; [exact E3|]);
        eexists i, _; (split; [simpl; reflexivity|]); repeat split; auto;
        try (destruct (i_cancelled i); [discriminate|reflexivity]);
        try (simpl; eapply inv_by_req_req; eauto).
    + apply LIT. destruct r; inversion H; subst; reflexivity.
  - apply LIT. unfold step_send_prog in H. revert H. repeat break_match; intro H; inversion H; subst; reflexivity.
  - (* InvTimeout *)
    unfold step_inv_timeout in H.
    destruct (inv_by_req (s_invs s) req0) as [i|] eqn:Ei; [|discriminate].
    destruct (i_deadline i); [|discriminate].
    match type of H with (if ?c then _ else _) = _ => destruct c eqn:E0; [|discriminate] end.
    apply andb_true_iff in E0. destruct E0 as [E0 Eo]. apply andb_true_iff in E0. destruct E0 as [_ Ecn].
    unfold cancel_inv in H. rewrite Eo in H. simpl in H.
    pose proof (inv_by_req_req _ _ _ Ei) as Eq. rewrite Eq in H.
    destruct (negb (i_cancelled i) && s_connected s) eqn:E2; inversion H; subst; clear H;
      [|simpl in Hc; lia].
    simpl in Hc. destruct (i_req i =? req) eqn:Er; [|simpl in Hc; lia].
    apply N.eqb_eq in Er. subst req. apply andb_true_iff in E2. destruct E2 as [E2 E3].
    simpl. rewrite N.eqb_refl. split; [reflexivity|]. split; [exact E3|].
    eexists i, _. split; [simpl; reflexivity|].
    repeat split; auto; try (simpl; eapply inv_by_req_req; eauto).
    destruct (i_cancelled i); [discriminate|reflexivity].
  - apply LIT. unfold step_chunk in H. revert H. repeat break_match; intro H; inversion H; subst; reflexivity.
  - apply LIT. unfold step_chunk in H. revert H. repeat break_match; intro H; inversion H; subst; reflexivity.
  - apply LIT. unfold step_close_start, finish_close in H. revert H. repeat break_match; intro H; inversion H; subst; reflexivity.
  - apply LIT. unfold step_close_timer in H. revert H. repeat break_match; try discriminate.
    intro H. inversion H; subst. eapply disconnect_count_final; eauto.
  - apply LIT. revert H. repeat break_match; try discriminate.
    intro H. inversion H; subst. eapply disconnect_count_final; eauto.
  - apply LIT. match type of H with match ?x with _ => _ end = _ => destruct x end; inversion H; subst; reflexivity.
Qed.

(* ================================================================== *)
(* Events                                                               *)

Theorem event_step_proof : forall U s l s' outs h sub pub t n,
  step U s l = Ok s' outs -> In (OEvent h sub pub t n) outs ->
  exists d a, l = RouterMsg (REvent sub pub d a) /\ outs = [OEvent h sub pub t n] /\
    alookup (s_ehandlers s) sub = Some h /\ s' = s.
Proof.
  intros U s l s' outs h sub pub t n H Hin.
  destruct l; simpl in H.
  - exfalso. lit_outs H Hin.
  - exfalso. unfold step_api_start in H. lit_outs H Hin.
  - unfold step_router in H. destruct (negb (s_connected s)); [discriminate|].
    destruct m; simpl in H;
      try (exfalso; unfold step_reply in H; lit_outs H Hin).
    + unfold step_event in H.
      destruct (alookup (s_ehandlers s) sub0) as [h0|] eqn:Eh; [|inversion H; subst; destruct Hin].
      destruct (ppt_scheme details).
      * destruct (scheme_valid s0); [|inversion H; subst; destruct Hin].
        destruct (unpack U s0 details args); inversion H; subst; try destruct Hin as [X|[]]; try destruct Hin.
        inversion X; subst. eauto 10.
      * inversion H; subst. destruct Hin as [X|[]]. inversion X; subst. eauto 10.
    + exfalso. unfold step_invocation in H. lit_outs H Hin.
    + exfalso. unfold step_interrupt, cancel_inv in H. lit_outs H Hin.
    + exfalso. destruct (disconnect s) eqn:E. inversion H; subst. disc_outs E Hin.
    + exfalso. destruct (disconnect s) eqn:E. inversion H; subst. disc_outs E Hin.
  - exfalso. unfold step_timer in H. lit_outs H Hin.
  - exfalso. unfold step_ctx in H. lit_outs H Hin.
  - exfalso. unfold step_ctx in H. lit_outs H Hin.
  - exfalso. unfold step_api_finish in H.
    destruct (fin_of (s_finishing s) o); [|discriminate].
    destruct (f_op f); destruct (f_msg f); try discriminate;
      revert H; repeat break_match; intro H; inversion H; subst; simpl in Hin;
      try (intuition discriminate; fail);
      (destruct Hin as [X|[X|X]]; try discriminate;
       match goal with E : disconnect _ = _ |- _ => disc_outs E X end).
  - exfalso. unfold step_inv_start in H. lit_outs H Hin.
  - exfalso. unfold step_inv_exit in H. lit_outs H Hin.
  - exfalso. unfold step_handler_return in H. lit_outs H Hin.
  - exfalso. unfold step_send_prog in H. lit_outs H Hin.
  - exfalso. unfold step_inv_timeout, cancel_inv in H. lit_outs H Hin.
  - exfalso. unfold step_chunk in H. lit_outs H Hin.
  - exfalso. unfold step_chunk in H. lit_outs H Hin.
  - exfalso. unfold step_close_start, finish_close in H. lit_outs H Hin.
  - exfalso. unfold step_close_timer in H. revert H. repeat break_match; try discriminate.
    intro H. inversion H; subst. match goal with E : disconnect _ = _ |- _ => disc_outs E Hin end.
  - exfalso. revert H. repeat break_match; try discriminate.
    intro H. inversion H; subst. match goal with E : disconnect _ = _ |- _ => disc_outs E Hin end.
  - exfalso. match type of H with match ?x with _ => _ end = _ => destruct x end; inversion H; subst; simpl in Hin; intuition discriminate.
Qed.

(* the (subscription, publication) of the EVENT messages the run goroutine
   took, and of the event-handler calls, in order *)
Definition ev_label (e : event) : list (id * id) :=
  match e with ELab (RouterMsg (REvent sub pub _ _)) => [(sub, pub)] | _ => [] end.
Definition ev_call (e : event) : list (id * id) :=
  match e with EOut (OEvent _ sub pub _ _) => [(sub, pub)] | _ => [] end.

Inductive sublist {A} : list A -> list A -> Prop :=
| sub_nil : forall l, sublist [] l
| sub_skip : forall a l x, sublist a l -> sublist a (x :: l)
| sub_take : forall a l x, sublist a l -> sublist (x :: a) (x :: l).

Lemma sublist_app : forall {A} (a b c d : list A), sublist a b -> sublist c d -> sublist (a ++ c) (b ++ d).
Proof.
  intros A a b c d H. revert c d. induction H; intros c d Hc; simpl.
  - induction l; simpl; [exact Hc|apply sub_skip; assumption].
  - apply sub_skip. apply IHsublist. exact Hc.
  - apply sub_take. apply IHsublist. exact Hc.
Qed.

Lemma sublist_refl : forall {A} (l : list A), sublist l l.
Proof. induction l; [apply sub_nil|apply sub_take; auto]. Qed.

Lemma flat_map_out_no_event : forall outs,
  (forall h sub pub t n, ~ In (OEvent h sub pub t n) outs) -> flat_map ev_call (map EOut outs) = [].
Proof.
  induction outs as [|x r IH]; simpl; intro H; auto.
  rewrite IH; [|intros; intro X; eapply H; right; eauto].
  destruct x; simpl; auto. exfalso. eapply H. left. reflexivity.
Qed.

Lemma flat_map_out_no_label : forall outs, flat_map ev_label (map EOut outs) = [].
Proof. induction outs as [|x r IH]; simpl; auto. Qed.

Lemma classic_event : forall outs,
  (exists h sub pub t n, In (OEvent h sub pub t n) outs) \/
  (forall h sub pub t n, ~ In (OEvent h sub pub t n) outs).
Proof.
  induction outs as [|x r [IH|IH]].
  - right. intros; intro X; destruct X.
  - left. destruct IH as (h & sub & pub & t & n & H). exists h, sub, pub, t, n. right. exact H.
  - destruct x; try (right; intros; intro X; destruct X as [X|X]; [discriminate|eapply IH; eauto]).
    left. eexists _, _, _, _, _. left. reflexivity.
Qed.

(* Event handlers are invoked in the order in which the EVENT messages were
   taken from the router, each while its own message is being processed
   (the model's run goroutine is one sequential process; that the handler call
   is synchronous in run is obligation H6 on the generated skeleton). *)
Theorem events_serial_in_order_proof : forall U c tr,
  sublist (flat_map ev_call (x_events (exec U c tr))) (flat_map ev_label (x_events (exec U c tr))).
Proof.
  intros U c tr. induction tr as [|l tr IH] using rev_ind; [simpl; constructor|].
  rewrite exec_snoc. unfold exec_step.
  destruct (x_panic (exec U c tr)); [exact IH|].
  destruct (step U (x_state (exec U c tr)) l) as [s' outs| |site] eqn:E; simpl; [|exact IH|].
  - rewrite !flat_map_app. apply sublist_app; [exact IH|]. simpl.
    rewrite flat_map_out_no_label, app_nil_r.
    destruct (classic_event outs) as [(h & sub & pub & t & n & Hin)|Hno].
    + destruct (event_step_proof _ _ _ _ _ _ _ _ _ _ E Hin) as (d & a & -> & -> & _ & _).
      simpl. apply sub_take. apply sub_nil.
    + rewrite flat_map_out_no_event by exact Hno. simpl. apply sub_nil.
  - rewrite !flat_map_app. simpl. rewrite app_nil_r.
    replace (flat_map ev_call (x_events (exec U c tr))) with (flat_map ev_call (x_events (exec U c tr)) ++ []) by apply app_nil_r.
    apply sublist_app; [exact IH|]. apply sub_nil.
Qed.

(* ================================================================== *)
(* C17 at protocol level: Done, pending and later API calls, Close       *)

Definition ends_connection (l : label) : Prop :=
  l = RouterMsg RGoodbye \/ l = RouterMsg RAbort \/ l = TransportEnd.

Lemma disconnect_connected : forall s s' outs,
  disconnect s = (s', outs) -> s_connected s = true ->
  s_connected s' = false /\ In ODone outs /\ s_closer s' = None /\
  (forall i, In i (s_invs s') -> i_outer i = false) /\
  (forall k w, In (k, w) (s_awaiting s') -> exists e, w_phase w = WCancelWait e) /\
  (forall o dl, s_closer s = Some (o, dl) -> In (OCloseRet o false) outs /\ s_peer_closed s' = true).
Proof.
  intros s s' outs H Hc. unfold disconnect in H. rewrite Hc in H.
  destruct (disconnect_waiters (s_awaiting s)) as [[aw o1] os1] eqn:E. simpl in H.
  assert (INV : forall l i, In i (inv_gc (map inv_disconnect l)) -> i_outer i = false).
  { intros l i Hi. unfold inv_gc in Hi. apply filter_In in Hi. destruct Hi as [Hi _].
    apply in_map_iff in Hi. destruct Hi as [i0 [<- _]]. reflexivity. }
  assert (AW : forall k w, In (k, w) aw -> exists e, w_phase w = WCancelWait e).
  { intros k w Hi. destruct (disconnect_waiters_sub _ _ _ _ _ _ E Hi) as [_ X]. exact X. }
  destruct (s_closer s) as [[oc dl]|] eqn:Ecl; simpl in H; inversion H; subst; clear H; simpl.
  - split; [reflexivity|]. split; [left; reflexivity|]. split; [reflexivity|].
    split; [intros i Hi; eapply INV; eauto|]. split; [exact AW|].
    intros o9 dl9 X. inversion X; subst. split; [|reflexivity].
    right. apply in_or_app. right. left. reflexivity.
  - split; [reflexivity|]. split; [left; reflexivity|]. split; [exact Ecl|].
    split; [intros i Hi; eapply INV; eauto|]. split; [exact AW|].
    intros; discriminate.
Qed.

(* GOODBYE, ABORT and the end of the transport all stop the client and signal Done *)
Theorem done_on_end_proof : forall U s l,
  s_connected s = true -> ends_connection l ->
  exists s' outs, step U s l = Ok s' outs /\ s_connected s' = false /\ In ODone outs.
Proof.
  intros U s l Hc [H|[H|H]]; subst l; simpl; unfold step_router; rewrite ?Hc; simpl;
    destruct (disconnect s) as [s1 o1] eqn:E;
    destruct (disconnect_connected _ _ _ E Hc) as (A & B & _);
    exists s1, o1; auto.
Qed.

Fixpoint count_done (outs : list out) : nat :=
  match outs with [] => 0 | ODone :: r => S (count_done r) | _ :: r => count_done r end.

Fixpoint count_done_ev (evs : list event) : nat :=
  match evs with [] => 0 | EOut ODone :: r => S (count_done_ev r) | _ :: r => count_done_ev r end.

Lemma count_done_waiters : forall l l' outs os, disconnect_waiters l = (l', outs, os) -> count_done outs = 0%nat.
Proof.
  induction l as [|[k w] r IH]; simpl; intros l' outs os H.
  - inversion H; subst. reflexivity.
  - destruct (disconnect_waiters r) as [[l1 o1] os1] eqn:E.
    destruct (w_phase w); inversion H; subst; simpl; eapply IH; eauto.
Qed.

Lemma count_done_app : forall a b, count_done (a ++ b) = (count_done a + count_done b)%nat.
Proof. induction a as [|x r IH]; simpl; intro b; auto. destruct x; simpl; auto. Qed.

Lemma disconnect_count_done : forall s s' outs, disconnect s = (s', outs) ->
  count_done outs = (if s_connected s then 1 else 0)%nat /\ s_connected s' = false.
Proof.
  intros s s' outs H. unfold disconnect in H. destruct (s_connected s) eqn:Hc.
  - destruct (disconnect_waiters (s_awaiting s)) as [[aw o1] os1] eqn:E. simpl in H.
    pose proof (count_done_waiters _ _ _ _ E) as C.
    destruct (s_closer s) as [[oc dl]|]; simpl in H; inversion H; subst; simpl.
    + rewrite count_done_app, C. simpl. auto.
    + rewrite C. auto.
  - inversion H; subst. auto.
Qed.

(* Done is signalled exactly when the client stops being connected, and the
   client never becomes connected again. *)
Theorem done_step_proof : forall U s l s' outs,
  step U s l = Ok s' outs ->
  count_done outs = (if s_connected s && negb (s_connected s') then 1 else 0)%nat /\
  (s_connected s = false -> s_connected s' = false).
Proof.
  intros U s l s' outs H.
  assert (SAME : forall s2 o2, s_connected s2 = s_connected s -> count_done o2 = 0%nat ->
            count_done o2 = (if s_connected s && negb (s_connected s2) then 1 else 0)%nat /\
            (s_connected s = false -> s_connected s2 = false)).
  { intros s2 o2 E C. rewrite E, C. destruct (s_connected s); simpl; auto. }
  assert (DISC : forall s2 o2, disconnect s = (s2, o2) ->
            count_done o2 = (if s_connected s && negb (s_connected s2) then 1 else 0)%nat /\
            (s_connected s = false -> s_connected s2 = false)).
  { intros s2 o2 E. destruct (disconnect_count_done _ _ _ E) as [A B]. rewrite A, B.
    destruct (s_connected s); simpl; auto. }
  pose (P := fun (s2 : state) (o2 : list out) =>
            count_done o2 = (if s_connected s && negb (s_connected s2) then 1 else 0)%nat /\
            (s_connected s = false -> s_connected s2 = false)).
  change (P s' outs). change (forall s2 o2, s_connected s2 = s_connected s -> count_done o2 = 0%nat -> P s2 o2) in SAME.
  change (forall s2 o2, disconnect s = (s2, o2) -> P s2 o2) in DISC.
  destruct l; simpl in H.
  - revert H. repeat break_match; intro H; inversion H; subst. apply SAME; simpl; first [reflexivity|assumption|congruence].
  - unfold step_api_start in H. revert H.
    repeat break_match; intro H; inversion H; subst; apply SAME; simpl; first [reflexivity|assumption|congruence].
  - unfold step_router in H. destruct (negb (s_connected s)); [discriminate|].
    destruct m; simpl in H;
      try (unfold step_reply in H; revert H; repeat break_match; intro H; inversion H; subst; apply SAME; simpl; first [reflexivity|assumption|congruence]).
    + unfold step_event in H. revert H. repeat break_match; intro H; inversion H; subst; apply SAME; simpl; first [reflexivity|assumption|congruence].
    + unfold step_invocation in H. revert H. repeat break_match; intro H; inversion H; subst; apply SAME;
        simpl; rewrite ?update_last_recv_conn; first [reflexivity|assumption|congruence].
    + unfold step_interrupt, cancel_inv in H. revert H. repeat break_match; intro H; inversion H; subst; apply SAME;
        simpl; rewrite ?update_last_recv_conn; first [reflexivity|assumption|congruence].
    + destruct (disconnect s) eqn:E. inversion H; subst. apply DISC; first [exact E|reflexivity].
    + destruct (disconnect s) eqn:E. inversion H; subst. apply DISC; first [exact E|reflexivity].
  - unfold step_timer in H. revert H. repeat break_match; intro H; inversion H; subst; apply SAME; simpl; first [reflexivity|assumption|congruence].
  - unfold step_ctx in H. revert H. repeat break_match; intro H; inversion H; subst; apply SAME; simpl; first [reflexivity|assumption|congruence].
  - unfold step_ctx in H. revert H. repeat break_match; intro H; inversion H; subst; apply SAME; simpl; first [reflexivity|assumption|congruence].
  - unfold step_api_finish in H.
    destruct (fin_of (s_finishing s) o); [|discriminate].
    destruct (f_op f); destruct (f_msg f); try discriminate;
      revert H; repeat break_match; intro H; inversion H; subst;
      try (apply SAME; simpl; first [reflexivity|assumption|congruence]);
      match goal with E : disconnect ?x = _ |- _ =>
        destruct (disconnect_count_done _ _ _ E) as [A B]; simpl in A; subst P; simpl; rewrite A, B;
        destruct (s_connected s); simpl; auto end.
  - unfold step_inv_start in H. revert H. repeat break_match; intro H; inversion H; subst; apply SAME; simpl; first [reflexivity|assumption|congruence].
  - unfold step_inv_exit in H. revert H. repeat break_match; intro H; inversion H; subst; apply SAME; simpl; first [reflexivity|assumption|congruence].
  - unfold step_handler_return in H. revert H. repeat break_match; intro H; inversion H; subst; apply SAME; simpl; first [reflexivity|assumption|congruence].
  - unfold step_send_prog in H. revert H. repeat break_match; intro H; inversion H; subst; apply SAME; simpl; first [reflexivity|assumption|congruence].
  - unfold step_inv_timeout, cancel_inv in H. revert H. repeat break_match; intro H; inversion H; subst; apply SAME; simpl; first [reflexivity|assumption|congruence].
  - unfold step_chunk in H. revert H. repeat break_match; intro H; inversion H; subst; apply SAME; simpl; first [reflexivity|assumption|congruence].
  - unfold step_chunk in H. revert H. repeat break_match; intro H; inversion H; subst; apply SAME; simpl; first [reflexivity|assumption|congruence].
  - unfold step_close_start, finish_close in H. revert H. repeat break_match; intro H; inversion H; subst; apply SAME; simpl; first [reflexivity|assumption|congruence].
  - unfold step_close_timer in H. revert H. repeat break_match; try discriminate. intro H. inversion H; subst.
    apply DISC; first [assumption|reflexivity].
  - revert H. repeat break_match; try discriminate. intro H. inversion H; subst. apply DISC; first [assumption|reflexivity].
  - match type of H with match ?x with _ => _ end = _ => destruct x end; inversion H; subst; apply SAME; simpl; first [reflexivity|assumption|congruence].
Qed.

Lemma count_done_ev_app : forall a b, count_done_ev (a ++ b) = (count_done_ev a + count_done_ev b)%nat.
Proof.
  induction a as [|x r IH]; simpl; intro b; auto. destruct x as [l|o]; auto. destruct o; simpl; auto.
Qed.

Lemma count_done_ev_outs : forall outs, count_done_ev (map EOut outs) = count_done outs.
Proof. induction outs as [|x r IH]; simpl; auto. destruct x; simpl; auto. Qed.

(* Over every execution: Done has been signalled exactly once if the client
   is no longer connected, and not at all while it is. *)
Theorem done_once_proof : forall U c tr,
  count_done_ev (x_events (exec U c tr)) =
    (if s_connected (x_state (exec U c tr)) then 0 else 1)%nat.
Proof.
  intros U c tr. induction tr as [|l tr IH] using rev_ind; [reflexivity|].
  rewrite exec_snoc. unfold exec_step.
  destruct (x_panic (exec U c tr)); [exact IH|].
  destruct (step U (x_state (exec U c tr)) l) as [s' outs| |site] eqn:E; simpl; [|exact IH|].
  - rewrite count_done_ev_app. simpl. rewrite count_done_ev_outs, IH.
    destruct (done_step_proof _ _ _ _ _ E) as [A B]. rewrite A.
    destruct (s_connected (x_state (exec U c tr))) eqn:C1; simpl.
    + destruct (s_connected s'); reflexivity.
    + rewrite (B eq_refl). reflexivity.
  - rewrite count_done_ev_app. simpl. rewrite IH. lia.
Qed.

(* ---- pending API calls ------------------------------------------------ *)

Definition waiter_ok (s : state) (w : waiter) : Prop :=
  match w_phase w with
  | WWaiting => s_connected s = true /\ (timed (w_op w) = true -> exists dl, w_timer w = Some dl)
  | WCancelWait _ => exists dl, w_timer w = Some dl
  end.

Definition J (s : state) : Prop := forall k w, In (k, w) (s_awaiting s) -> waiter_ok s w.

Lemma J_same : forall s s', J s -> s_awaiting s' = s_awaiting s -> s_connected s' = s_connected s -> J s'.
Proof.
  intros s s' H E1 E2 k w Hi. rewrite E1 in Hi. specialize (H k w Hi).
  unfold waiter_ok in *. rewrite E2. exact H.
Qed.

Lemma J_remove : forall s k, J s -> J (set_awaiting s (aremove (s_awaiting s) k)).
Proof.
  intros s k H k' w Hi. simpl in Hi. apply aremove_in in Hi. destruct Hi as [Hi _].
  specialize (H k' w Hi). exact H.
Qed.

Lemma J_disconnect : forall s s' outs, J s -> disconnect s = (s', outs) -> J s'.
Proof.
  intros s s' outs H E. destruct (s_connected s) eqn:Hc.
  - destruct (disconnect_connected _ _ _ E Hc) as (_ & _ & _ & _ & AW & _).
    intros k w Hi. destruct (AW k w Hi) as [e He]. unfold waiter_ok. rewrite He.
    (* the waiter was there before, with its timer *)
    unfold disconnect in E. rewrite Hc in E.
    destruct (disconnect_waiters (s_awaiting s)) as [[aw o1] os1] eqn:E1. simpl in E.
    assert (Hin : In (k, w) aw).
    { destruct (s_closer s) as [[oc dl]|]; simpl in E; inversion E; subst; exact Hi. }
    destruct (disconnect_waiters_sub _ _ _ _ _ _ E1 Hin) as [Hi0 _].
    specialize (H k w Hi0). unfold waiter_ok in H. rewrite He in H. exact H.
  - unfold disconnect in E. rewrite Hc in E. inversion E; subst. exact H.
Qed.

Lemma J_step : forall U s l s' outs, J s -> step U s l = Ok s' outs -> J s'.
Proof.
  intros U s l s' outs HJ H. destruct l; simpl in H.
  - revert H. repeat break_match; intro H; inversion H; subst. eapply J_same; eauto.
  - (* ApiStart *)
    unfold step_api_start in H.
    assert (ENQ : forall s0 x, J s0 -> s_connected s0 = true ->
       (let nid := s_next s0 + 1 in
        if negb (rid =? nid) then Invalid else
        let s1 := set_next s0 nid in
        let s2 := set_busy s1 (o :: s_busy s1) in
        let s3 := set_awaiting s2 (aset (s_awaiting s2) nid (new_waiter s2 o p)) in
        let s4 := match p with
                  | OpCallProg pr hp true _ => set_chunkers s3 ((o, (nid, pr, hp)) :: s_chunkers s3)
                  | _ => s3 end in
        Ok s4 [OSend (request_msg p nid x)]) = Ok s' outs -> J s').
    { intros s0 x J0 C0 H0. cbv zeta in H0. destruct (negb (rid =? s_next s0 + 1)); [discriminate|].
      assert (J3 : J (set_awaiting (set_busy (set_next s0 (s_next s0 + 1)) (o :: s_busy s0))
                         (aset (s_awaiting s0) (s_next s0 + 1) (new_waiter (set_busy (set_next s0 (s_next s0 + 1)) (o :: s_busy s0)) o p)))).
      { intros k w [Hi|Hi].
        - inversion Hi; subst. unfold waiter_ok. simpl. split; [exact C0|].
          intro Ht. rewrite Ht. eauto.
        - apply aremove_in in Hi. destruct Hi as [Hi _]. specialize (J0 k w Hi).
          unfold waiter_ok in *. simpl. exact J0. }
      destruct p; inversion H0; subst; try exact J3.
      destruct more; inversion H0; subst; (eapply J_same; [exact J3|reflexivity|reflexivity]). }
    destruct (mem_nat o (s_busy s)); [discriminate|].
    assert (PLAIN : (if s_connected s
                     then (let nid := s_next s + 1 in
                           if negb (rid =? nid) then Invalid else
                           let s1 := set_next s nid in
                           let s2 := set_busy s1 (o :: s_busy s1) in
                           let s3 := set_awaiting s2 (aset (s_awaiting s2) nid (new_waiter s2 o p)) in
                           let s4 := match p with
                                     | OpCallProg pr hp true _ => set_chunkers s3 ((o, (nid, pr, hp)) :: s_chunkers s3)
                                     | _ => s3 end in
                           Ok s4 [OSend (request_msg p nid 0)])
                     else if rid =? 0 then Ok s [OReturn o 0 RetNotConn] else Invalid) = Ok s' outs -> J s').
    { intro HP. destruct (s_connected s) eqn:Hc; [eapply (ENQ s 0 HJ Hc); exact HP|].
      destruct (rid =? 0); inversion HP; subst; exact HJ. }
    destruct p; try (apply PLAIN; exact H).
    + destruct (alookup (s_topic_sub s) topic) as [sub|].
      * cbv zeta in H.
        assert (J1 : J (set_subs s (aremove (s_ehandlers s) sub) (aremove (s_topic_sub s) topic))) by (eapply J_same; eauto).
        destruct (s_connected (set_subs s (aremove (s_ehandlers s) sub) (aremove (s_topic_sub s) topic))) eqn:Hc.
        -- eapply (ENQ _ sub J1 Hc). exact H.
        -- destruct (rid =? 0); inversion H; subst. exact J1.
      * destruct (rid =? 0); inversion H; subst. exact HJ.
    + destruct (alookup (s_proc_reg s) proc) as [reg|].
      * cbv zeta in H.
        assert (J1 : J (set_regs s (aremove (s_ihandlers s) reg) (aremove (s_proc_reg s) proc))) by (eapply J_same; eauto).
        destruct (s_connected (set_regs s (aremove (s_ihandlers s) reg) (aremove (s_proc_reg s) proc))) eqn:Hc.
        -- eapply (ENQ _ reg J1 Hc). exact H.
        -- destruct (rid =? 0); inversion H; subst. exact J1.
      * destruct (rid =? 0); inversion H; subst. exact HJ.
    + destruct ack; [apply PLAIN; exact H|].
      destruct (s_connected s).
      * cbv zeta in H. destruct (negb (rid =? s_next s + 1)); inversion H; subst. eapply J_same; eauto.
      * destruct (rid =? 0); inversion H; subst. exact HJ.
    + destruct (s_connected s) eqn:Ec.
      * destruct (cfg_progcall (s_cfg s)).
        -- apply PLAIN. exact H.
        -- destruct (rid =? 0); inversion H; subst. exact HJ.
      * destruct (rid =? 0); inversion H; subst. exact HJ.
    + destruct (negb (rid =? 0)); [discriminate|].
      destruct (s_connected s); inversion H; subst; [eapply J_same; eauto|exact HJ].
  - (* RouterMsg *)
    unfold step_router in H. destruct (negb (s_connected s)); [discriminate|].
    assert (R : forall rq, step_reply s rq m = Ok s' outs -> J s').
    { intros rq Hs. unfold step_reply in Hs.
      destruct (alookup (s_awaiting s) rq) as [w|] eqn:Ew; [|inversion Hs; subst; exact HJ].
      pose proof (J_remove s rq HJ) as J1.
      revert Hs. repeat break_match; intro Hs; inversion Hs; subst; try exact HJ;
        (eapply J_same; [exact J1|reflexivity|reflexivity]). }
    destruct m; simpl in H; try (eapply R; eauto; fail).
    + unfold step_event in H. revert H. repeat break_match; intro H; inversion H; subst; exact HJ.
    + unfold step_invocation in H. revert H. unfold update_last_recv.
      repeat break_match; intro H; inversion H; subst; try exact HJ; (eapply J_same; [exact HJ|reflexivity|reflexivity]).
    + unfold step_interrupt, cancel_inv, update_last_recv in H. revert H.
      repeat break_match; intro H; inversion H; subst; try exact HJ; (eapply J_same; [exact HJ|reflexivity|reflexivity]).
    + destruct (disconnect s) eqn:E. inversion H; subst. eapply J_disconnect; eauto.
    + destruct (disconnect s) eqn:E. inversion H; subst. eapply J_disconnect; eauto.
    + inversion H; subst. exact HJ.
  - unfold step_timer in H. revert H. repeat break_match; intro H; inversion H; subst.
    eapply J_same; [apply (J_remove s i HJ)|reflexivity|reflexivity].
  - unfold step_ctx in H. revert H. repeat break_match; intro H; inversion H; subst.
    intros k w' [Hk|Hk].
    + inversion Hk; subst. unfold waiter_ok. simpl. eauto.
    + apply aremove_in in Hk. destruct Hk as [Hk _]. specialize (HJ k w' Hk). exact HJ.
  - unfold step_ctx in H. revert H. repeat break_match; intro H; inversion H; subst.
    intros k w' [Hk|Hk].
    + inversion Hk; subst. unfold waiter_ok. simpl. eauto.
    + apply aremove_in in Hk. destruct Hk as [Hk _]. specialize (HJ k w' Hk). exact HJ.
  - unfold step_api_finish in H.
    destruct (fin_of (s_finishing s) o) as [f|]; [|discriminate].
    assert (J1 : J (unbusy (set_finishing s (fin_remove (s_finishing s) o)) o)) by (eapply J_same; eauto).
    destruct (f_op f); destruct (f_msg f); try discriminate;
      revert H; repeat break_match; intro H; inversion H; subst;
      try exact J1;
      try (eapply J_same; [exact J1|reflexivity|reflexivity]);
      try (eapply J_disconnect; eauto).
  - unfold step_inv_start in H. revert H. repeat break_match; intro H; inversion H; subst; eapply J_same; eauto.
  - unfold step_inv_exit in H. revert H. repeat break_match; intro H; inversion H; subst; eapply J_same; eauto.
  - unfold step_handler_return in H. revert H. repeat break_match; intro H; inversion H; subst; eapply J_same; eauto.
  - unfold step_send_prog in H. revert H. repeat break_match; intro H; inversion H; subst; exact HJ.
  - unfold step_inv_timeout, cancel_inv in H. revert H. repeat break_match; intro H; inversion H; subst; eapply J_same; eauto.
  - unfold step_chunk in H. revert H. repeat break_match; intro H; inversion H; subst; try exact HJ; eapply J_same; eauto.
  - unfold step_chunk in H. revert H. repeat break_match; intro H; inversion H; subst; try exact HJ; eapply J_same; eauto.
  - unfold step_close_start, finish_close in H. revert H. repeat break_match; intro H; inversion H; subst;
      try exact HJ; eapply J_same; eauto.
  - unfold step_close_timer in H. revert H. repeat break_match; try discriminate. intro H; inversion H; subst.
    eapply J_disconnect; eauto.
  - revert H. repeat break_match; try discriminate. intro H; inversion H; subst. eapply J_disconnect; eauto.
  - match type of H with match ?x with _ => _ end = _ => destruct x end; inversion H; subst; try exact HJ; eapply J_same; eauto.
Qed.

(* Every API goroutine that waits for a reply has an armed response timer,
   EXCEPT a Call in its first select while the client is connected: that one
   waits for its reply, its context, or Done (and is released by Done). *)
Theorem api_always_returns_model_proof : forall U c tr k w,
  In (k, w) (s_awaiting (x_state (exec U c tr))) ->
  (exists dl, w_timer w = Some dl) \/
  (is_call (w_op w) = true /\ w_phase w = WWaiting /\ s_connected (x_state (exec U c tr)) = true).
Proof.
  intros U c tr k w Hi.
  assert (HJ : J (x_state (exec U c tr))).
  { apply exec_state_ind; [intros k0 w0 X; destruct X|]. intros. eapply J_step; eauto. }
  specialize (HJ k w Hi). unfold waiter_ok in HJ.
  destruct (w_phase w) eqn:Ep; [|left; exact HJ].
  destruct HJ as [Hc Ht]. destruct (timed (w_op w)) eqn:Et.
  - left. apply Ht. reflexivity.
  - right. repeat split; auto. destruct (w_op w); simpl in *; try discriminate; reflexivity.
Qed.

(* an armed timer that is due makes the call return ErrReplyTimeout *)
Theorem timer_returns_proof : forall U s k w dl,
  In (k, w) (s_awaiting s) -> w_timer w = Some dl -> dl <= s_now s ->
  (forall k2 w2, In (k2, w2) (s_awaiting s) -> w_o w2 = w_o w -> (k2, w2) = (k, w)) ->
  exists s', step U s (TimerFire (w_o w)) = Ok s' [OReturn (w_o w) k RetTimeout] /\
             alookup (s_awaiting s') k = None.
Proof.
  intros U s k w dl Hi Ht Hd Hu. simpl. unfold step_timer.
  assert (Hw : waiter_of (s_awaiting s) (w_o w) = Some (k, w)).
  { revert Hi Hu. generalize (s_awaiting s). induction l as [|[k0 w0] r IH]; simpl; intros Hi Hu; [destruct Hi|].
    destruct (Nat.eqb (w_o w0) (w_o w)) eqn:E.
    - apply Nat.eqb_eq in E. rewrite (Hu k0 w0 (or_introl eq_refl) E). reflexivity.
    - destruct Hi as [Hi|Hi]; [inversion Hi; subst; rewrite Nat.eqb_refl in E; discriminate|].
      apply IH; auto. }
  rewrite Hw, Ht. apply N.leb_le in Hd. rewrite Hd. eexists. split; [reflexivity|].
  simpl. apply aremove_lookup_same.
Qed.

(* a call issued after the client stopped returns at once, without a request *)
Theorem later_api_returns_proof : forall U s o p,
  s_connected s = false -> mem_nat o (s_busy s) = false ->
  exists s' r, step U s (ApiStart o p 0) = Ok s' [OReturn o 0 r].
Proof.
  intros U s o p Hc Hb. simpl. unfold step_api_start. rewrite Hb.
  destruct p; simpl; rewrite ?Hc; simpl; eauto.
  - destruct (alookup (s_topic_sub s) topic); simpl; rewrite ?Hc; simpl; eauto.
  - destruct (alookup (s_proc_reg s) proc); simpl; rewrite ?Hc; simpl; eauto.
  - destruct ack; rewrite ?Hc; simpl; eauto.
Qed.

(* ---- Close -------------------------------------------------------------- *)

Definition closer_inv (s : state) : Prop :=
  (forall o dl, s_closer s = Some (o, dl) -> s_connected s = true /\ s_closed s = true) /\
  (s_peer_closed s = true -> s_connected s = false /\ s_closed s = true).

Theorem close_start_proof : forall U s o,
  s_closed s = false ->
  exists s' outs, step U s (CloseStart o) = Ok s' outs /\ s_closed s' = true /\
    (if s_connected s
     then outs = [OSend CGoodbye] /\ s_closer s' = Some (o, s_now s + 2 * cfg_rt (s_cfg s))
     else outs = [OCloseRet o false; OPeerClosed] /\ s_peer_closed s' = true).
Proof.
  intros U s o Hc. simpl. unfold step_close_start. rewrite Hc. simpl.
  destruct (s_connected s) eqn:E; simpl; rewrite ?E; eexists; eexists; (split; [reflexivity|]); simpl; auto.
Qed.

Theorem close_again_proof : forall U s o,
  s_closed s = true -> step U s (CloseStart o) = Ok s [OCloseRet o true].
Proof. intros U s o Hc. simpl. unfold step_close_start. rewrite Hc. reflexivity. Qed.

(* Close() waiting for Done returns as soon as the router says GOODBYE/ABORT,
   the transport ends, or its own timer (2 x ResponseTimeout) fires; then the
   peer is closed, no invocation goroutine is left, and the only API
   goroutines still waiting are those in the timed wait after CANCEL. *)
Theorem close_completes_proof : forall U s o dl l,
  s_closer s = Some (o, dl) -> s_connected s = true ->
  ends_connection l \/ (l = CloseTimer /\ dl <= s_now s) ->
  exists s' outs, step U s l = Ok s' outs /\ In (OCloseRet o false) outs /\ In ODone outs /\
    s_peer_closed s' = true /\ s_closer s' = None /\ s_connected s' = false /\
    (forall i, In i (s_invs s') -> i_outer i = false) /\
    (forall k w, In (k, w) (s_awaiting s') -> exists e, w_phase w = WCancelWait e).
Proof.
  intros U s o dl l Hcl Hc Hl.
  assert (D : forall s1 o1, disconnect s = (s1, o1) ->
     In (OCloseRet o false) o1 /\ In ODone o1 /\ s_peer_closed s1 = true /\ s_closer s1 = None /\
     s_connected s1 = false /\ (forall i, In i (s_invs s1) -> i_outer i = false) /\
     (forall k w, In (k, w) (s_awaiting s1) -> exists e, w_phase w = WCancelWait e)).
  { intros s1 o1 E. destruct (disconnect_connected _ _ _ E Hc) as (A & B & C & I & AW & P).
    destruct (P o dl Hcl) as [P1 P2]. repeat split; auto. }
  destruct (disconnect s) as [s1 o1] eqn:E.
  destruct Hl as [[H|[H|H]]|[H Hd]]; subst l; simpl; unfold step_router, step_close_timer;
    rewrite ?Hc, ?Hcl; simpl; rewrite ?E.
  - exists s1, o1. split; [reflexivity|]. apply D. reflexivity.
  - exists s1, o1. split; [reflexivity|]. apply D. reflexivity.
  - exists s1, o1. split; [reflexivity|]. apply D. reflexivity.
  - apply N.leb_le in Hd. rewrite Hd. exists s1, o1. split; [reflexivity|]. apply D. reflexivity.
Qed.

(* Once a call waits for the answer to its CANCEL, a router message makes it
   return only the context's error, and only on the ERROR. *)
Theorem cancelled_call_returns_ctx_err_proof : forall U s m s' outs o k r w dl,
  WF s ->
  step U s (RouterMsg m) = Ok s' outs -> In (OReturn o k r) outs ->
  alookup (s_awaiting s) k = Some w -> w_phase w = WCancelWait dl ->
  r = RetCtx dl /\ exists rq t, m = RError rq t.
Proof.
  intros U s m s' outs o k r w dl W H Hin Hw Hp.
  destruct (reply_correlated_step_proof _ _ _ _ _ _ _ _ H Hin)
    as [(Hm & w' & Hw' & _ & Hr & _)|(_ & w' & Hi & _ & Hph & _)].
  - rewrite Hw in Hw'. inversion Hw'; subst w'. unfold reply_ret in Hr. rewrite Hp in Hr.
    destruct Hr as [A B]. auto.
  - exfalso. pose proof (nodup_alookup _ _ _ (wf_nodup _ W) Hi) as X. rewrite Hw in X.
    inversion X; subst. congruence.
Qed.

(* ... and the only other way out is its response timer *)
Theorem cancelled_call_other_exit_proof : forall U s l s' outs o k r w dl,
  WF s -> step U s l = Ok s' outs -> In (OReturn o k r) outs ->
  alookup (s_awaiting s) k = Some w -> w_phase w = WCancelWait dl ->
  (forall m, l <> RouterMsg m) ->
  r = RetTimeout /\ l = TimerFire o.
Proof.
  intros U s l s' outs o k r w dl W H Hin Hw Hp Hnm.
  assert (Hkpos : 0 < k /\ k <= s_next s) by (eapply wf_keys; eauto; apply alookup_in; eauto).
  assert (DISC : forall s0 s1 o1, s_awaiting s0 = s_awaiting s -> disconnect s0 = (s1, o1) -> In (OReturn o k r) o1 -> False).
  { intros s0 s1 o1 Ea E X. destruct (disconnect_returns _ _ _ _ _ _ E X) as (w' & Hi & _ & Hph & _).
    rewrite Ea in Hi. pose proof (nodup_alookup _ _ _ (wf_nodup _ W) Hi) as Y. rewrite Hw in Y. inversion Y; subst. congruence. }
  destruct l; simpl in H.
  - exfalso. lit_outs H Hin.
  - exfalso. unfold step_api_start in H.
    revert H. repeat break_match; intro H; inversion H; subst; simpl in Hin;
      try (intuition discriminate; fail);
      repeat match goal with X : _ \/ _ |- _ => destruct X end; try discriminate; try contradiction;
      match goal with X : OReturn _ _ _ = OReturn _ _ _ |- _ => inversion X; subst end; lia.
  - exfalso. eapply Hnm; reflexivity.
  - unfold step_timer in H.
    destruct (waiter_of (s_awaiting s) o0) as [[k0 w0]|] eqn:Ew; [|discriminate].
    destruct (w_timer w0); [|discriminate]. destruct (n <=? s_now s); [|discriminate].
    inversion H; subst. destruct Hin as [X|[]]. inversion X; subst. auto.
  - exfalso. unfold step_ctx in H. lit_outs H Hin.
  - exfalso. unfold step_ctx in H. lit_outs H Hin.
  - exfalso. unfold step_api_finish in H.
    destruct (fin_of (s_finishing s) o0) as [f|] eqn:Ef; [|discriminate].
    assert (Hfid : f_id f <> k).
    { intro X. assert (Hf : In f (s_finishing s)).
      { clear - Ef. induction (s_finishing s) as [|f0 r0 IH]; simpl in Ef; [discriminate|].
        destruct (Nat.eqb (f_o f0) o0); [inversion Ef; left; auto|right; auto]. }
      destruct (wf_fin _ W f Hf) as (_ & _ & Z). rewrite X, Hw in Z. discriminate. }
    destruct (f_op f); destruct (f_msg f); try discriminate;
      revert H; repeat break_match; intro H; inversion H; subst; simpl in Hin;
      repeat match goal with X : _ \/ _ |- _ => destruct X end; try discriminate; try contradiction;
      try (match goal with X : OReturn _ _ _ = OReturn _ _ _ |- _ => inversion X; subst end; congruence);
      try (eapply DISC; [|eassumption|eassumption]; reflexivity).
  - exfalso. unfold step_inv_start in H. lit_outs H Hin.
  - exfalso. unfold step_inv_exit in H. lit_outs H Hin.
  - exfalso. unfold step_handler_return in H. lit_outs H Hin.
  - exfalso. unfold step_send_prog in H. lit_outs H Hin.
  - exfalso. unfold step_inv_timeout, cancel_inv in H. lit_outs H Hin.
  - exfalso. unfold step_chunk in H. lit_outs H Hin.
  - exfalso. unfold step_chunk in H. lit_outs H Hin.
  - exfalso. unfold step_close_start, finish_close in H. lit_outs H Hin.
  - exfalso. unfold step_close_timer in H. revert H. repeat break_match; try discriminate.
    intro H. inversion H; subst. eapply DISC; [|eassumption|eassumption]; reflexivity.
  - exfalso. revert H. repeat break_match; try discriminate.
    intro H. inversion H; subst. eapply DISC; [|eassumption|eassumption]; reflexivity.
  - exfalso. match type of H with match ?x with _ => _ end = _ => destruct x end; inversion H; subst; simpl in Hin; intuition discriminate.
Qed.

(* a computable form of [no_feeder_after_close], for the non-vacuity examples *)
Fixpoint nfac_b (U : unpackers) (x : exec_state) (tr : list label) : bool :=
  match tr with
  | [] => true
  | l :: r => (negb (is_chunk_label l) || negb (s_peer_closed (x_state x))) && nfac_b U (exec_step U x l) r
  end.

Lemma nfac_b_sound_gen : forall U tr x0,
  nfac_b U x0 tr = true ->
  forall pre l post, tr = pre ++ l :: post -> is_chunk_label l = true ->
    s_peer_closed (x_state (fold_left (exec_step U) pre x0)) = false.
Proof.
  induction tr as [|l0 r IH]; intros x0 H pre l post E Hl.
  - destruct pre; discriminate.
  - simpl in H. apply andb_true_iff in H. destruct H as [H1 H2].
    destruct pre as [|p pre'].
    + simpl in E. inversion E; subst. simpl. rewrite Hl in H1. simpl in H1.
      destruct (s_peer_closed (x_state x0)); [discriminate|reflexivity].
    + simpl in E. inversion E; subst. simpl. eapply IH; eauto.
Qed.

Lemma nfac_b_sound : forall U c tr,
  nfac_b U {| x_state := init c; x_events := []; x_panic := None |} tr = true ->
  no_feeder_after_close U c tr.
Proof.
  intros U c tr H pre l post E Hl. unfold exec. eapply nfac_b_sound_gen; eauto.
Qed.


(* ================================================================== *)
(* The configured cancel mode                                           *)

(* SetCallCancelMode: "" selects killnowait, a valid mode selects itself, anything
   else is refused and changes nothing *)
Theorem set_mode_proof : forall U s r,
  exists s' ok, step U s (SetMode r) = Ok s' [OSetMode ok] /\
    cfg_mode (s_cfg s') = match r with MRDefault => MKillNoWait | MRSet m => m | MRInvalid => cfg_mode (s_cfg s) end /\
    ok = match r with MRInvalid => false | _ => true end /\
    s_awaiting s' = s_awaiting s.
Proof. intros U s r. destruct r; simpl; eexists; eexists; repeat split. Qed.

Lemma disconnect_cfg : forall s s' outs, disconnect s = (s', outs) -> s_cfg s' = s_cfg s.
Proof.
  intros s s' outs E. unfold disconnect in E. destruct (s_connected s); [|inversion E; subst; auto].
  destruct (disconnect_waiters (s_awaiting s)) as [[aw o1] os1]. simpl in E.
  destruct (s_closer s) as [[oc dl]|]; simpl in E; inversion E; subst; auto.
Qed.

(* ... and nothing else ever changes it: the mode of a CANCEL (cancel_sends_mode)
   is the LAST accepted setting *)
Theorem mode_only_changed_by_setmode_proof : forall U s l s' outs,
  step U s l = Ok s' outs -> (forall r, l <> SetMode r) -> s_cfg s' = s_cfg s.
Proof.
  intros U s l s' outs H Hl. destruct l; simpl in H.
  - revert H. repeat break_match; intro H; inversion H; subst; reflexivity.
  - unfold step_api_start in H. revert H. repeat break_match; intro H; inversion H; subst; reflexivity.
  - unfold step_router in H. destruct (negb (s_connected s)); [discriminate|].
    destruct m; simpl in H;
      try (unfold step_reply in H; revert H; repeat break_match; intro H; inversion H; subst; reflexivity).
    + unfold step_event in H. revert H. repeat break_match; intro H; inversion H; subst; reflexivity.
    + unfold step_invocation, update_last_recv in H. revert H. repeat break_match; intro H; inversion H; subst; reflexivity.
    + unfold step_interrupt, cancel_inv, update_last_recv in H. revert H. repeat break_match; intro H; inversion H; subst; reflexivity.
    + destruct (disconnect s) eqn:E. inversion H; subst. eapply disconnect_cfg; eauto.
    + destruct (disconnect s) eqn:E. inversion H; subst. eapply disconnect_cfg; eauto.
  - unfold step_timer in H. revert H. repeat break_match; intro H; inversion H; subst; reflexivity.
  - unfold step_ctx in H. revert H. repeat break_match; intro H; inversion H; subst; reflexivity.
  - unfold step_ctx in H. revert H. repeat break_match; intro H; inversion H; subst; reflexivity.
  - unfold step_api_finish in H.
    destruct (fin_of (s_finishing s) o); [|discriminate].
    destruct (f_op f); destruct (f_msg f); try discriminate;
      revert H; repeat break_match; intro H; inversion H; subst; try reflexivity;
      match goal with E : disconnect _ = _ |- _ => rewrite (disconnect_cfg _ _ _ E); reflexivity end.
  - unfold step_inv_start in H. revert H. repeat break_match; intro H; inversion H; subst; reflexivity.
  - unfold step_inv_exit in H. revert H. repeat break_match; intro H; inversion H; subst; reflexivity.
  - unfold step_handler_return in H. revert H. repeat break_match; intro H; inversion H; subst; reflexivity.
  - unfold step_send_prog in H. revert H. repeat break_match; intro H; inversion H; subst; reflexivity.
  - unfold step_inv_timeout, cancel_inv in H. revert H. repeat break_match; intro H; inversion H; subst; reflexivity.
  - unfold step_chunk in H. revert H. repeat break_match; intro H; inversion H; subst; reflexivity.
  - unfold step_chunk in H. revert H. repeat break_match; intro H; inversion H; subst; reflexivity.
  - unfold step_close_start, finish_close in H. revert H. repeat break_match; intro H; inversion H; subst; reflexivity.
  - unfold step_close_timer in H. revert H. repeat break_match; try discriminate. intro H; inversion H; subst.
    eapply disconnect_cfg; eauto.
  - revert H. repeat break_match; try discriminate. intro H; inversion H; subst. eapply disconnect_cfg; eauto.
  - exfalso. eapply Hl; reflexivity.
Qed.
