(* Client/ClientSkeleton.v — the types of what go/cmd/genclient emits
   (coq/gen/GenClient.v) and the conformance predicates that tie the
   generated inventory to the models (definitions only).

   Conformance is by INCLUSION FOR HAZARDS: the predicates demand that the
   operations which can block, panic or leak are of the forms the models
   (ClientModel.v, ClientLts.v) transcribe; adding logging, extracting a
   helper, adding a non-blocking operation changes nothing. *)

From Coq Require Import List String Bool Arith.
Import ListNotations.
Open Scope string_scope.

(* ---- accessor sites on router-controlled data ----------------------- *)

Inductive site_kind :=
| SBare             (* x.(T)                        -> panics on a mismatch *)
| SCommaOk          (* v, ok := x.(T)               *)
| SAs               (* wamp.AsX(x)                  *)
| SIndexGuarded     (* l[i] dominated by a length check / range *)
| SIndexUnguarded   (* l[i] without                 -> panics when short *)
| SKey              (* m["key"]                     *)
| SDerefGuarded     (* p.f dominated by a nil check *)
| SDerefUnguarded.  (* p.f on a decoded pointer     -> nil dereference *)

Record site := mk_site { st_fn : string; st_line : nat; st_kind : site_kind; st_text : string }.

Definition site_safe (s : site) : bool :=
  match st_kind s with
  | SBare | SIndexUnguarded | SDerefUnguarded => false
  | _ => true
  end.

Definition unsafe_sites (l : list site) : list site := filter (fun s => negb (site_safe s)) l.

(* ---- channel operations --------------------------------------------- *)

Inductive chan :=
| ChReply        (* an awaitingReply rendezvous channel *)
| ChGone         (* the waiter's "I stopped reading" channel *)
| ChDone         (* c.Done() / c.ctx.Done() *)
| ChCtx          (* the caller's / the invocation's context *)
| ChTimer        (* a response timer, Close's send context *)
| ChRecv         (* c.sess.Recv() *)
| ChRecvDone     (* c.sess.RecvDone() *)
| ChSessSend     (* c.sess.Send(): towards the router *)
| ChInvQueue     (* an invocation's handlerQueue *)
| ChRes          (* an invocation's result channel *)
| ChProg         (* a call's progress channel *)
| ChLocalDone    (* progDone and the like *)
| ChUser         (* a channel the application supplied *)
| ChPeer.        (* the bare peer during joinRealm *)

Inductive gop :=
| GSend (c : chan) (line : nat)
| GRecv (c : chan) (line : nat)
| GClose (c : chan) (deferred : bool) (line : nat)
| GSelect (line : nat) (has_default : bool) (cases : list (bool * chan * list gop)) (dflt : list gop)
| GGo (line : nat) (body : list gop)
| GCall (f : string) (deferred : bool) (line : nat)
| GUser (f : string) (deferred : bool) (line : nat)
| GCancel (client : bool) (deferred : bool) (line : nat)
| GPeerClose (deferred : bool) (line : nat)
| GEndRecv (deferred : bool) (line : nat)
| GWgDone (deferred : bool) (line : nat)
| GReturn (line : nat)
| GWgAdd (line : nat)
| GWgWait (line : nat)
| GExpect (line : nat)
| GWaitReply (line : nat).

Record gfunc := mk_gfunc { gf_name : string; gf_line : nat; gf_ops : list gop }.

Definition chan_eqb (a b : chan) : bool :=
  match a, b with
  | ChReply, ChReply | ChGone, ChGone | ChDone, ChDone | ChCtx, ChCtx | ChTimer, ChTimer
  | ChRecv, ChRecv | ChRecvDone, ChRecvDone | ChSessSend, ChSessSend | ChInvQueue, ChInvQueue
  | ChRes, ChRes | ChProg, ChProg | ChLocalDone, ChLocalDone | ChUser, ChUser | ChPeer, ChPeer => true
  | _, _ => false
  end.

Fixpoint find_func (l : list gfunc) (n : string) : option gfunc :=
  match l with [] => None | f :: r => if String.eqb (gf_name f) n then Some f else find_func r n end.

Definition has_case (cases : list (bool * chan * list gop)) (send : bool) (c : chan) : bool :=
  existsb (fun x => Bool.eqb (fst (fst x)) send && chan_eqb (snd (fst x)) c) cases.

(* every op at any depth; [into_go] says whether the bodies of go statements
   are entered (they run in another goroutine) *)
Fixpoint flat (fuel : nat) (into_go : bool) (ops : list gop) : list gop :=
  match fuel with
  | O => []
  | S k =>
      flat_map (fun o =>
        match o with
        | GSelect _ _ cases d => o :: flat_map (fun c => flat k into_go (snd c)) cases ++ flat k into_go d
        | GGo _ body => o :: (if into_go then flat k into_go body else [])
        | _ => [o]
        end) ops
  end.

Definition FUEL := 12%nat.

Definition all_ops (into_go : bool) (f : gfunc) : list gop := flat FUEL into_go (gf_ops f).

(* the bodies of the go statements of a function, each with everything below it *)
Definition go_bodies (f : gfunc) : list (list gop) :=
  flat_map (fun o => match o with GGo _ b => [flat FUEL true b] | _ => [] end) (all_ops true f).

(* ---- H1: the reply rendezvous is guarded ----------------------------- *)
(* No plain send on a reply channel, and every select that sends on one
   also receives from the waiter's gone channel.                          *)
Definition h1_op (o : gop) : bool :=
  match o with
  | GSend ChReply _ => false
  | GSelect _ _ cases _ => if has_case cases true ChReply then has_case cases false ChGone else true
  | _ => true
  end.
Definition h1_reply_sends_guarded (fs : list gfunc) : bool :=
  forallb (fun f => forallb h1_op (all_ops true f)) fs.

(* ---- H2: what can block the run goroutine ---------------------------- *)
Definition run_tree : list string :=
  ["run"; "runReceiveFromRouter"; "runHandleEvent"; "runHandleInvocation"; "runHandleInterrupt"; "runSignalReply"].

Definition blocking_allowed_in_run (o : gop) : bool :=
  match o with
  | GSend ChInvQueue _ => true          (* handing a chunk to the invocation's goroutine *)
  | GSend _ _ => false
  | GRecv _ _ => false
  | GSelect _ true _ _ => true          (* has a default: never blocks *)
  | GSelect _ false cases _ =>
      (has_case cases false ChRecv && has_case cases false ChRecvDone)      (* the receive loop *)
      || (has_case cases true ChReply && has_case cases false ChGone)       (* the guarded rendezvous *)
  | GWgWait _ => false
  | _ => true
  end.

Definition blocking_free (o : gop) : bool :=
  match o with
  | GSend _ _ | GRecv _ _ | GWgWait _ => false
  | GSelect _ d _ _ => d
  | _ => true
  end.

Definition mem_str (s : string) (l : list string) : bool := existsb (String.eqb s) l.

Definition h2_run_blocking_known (fs : list gfunc) : bool :=
  forallb (fun f =>
    if mem_str (gf_name f) run_tree then
      forallb (fun o =>
        blocking_allowed_in_run o &&
        match o with
        | GCall g _ _ =>
            if mem_str g run_tree then true
            else match find_func fs g with
                 | Some gf => forallb blocking_free (all_ops false gf)
                 | None => true
                 end
        | _ => true
        end) (all_ops false f)
    else true) fs.

(* ---- H3: a waiter always leaves, and says so -------------------------- *)
Definition waiter_fns : list string := ["waitForReply"; "waitForReplyWithCancel"].

Definition h3_op (o : gop) : bool :=
  match o with
  | GSelect _ false cases _ =>
      has_case cases false ChTimer || (has_case cases false ChDone && has_case cases false ChCtx)
  | GSend ChProg _ | GSend ChSessSend _ => true
  | GSend _ _ | GRecv _ _ | GWgWait _ => false
  | _ => true
  end.

Definition h3_waiters_release (fs : list gfunc) : bool :=
  forallb (fun n =>
    match find_func fs n with
    | None => false
    | Some f =>
        existsb (fun o => match o with GClose ChGone true _ => true | _ => false end) (all_ops true f)
        && forallb h3_op (all_ops true f)
    end) waiter_fns.

(* ---- H4: the shutdown sequence of Close ------------------------------- *)
Inductive ctoken := TSelSendOrTimer | TSelDoneOrTimer | TEndRecv | TRecvDone | TWgWait | TPeerClose | TOtherBlocking.

Definition ctoken_eqb (a b : ctoken) : bool :=
  match a, b with
  | TSelSendOrTimer, TSelSendOrTimer | TSelDoneOrTimer, TSelDoneOrTimer | TEndRecv, TEndRecv
  | TRecvDone, TRecvDone | TWgWait, TWgWait | TPeerClose, TPeerClose | TOtherBlocking, TOtherBlocking => true
  | _, _ => false
  end.

Definition close_token (o : gop) : list ctoken :=
  match o with
  | GSelect _ false cases _ =>
      if has_case cases true ChSessSend && has_case cases false ChTimer then [TSelSendOrTimer]
      else if has_case cases false ChDone && has_case cases false ChTimer then [TSelDoneOrTimer]
      else [TOtherBlocking]
  | GEndRecv _ _ => [TEndRecv]
  | GRecv ChDone _ => [TRecvDone]
  | GRecv _ _ | GSend _ _ => [TOtherBlocking]
  | GWgWait _ => [TWgWait]
  | GPeerClose _ _ => [TPeerClose]
  | _ => []
  end.

Definition close_expected : list ctoken :=
  [TSelSendOrTimer; TSelDoneOrTimer; TEndRecv; TRecvDone; TWgWait; TPeerClose].

Fixpoint ctokens_eqb (a b : list ctoken) : bool :=
  match a, b with
  | [], [] => true
  | x :: a', y :: b' => ctoken_eqb x y && ctokens_eqb a' b'
  | _, _ => false
  end.

Definition h4_close_sequence (fs : list gfunc) : bool :=
  match find_func fs "Close" with
  | None => false
  | Some f => ctokens_eqb (flat_map close_token (all_ops true f)) close_expected
  end.

(* ---- H5: run() signals Done on every exit, and leaves on GOODBYE/ABORT -- *)
Definition h5_run_exits (fs : list gfunc) (exits : list string) : bool :=
  match find_func fs "run" with
  | None => false
  | Some f =>
      existsb (fun o => match o with GCancel true true _ => true | _ => false end) (gf_ops f)
      && mem_str "Goodbye" exits && mem_str "Abort" exits
  end.

(* ---- H6: event handlers run on the run goroutine, one at a time -------- *)
Definition h6_event_handler_serial (fs : list gfunc) : bool :=
  match find_func fs "runHandleEvent" with
  | None => false
  | Some f =>
      existsb (fun o => match o with GUser _ false _ => true | _ => false end) (all_ops false f)
      && negb (existsb (fun o => match o with GGo _ _ => true | _ => false end) (all_ops true f))
  end.

(* ---- H11: SubscribeChan delivers on the run goroutine -------------------- *)
(* the handler it installs sends on the application's channel in place: no
   goroutine, no select with a default that could reorder or drop events *)
Definition h11_subscribechan_sync (fs : list gfunc) : bool :=
  match find_func fs "SubscribeChan" with
  | None => true      (* the API was removed *)
  | Some f =>
      negb (existsb (fun o => match o with GGo _ _ => true | GSelect _ _ _ _ => true | _ => false end) (all_ops true f))
      && existsb (fun o => match o with GSend ChUser _ => true | _ => false end) (all_ops false f)
  end.

(* ---- H7: invocation goroutines watch Done ------------------------------ *)
Definition h7_op (o : gop) : bool :=
  match o with
  | GSelect _ false cases _ => has_case cases false ChDone
  | GSend _ _ | GRecv _ _ | GWgWait _ => false
  | GPeerClose _ _ => false           (* only Close() closes the peer *)
  | _ => true
  end.

Definition h7_inv_goroutines (fs : list gfunc) : bool :=
  match find_func fs "runHandleInvocation" with
  | None => false
  | Some f =>
      let bodies := go_bodies f in
      negb (match bodies with [] => true | _ => false end)
      && forallb (fun b => forallb h7_op b) bodies
      (* what those goroutines call (cleanupInvHandlersQueue ...) must not block *)
      && forallb (fun b => forallb (fun o =>
            match o with
            | GCall g _ _ => match find_func fs g with
                             | Some gf => forallb (fun o' => blocking_free o' || h7_op o') (all_ops false gf)
                             | None => true end
            | _ => true end) b) bodies
      && existsb (fun b => existsb (fun o => match o with GWgDone true _ => true | _ => false end) b) bodies
      && existsb (fun b => existsb (fun o => match o with GCancel false true _ => true | _ => false end) b) bodies
      && existsb (fun o => match o with GWgAdd _ => true | _ => false end) (all_ops false f)
  end.

(* ---- H8: the peer is closed in exactly one place: Close() -------------- *)
Definition count_peer_close (f : gfunc) : nat :=
  List.length (filter (fun o => match o with GPeerClose _ _ => true | _ => false end) (all_ops true f)).

Definition h8_peer_closed_once (fs : list gfunc) : bool :=
  forallb (fun f =>
    if String.eqb (gf_name f) "Close" then Nat.eqb (count_peer_close f) 1
    else if String.eqb (gf_name f) "NewClient" then true      (* before a client exists *)
    else Nat.eqb (count_peer_close f) 0) fs.

(* ---- H9: no awaitingReply entry without a waiter ------------------------ *)
(* after expectReply the next of {return, send to the router} is the send *)
Fixpoint h9_scan (armed : bool) (ops : list gop) : bool :=
  match ops with
  | [] => true
  | GExpect _ :: r => h9_scan true r
  | GSend ChSessSend _ :: r => h9_scan false r
  | GCall "send" _ _ :: r => h9_scan false r     (* c.send: hands over or gives up; the caller drops the entry *)
  | GReturn _ :: r => if armed then false else h9_scan armed r
  | _ :: r => h9_scan armed r
  end.

Definition h9_no_orphan_expect (fs : list gfunc) : bool :=
  forallb (fun f => h9_scan false (all_ops false f)) fs.

(* ---- H10: replies are dispatched on their own request field ------------- *)
Definition dispatch_expected : list (string * string) :=
  [("Registered", "msg / msg.Request"); ("Subscribed", "msg / msg.Request");
   ("Unsubscribed", "msg / msg.Request"); ("Unregistered", "msg / msg.Request");
   ("Result", "msg / msg.Request"); ("Published", "msg / msg.Request"); ("Error", "msg / msg.Request")].

Definition pair_mem (p : string * string) (l : list (string * string)) : bool :=
  existsb (fun q => String.eqb (fst p) (fst q) && String.eqb (snd p) (snd q)) l.

Definition h10_reply_dispatch (d : list (string * string)) : bool :=
  forallb (fun p => pair_mem p d) dispatch_expected && forallb (fun p => pair_mem p dispatch_expected) d.

(* ---- H12: no send towards the router can outlive the client ------------ *)
(* A plain send on the peer's channel blocks for ever once the transport's
   writer is gone, and panics when Close() closes the peer.  Every such send
   must be a select that also watches Done (or a timer / the invocation's
   context).  The one exception is the recorded known finding: the chunk
   feeder goroutine of CallProgressive. *)
Definition plain_sess_send (o : gop) : bool :=
  match o with GSend ChSessSend _ => true | _ => false end.
Definition guarded_sess_select (o : gop) : bool :=
  match o with
  | GSelect _ false cases _ =>
      if has_case cases true ChSessSend
      then has_case cases false ChDone || has_case cases false ChTimer || has_case cases false ChCtx
      else true
  | _ => true
  end.
Definition h12_sends_watch_done (fs : list gfunc) : bool :=
  forallb (fun f =>
    let ops := if String.eqb (gf_name f) "CallProgressive" then all_ops false f else all_ops true f in
    forallb (fun o => negb (plain_sess_send o)) ops
    && forallb guarded_sess_select (all_ops true f)) fs.

Definition conformance_report (ok : bool) (fs : list gfunc) (exits : list string) (d : list (string * string))
  : list (string * bool) :=
  [("gen_ok", ok);
   ("h1_reply_sends_guarded", h1_reply_sends_guarded fs);
   ("h2_run_blocking_known", h2_run_blocking_known fs);
   ("h3_waiters_release", h3_waiters_release fs);
   ("h4_close_sequence", h4_close_sequence fs);
   ("h5_run_exits", h5_run_exits fs exits);
   ("h6_event_handler_serial", h6_event_handler_serial fs);
   ("h7_inv_goroutines", h7_inv_goroutines fs);
   ("h8_peer_closed_once", h8_peer_closed_once fs);
   ("h9_no_orphan_expect", h9_no_orphan_expect fs);
   ("h10_reply_dispatch", h10_reply_dispatch d);
   ("h11_subscribechan_sync", h11_subscribechan_sync fs);
   ("h12_sends_watch_done", h12_sends_watch_done fs)].

Definition skeleton_conforms_b (ok : bool) (fs : list gfunc) (exits : list string) (d : list (string * string)) : bool :=
  forallb snd (conformance_report ok fs exits d).

Definition site_table_ok_b (ok : bool) (l : list site) : bool :=
  ok && negb (match l with [] => true | _ => false end) && forallb site_safe l.
