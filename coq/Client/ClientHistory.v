(* Client/ClientHistory.v — proofs: over every execution of the protocol model a
   return answers a request that the same goroutine issued, comes after it,
   and is the only return for that request id (history invariant over the
   list of events). *)
From Coq Require Import List NArith ZArith Bool String Ascii Arith Lia.
From Nexus Require Import Client.ClientModel Client.ClientModelProofs.
Import ListNotations.
Open Scope N_scope.

(* ================================================================== *)
(* History: every return answers a request the same goroutine issued,    *)
(* comes after it, and is the only return for that request id            *)

Fixpoint count_ret (k : id) (outs : list out) : nat :=
  match outs with
  | [] => 0
  | OReturn _ k' _ :: r => ((if N.eqb k' k then 1 else 0) + count_ret k r)%nat
  | _ :: r => count_ret k r
  end.

Fixpoint count_ret_ev (k : id) (evs : list event) : nat :=
  match evs with
  | [] => 0
  | EOut (OReturn _ k' _) :: r => ((if N.eqb k' k then 1 else 0) + count_ret_ev k r)%nat
  | _ :: r => count_ret_ev k r
  end.

Lemma count_ret_app : forall k a b, count_ret k (a ++ b) = (count_ret k a + count_ret k b)%nat.
Proof. induction a as [|x r IH]; simpl; intro b; auto. destruct x; simpl; auto. rewrite IH. lia. Qed.

Lemma count_ret_ev_app : forall k a b, count_ret_ev k (a ++ b) = (count_ret_ev k a + count_ret_ev k b)%nat.
Proof.
  induction a as [|x r IH]; simpl; intro b; auto. destruct x as [l|o]; auto. destruct o; simpl; auto.
  rewrite IH. lia.
Qed.

Lemma count_ret_ev_outs : forall k outs, count_ret_ev k (map EOut outs) = count_ret k outs.
Proof. induction outs as [|x r IH]; simpl; auto. destruct x; simpl; auto. Qed.

Lemma count_ret_zero : forall k outs, (forall o r, ~ In (OReturn o k r) outs) -> count_ret k outs = 0%nat.
Proof.
  induction outs as [|x r IH]; simpl; intro H; auto.
  destruct x; try (apply IH; intros o9 r9 X; eapply H; right; eauto).
  destruct (rid =? k) eqn:E.
  - apply N.eqb_eq in E. subst. exfalso. eapply H. left. reflexivity.
  - simpl. apply IH. intros o9 r9 X. eapply H. right. eauto.
Qed.

Lemma count_ret_pos_in : forall k outs, (0 < count_ret k outs)%nat -> exists o r, In (OReturn o k r) outs.
Proof.
  induction outs as [|x r IH]; simpl; intro H; [lia|].
  destruct x; try (destruct (IH H) as (o1 & r1 & X); eauto; fail).
  destruct (rid =? k) eqn:E.
  - apply N.eqb_eq in E. subst. eauto.
  - simpl in H. destruct (IH H) as (o1 & r1 & X). eauto.
Qed.

(* where a return of a step comes from *)
Definition origin (s : state) (l : label) (o : nat) (k : id) : Prop :=
  (exists w, In (k, w) (s_awaiting s) /\ w_o w = o)
  \/ (exists f, In f (s_finishing s) /\ f_o f = o /\ f_id f = k)
  \/ (exists p, l = ApiStart o p k /\ k = s_next s + 1).

Record Summary (s : state) (l : label) (s' : state) (outs : list out) : Prop := {
  ss_rets : forall o k r, In (OReturn o k r) outs -> k <> 0 -> origin s l o k;
  ss_once : forall k, k <> 0 -> (count_ret k outs <= 1)%nat;
  ss_aw : forall k w, In (k, w) (s_awaiting s') ->
            count_ret k outs = 0%nat /\
            ((exists w0, In (k, w0) (s_awaiting s) /\ w_o w0 = w_o w)
             \/ (exists p, l = ApiStart (w_o w) p k /\ k = s_next s + 1));
  ss_fin : forall f, In f (s_finishing s') ->
            count_ret (f_id f) outs = 0%nat /\
            (In f (s_finishing s) \/ exists w, In (f_id f, w) (s_awaiting s) /\ w_o w = f_o f);
  ss_next : s_next s <= s_next s' /\
            (forall k, s_next s' < k -> count_ret k outs = 0%nat) /\
            (forall o p k, l = ApiStart o p k -> k <= s_next s') }.

Lemma summary_boring : forall s l s' outs,
  s_awaiting s' = s_awaiting s -> s_finishing s' = s_finishing s -> s_next s' = s_next s ->
  (forall o k r, ~ In (OReturn o k r) outs) ->
  (forall o p k, l <> ApiStart o p k) ->
  Summary s l s' outs.
Proof.
  intros s l s' outs E1 E2 E3 Hno Hl.
  assert (Z : forall k, count_ret k outs = 0%nat) by (intro k; apply count_ret_zero; intros; apply Hno).
  constructor.
  - intros o k r Hin. exfalso. eapply Hno; eauto.
  - intros k _. rewrite Z. lia.
  - intros k w Hi. rewrite E1 in Hi. split; [apply Z|]. left. eauto.
  - intros f Hf. rewrite E2 in Hf. split; [apply Z|]. left. exact Hf.
  - rewrite E3. split; [lia|]. split; [intros; apply Z|]. intros o p k X. exfalso. eapply Hl; eauto.
Qed.

Lemma fin_of_in : forall l o f, fin_of l o = Some f -> In f l /\ f_o f = o.
Proof.
  induction l as [|f0 r IH]; simpl; intros o f H; [discriminate|].
  destruct (Nat.eqb (f_o f0) o) eqn:E.
  - inversion H; subst. apply Nat.eqb_eq in E. auto.
  - destruct (IH _ _ H). auto.
Qed.

(* returns produced when the client stops: one per waiter in its first select *)
Lemma disconnect_waiters_count : forall l l' outs os k,
  disconnect_waiters l = (l', outs, os) -> NoDup (map fst l) ->
  (count_ret k outs <= 1)%nat /\
  ((0 < count_ret k outs)%nat -> In k (map fst l) /\ ~ In k (map fst l')) /\
  (~ In k (map fst l) -> count_ret k outs = 0%nat).
Proof.
  induction l as [|[k0 w0] rest IH]; simpl; intros l' outs os k H Hn.
  - inversion H; subst. simpl. split; [lia|]. split; [intro; lia|auto].
  - destruct (disconnect_waiters rest) as [[l1 o1] os1] eqn:E. inversion Hn; subst.
    destruct (IH _ _ _ k eq_refl H3) as (A & B & C).
    assert (SUB : forall x, In x (map fst l1) -> In x (map fst rest)).
    { intros x Hx. apply in_map_iff in Hx. destruct Hx as [[k1 w1] [E1 I1]]. simpl in E1. subst x.
      destruct (disconnect_waiters_sub _ _ _ _ _ _ E I1) as [I2 _].
      change k1 with (fst (k1, w1)). apply in_map. exact I2. }
    destruct (w_phase w0) eqn:Ep; inversion H; subst; clear H; simpl.
    + destruct (k0 =? k) eqn:Ek.
      * apply N.eqb_eq in Ek. subst k0.
        assert (Z : count_ret k o1 = 0%nat) by (apply C; exact H2).
        rewrite Z. simpl. split; [lia|]. split.
        -- intros _. split; [left; reflexivity|]. intro X. apply H2. apply SUB. exact X.
        -- intro X. exfalso. apply X. left. reflexivity.
      * simpl. split; [exact A|]. split.
        -- intro P. destruct (B P) as [B1 B2]. split; [right; exact B1|exact B2].
        -- intro X. apply C. intro Y. apply X. right. exact Y.
    + split; [exact A|]. split.
      * intro P. destruct (B P) as [B1 B2]. split; [right; exact B1|].
        intros [X|X]; [subst; apply H2; exact B1|apply B2; exact X].
      * intro X. apply C. intro Y. apply X. right. exact Y.
Qed.

Lemma count_ret_cons_other : forall k x outs,
  (forall o k' r, x = OReturn o k' r -> k' <> k) -> count_ret k (x :: outs) = count_ret k outs.
Proof.
  intros k x outs H. destruct x; simpl; auto.
  destruct (rid =? k) eqn:E; auto. apply N.eqb_eq in E. exfalso. eapply H; eauto.
Qed.

Lemma disconnect_count : forall s s' outs k,
  WF s -> disconnect s = (s', outs) ->
  (count_ret k outs <= 1)%nat /\
  ((0 < count_ret k outs)%nat -> In k (map fst (s_awaiting s)) /\ ~ In k (map fst (s_awaiting s'))) /\
  (~ In k (map fst (s_awaiting s)) -> count_ret k outs = 0%nat).
Proof.
  intros s s' outs k W H. unfold disconnect in H.
  destruct (s_connected s).
  2:{ inversion H; subst. simpl. split; [lia|]. split; [intro; lia|auto]. }
  destruct (disconnect_waiters (s_awaiting s)) as [[aw o1] os1] eqn:E. simpl in H.
  destruct (disconnect_waiters_count _ _ _ _ k E (wf_nodup _ W)) as (A & B & C).
  destruct (s_closer s) as [[oc dl]|]; simpl in H; inversion H; subst; clear H; simpl.
  - rewrite count_ret_app. simpl. rewrite Nat.add_0_r. split; [exact A|]. split; [exact B|exact C].
  - split; [exact A|]. split; [exact B|exact C].
Qed.

Ltac no_ret Hin := simpl in Hin; intuition discriminate.

Lemma in_keys : forall {A} (l : list (N * A)) k v, In (k, v) l -> In k (map fst l).
Proof. intros. change k with (fst (k, v)). apply in_map. assumption. Qed.

Lemma notin_keys_lookup : forall {A} (l : list (N * A)) k, alookup l k = None -> ~ In k (map fst l).
Proof.
  intros A l k H X. apply in_map_iff in X. destruct X as [[k1 v1] [E I]]. simpl in E. subst.
  eapply alookup_none_notin; eauto.
Qed.

(* facts about the step that stops the client *)
Lemma disconnect_facts : forall s s' outs,
  WF s -> disconnect s = (s', outs) ->
  (forall o k r, In (OReturn o k r) outs -> exists w, In (k, w) (s_awaiting s) /\ w_o w = o) /\
  (forall k, (count_ret k outs <= 1)%nat) /\
  (forall k w, In (k, w) (s_awaiting s') -> In (k, w) (s_awaiting s) /\ count_ret k outs = 0%nat) /\
  (forall k, ~ In k (map fst (s_awaiting s)) -> count_ret k outs = 0%nat) /\
  s_finishing s' = s_finishing s /\ s_next s' = s_next s.
Proof.
  intros s s' outs W E.
  split; [|split; [|split; [|split]]].
  - intros o k r Hin. destruct (disconnect_returns _ _ _ _ _ _ E Hin) as (w & Hi & Ho & _). eauto.
  - intro k. apply (disconnect_count _ _ _ k W E).
  - intros k w Hi. destruct (disconnect_count _ _ _ k W E) as (A & B & C).
    assert (Hs : In (k, w) (s_awaiting s)).
    { unfold disconnect in E. destruct (s_connected s); [|inversion E; subst; exact Hi].
      destruct (disconnect_waiters (s_awaiting s)) as [[aw o1] os1] eqn:E1. simpl in E.
      assert (In (k, w) aw) by (destruct (s_closer s) as [[oc dl]|]; simpl in E; inversion E; subst; exact Hi).
      eapply disconnect_waiters_sub; eauto. }
    split; [exact Hs|]. destruct (Nat.eq_dec (count_ret k outs) 0) as [Z|Z]; [exact Z|]. exfalso.
    assert (P : (0 < count_ret k outs)%nat) by lia. destruct (B P) as [_ B2]. apply B2. eapply in_keys; eauto.
  - intros k Hk. apply (disconnect_count _ _ _ k W E). exact Hk.
  - unfold disconnect in E. destruct (s_connected s); [|inversion E; subst; auto].
    destruct (disconnect_waiters (s_awaiting s)) as [[aw o1] os1]. simpl in E.
    destruct (s_closer s) as [[oc dl]|]; simpl in E; inversion E; subst; auto.
Qed.

Lemma summary_disconnect : forall s l s' outs,
  WF s -> disconnect s = (s', outs) -> (forall o p k, l <> ApiStart o p k) ->
  Summary s l s' outs.
Proof.
  intros s l s' outs W E Hl.
  destruct (disconnect_facts _ _ _ W E) as (D1 & D2 & D3 & D4 & D5 & D6).
  constructor.
  - intros o k r Hin _. left. apply D1 in Hin. exact Hin.
  - intros k _. apply D2.
  - intros k w Hi. destruct (D3 _ _ Hi) as [Hs Z]. split; [exact Z|]. left. eauto.
  - intros f Hf. rewrite D5 in Hf. split; [|left; exact Hf].
    apply D4. apply notin_keys_lookup. apply (wf_fin _ W f Hf).
  - rewrite D6. split; [lia|]. split.
    + intros k Hk. apply D4. intro X. apply in_map_iff in X. destruct X as [[k1 w1] [E1 I1]]. simpl in E1. subst k1.
      destruct (wf_keys _ W k w1 I1). lia.
    + intros o p k X. exfalso. eapply Hl; eauto.
Qed.

(* ids of the replies that were handed over are pairwise distinct *)
Definition WF2 (s : state) : Prop := NoDup (map f_id (s_finishing s)).

Lemma wf2_same : forall s s', WF2 s -> s_finishing s' = s_finishing s -> WF2 s'.
Proof. unfold WF2. intros s s' H E. rewrite E. exact H. Qed.

Lemma fin_remove_nodup : forall l o, NoDup (map f_id l) -> NoDup (map f_id (fin_remove l o)).
Proof.
  induction l as [|f r IH]; simpl; intros o H; [constructor|]. inversion H; subst.
  destruct (Nat.eqb (f_o f) o); [auto|]. simpl. constructor; auto.
  intro X. apply H2. apply in_map_iff in X. destruct X as [f1 [E1 I1]].
  apply fin_remove_in in I1. rewrite <- E1. apply in_map. exact I1.
Qed.

Lemma disconnect_finishing : forall s s' outs, disconnect s = (s', outs) -> s_finishing s' = s_finishing s.
Proof.
  intros s s' outs E. unfold disconnect in E. destruct (s_connected s); [|inversion E; subst; auto].
  destruct (disconnect_waiters (s_awaiting s)) as [[aw o1] os1]. simpl in E.
  destruct (s_closer s) as [[oc dl]|]; simpl in E; inversion E; subst; auto.
Qed.

Lemma wf2_step : forall U s l s' outs, WF s -> WF2 s -> step U s l = Ok s' outs -> WF2 s'.
Proof.
  intros U s l s' outs W W2 H. destruct l; simpl in H.
  - revert H. repeat break_match; intro H; inversion H; subst. eapply wf2_same; eauto.
  - unfold step_api_start in H. revert H.
    repeat break_match; intro H; inversion H; subst; try exact W2; eapply wf2_same; eauto.
  - unfold step_router in H. destruct (negb (s_connected s)); [discriminate|].
    assert (R : forall rq, step_reply s rq m = Ok s' outs -> WF2 s').
    { intros rq Hs. unfold step_reply in Hs.
      destruct (alookup (s_awaiting s) rq) as [w|] eqn:Ew; [|inversion Hs; subst; exact W2].
      revert Hs. repeat break_match; intro Hs; inversion Hs; subst; try exact W2;
        try (eapply wf2_same; [exact W2|reflexivity]).
      unfold WF2. simpl. constructor; [|exact W2].
      intro X. apply in_map_iff in X. destruct X as [f1 [E1 I1]].
      destruct (wf_fin _ W f1 I1) as (_ & _ & Z). rewrite E1, Ew in Z. discriminate. }
    destruct m; simpl in H; try (eapply R; eauto; fail).
    + unfold step_event in H. revert H. repeat break_match; intro H; inversion H; subst; exact W2.
    + unfold step_invocation in H. revert H. unfold update_last_recv.
      repeat break_match; intro H; inversion H; subst; try exact W2; (eapply wf2_same; [exact W2|reflexivity]).
    + unfold step_interrupt, cancel_inv, update_last_recv in H. revert H.
      repeat break_match; intro H; inversion H; subst; try exact W2; (eapply wf2_same; [exact W2|reflexivity]).
    + destruct (disconnect s) eqn:E. inversion H; subst. eapply wf2_same; [exact W2|eapply disconnect_finishing; eauto].
    + destruct (disconnect s) eqn:E. inversion H; subst. eapply wf2_same; [exact W2|eapply disconnect_finishing; eauto].
    + inversion H; subst. exact W2.
  - unfold step_timer in H. revert H. repeat break_match; intro H; inversion H; subst. eapply wf2_same; eauto.
  - unfold step_ctx in H. revert H. repeat break_match; intro H; inversion H; subst. eapply wf2_same; eauto.
  - unfold step_ctx in H. revert H. repeat break_match; intro H; inversion H; subst. eapply wf2_same; eauto.
  - unfold step_api_finish in H.
    destruct (fin_of (s_finishing s) o) as [f|]; [|discriminate].
    assert (W1 : WF2 (unbusy (set_finishing s (fin_remove (s_finishing s) o)) o)).
    { unfold WF2. simpl. apply fin_remove_nodup. exact W2. }
    destruct (f_op f); destruct (f_msg f); try discriminate;
      revert H; repeat break_match; intro H; inversion H; subst;
      try exact W1;
      try (eapply wf2_same; [exact W1|reflexivity]);
      try (eapply wf2_same; [exact W1|eapply disconnect_finishing; eauto]).
  - unfold step_inv_start in H. revert H. repeat break_match; intro H; inversion H; subst; eapply wf2_same; eauto.
  - unfold step_inv_exit in H. revert H. repeat break_match; intro H; inversion H; subst; eapply wf2_same; eauto.
  - unfold step_handler_return in H. revert H. repeat break_match; intro H; inversion H; subst; eapply wf2_same; eauto.
  - unfold step_send_prog in H. revert H. repeat break_match; intro H; inversion H; subst; exact W2.
  - unfold step_inv_timeout, cancel_inv in H. revert H. repeat break_match; intro H; inversion H; subst; eapply wf2_same; eauto.
  - unfold step_chunk in H. revert H. repeat break_match; intro H; inversion H; subst; try exact W2; eapply wf2_same; eauto.
  - unfold step_chunk in H. revert H. repeat break_match; intro H; inversion H; subst; try exact W2; eapply wf2_same; eauto.
  - unfold step_close_start, finish_close in H. revert H. repeat break_match; intro H; inversion H; subst;
      try exact W2; eapply wf2_same; eauto.
  - unfold step_close_timer in H. revert H. repeat break_match; try discriminate. intro H; inversion H; subst.
    eapply wf2_same; [exact W2|eapply disconnect_finishing; eauto].
  - revert H. repeat break_match; try discriminate. intro H; inversion H; subst.
    eapply wf2_same; [exact W2|eapply disconnect_finishing; eauto].
  - match type of H with match ?x with _ => _ end = _ => destruct x end; inversion H; subst; try exact W2; eapply wf2_same; eauto.
Qed.

Lemma count_ret_single : forall k o k0 r, count_ret k [OReturn o k0 r] = (if N.eqb k0 k then 1 else 0)%nat.
Proof. intros. simpl. destruct (k0 =? k); reflexivity. Qed.

Lemma fin_id_not_awaiting : forall s f k w, WF s -> In f (s_finishing s) -> In (k, w) (s_awaiting s) -> f_id f <> k.
Proof.
  intros s f k w W Hf Hi E. destruct (wf_fin _ W f Hf) as (_ & _ & Z). subst.
  eapply alookup_none_notin; eauto.
Qed.

Lemma summary_return_waiter : forall s l s' o k w r,
  WF s -> In (k, w) (s_awaiting s) -> w_o w = o ->
  s_awaiting s' = aremove (s_awaiting s) k -> s_finishing s' = s_finishing s -> s_next s' = s_next s ->
  (forall o p k, l <> ApiStart o p k) ->
  Summary s l s' [OReturn o k r].
Proof.
  intros s l s' o k w r W Hi Ho Ea Ef En Hl.
  constructor.
  - intros o1 k1 r1 [X|[]] _. inversion X; subst. left. eauto.
  - intros k1 _. rewrite count_ret_single. destruct (k =? k1); lia.
  - intros k1 w1 H1. rewrite Ea in H1. apply aremove_in in H1. destruct H1 as [H1 Hne].
    rewrite count_ret_single. destruct (k =? k1) eqn:E; [apply N.eqb_eq in E; congruence|].
    split; [reflexivity|]. left. eauto.
  - intros f Hf. rewrite Ef in Hf. rewrite count_ret_single.
    destruct (k =? f_id f) eqn:E.
    + apply N.eqb_eq in E. exfalso. eapply fin_id_not_awaiting; eauto.
    + split; [reflexivity|]. left. exact Hf.
  - rewrite En. split; [lia|]. split.
    + intros k1 Hk. rewrite count_ret_single. destruct (k =? k1) eqn:E; auto.
      apply N.eqb_eq in E. subst. destruct (wf_keys _ W _ _ Hi). lia.
    + intros o1 p k1 X. exfalso. eapply Hl; eauto.
Qed.

Lemma summary_handover : forall s l s' k w f,
  WF s -> In (k, w) (s_awaiting s) -> f_id f = k -> f_o f = w_o w ->
  s_awaiting s' = aremove (s_awaiting s) k -> s_finishing s' = f :: s_finishing s -> s_next s' = s_next s ->
  (forall o p k, l <> ApiStart o p k) ->
  Summary s l s' [].
Proof.
  intros s l s' k w f W Hi Hid Ho Ea Ef En Hl.
  constructor.
  - intros o1 k1 r1 [].
  - intros; simpl; lia.
  - intros k1 w1 H1. rewrite Ea in H1. apply aremove_in in H1. destruct H1 as [H1 _].
    split; [reflexivity|]. left. eauto.
  - intros f1 Hf. rewrite Ef in Hf. split; [reflexivity|]. destruct Hf as [<-|Hf]; [|left; exact Hf].
    right. exists w. rewrite Hid. auto.
  - rewrite En. split; [lia|]. split; [reflexivity|]. intros o1 p k1 X. exfalso. eapply Hl; eauto.
Qed.

Lemma summary_ctx : forall s l s' k w w' outs,
  WF s -> In (k, w) (s_awaiting s) -> w_o w' = w_o w ->
  s_awaiting s' = aset (s_awaiting s) k w' -> s_finishing s' = s_finishing s -> s_next s' = s_next s ->
  (forall o p k, l <> ApiStart o p k) -> (forall o k r, ~ In (OReturn o k r) outs) ->
  Summary s l s' outs.
Proof.
  intros s l s' k w w' outs W Hi Ho Ea Ef En Hl Hno.
  assert (Z : forall k, count_ret k outs = 0%nat) by (intro; apply count_ret_zero; intros; apply Hno).
  constructor.
  - intros o1 k1 r1 Hin. exfalso. eapply Hno; eauto.
  - intros. rewrite Z. lia.
  - intros k1 w1 H1. rewrite Ea in H1. split; [apply Z|]. left.
    destruct H1 as [H1|H1].
    + inversion H1; subst. exists w. auto.
    + apply aremove_in in H1. destruct H1 as [H1 _]. eauto.
  - intros f Hf. rewrite Ef in Hf. split; [apply Z|]. left. exact Hf.
  - rewrite En. split; [lia|]. split; [intros; apply Z|]. intros o1 p k1 X. exfalso. eapply Hl; eauto.
Qed.

Lemma summary_enqueue : forall s s' o p w' outs,
  WF s -> w_o w' = o ->
  s_awaiting s' = aset (s_awaiting s) (s_next s + 1) w' -> s_finishing s' = s_finishing s ->
  s_next s' = s_next s + 1 ->
  (forall o k r, ~ In (OReturn o k r) outs) ->
  Summary s (ApiStart o p (s_next s + 1)) s' outs.
Proof.
  intros s s' o p w' outs W Ho Ea Ef En Hno.
  assert (Z : forall k, count_ret k outs = 0%nat) by (intro; apply count_ret_zero; intros; apply Hno).
  constructor.
  - intros o1 k1 r1 Hin. exfalso. eapply Hno; eauto.
  - intros. rewrite Z. lia.
  - intros k1 w1 H1. rewrite Ea in H1. split; [apply Z|].
    destruct H1 as [H1|H1].
    + inversion H1; subst. right. eauto.
    + apply aremove_in in H1. destruct H1 as [H1 _]. left. eauto.
  - intros f Hf. rewrite Ef in Hf. split; [apply Z|]. left. exact Hf.
  - rewrite En. split; [lia|]. split; [intros; apply Z|]. intros o1 p1 k1 X. inversion X; subst. lia.
Qed.

(* an API call that returns at once: request id 0 (nothing issued) or the fresh id *)
Lemma summary_immediate : forall s s' o p rid k r pre,
  WF s -> s_awaiting s' = s_awaiting s -> s_finishing s' = s_finishing s ->
  (k = 0 /\ rid = 0 /\ s_next s <= s_next s' <= s_next s + 1) \/ (k = s_next s + 1 /\ rid = k /\ s_next s' = k) ->
  (forall o k r, ~ In (OReturn o k r) pre) ->
  Summary s (ApiStart o p rid) s' (pre ++ [OReturn o k r]).
Proof.
  intros s s' o p rid k r pre W Ea Ef Hk Hno.
  assert (Zp : forall k, count_ret k pre = 0%nat) by (intro; apply count_ret_zero; intros; apply Hno).
  assert (C : forall k1, count_ret k1 (pre ++ [OReturn o k r]) = (if N.eqb k k1 then 1 else 0)%nat).
  { intro k1. rewrite count_ret_app, Zp, count_ret_single. reflexivity. }
  constructor.
  - intros o1 k1 r1 Hin Hk1. apply in_app_or in Hin. destruct Hin as [Hin|[X|[]]]; [exfalso; eapply Hno; eauto|].
    inversion X; subst. destruct Hk as [(A & _)|(A & B & _)]; [congruence|]. right. right. exists p. subst. auto.
  - intros k1 _. rewrite C. destruct (k =? k1); lia.
  - intros k1 w1 H1. rewrite Ea in H1. rewrite C. destruct (k =? k1) eqn:E.
    + apply N.eqb_eq in E. subst k1. destruct (wf_keys _ W _ _ H1). exfalso.
      destruct Hk as [(A & _)|(A & _)]; lia.
    + split; [reflexivity|]. left. eauto.
  - intros f Hf. rewrite Ef in Hf. rewrite C. destruct (k =? f_id f) eqn:E.
    + apply N.eqb_eq in E. destruct (wf_fin _ W f Hf) as (A1 & A2 & _). exfalso.
      destruct Hk as [(A & _)|(A & _)]; lia.
    + split; [reflexivity|]. left. exact Hf.
  - destruct Hk as [(A & B & Cn)|(A & B & Cn)].
    + split; [lia|]. split.
      * intros k1 Hk1. rewrite C. subst k. destruct (0 =? k1) eqn:E; auto. apply N.eqb_eq in E. lia.
      * intros o1 p1 k1 X. inversion X; subst. lia.
    + split; [lia|]. split.
      * intros k1 Hk1. rewrite C. destruct (k =? k1) eqn:E; auto. apply N.eqb_eq in E. lia.
      * intros o1 p1 k1 X. inversion X; subst. lia.
Qed.

Lemma fin_ids_distinct : forall l f f1, NoDup (map f_id l) -> In f l -> In f1 l -> f_id f = f_id f1 -> f = f1.
Proof.
  induction l as [|x r IH]; simpl; intros f f1 H Hf Hf1 E; [destruct Hf|].
  inversion H; subst. destruct Hf as [Hf|Hf]; destruct Hf1 as [Hf1|Hf1]; try congruence.
  - subst x. exfalso. apply H2. rewrite E. apply in_map. exact Hf1.
  - subst x. exfalso. apply H2. rewrite <- E. apply in_map. exact Hf.
  - eapply IH; eauto.
Qed.

Lemma fin_remove_o : forall l o f, In f (fin_remove l o) -> f_o f <> o.
Proof.
  induction l as [|x r IH]; simpl; intros o f H; [destruct H|].
  destruct (Nat.eqb (f_o x) o) eqn:E; [eauto|].
  destruct H as [H|H]; [subst; apply Nat.eqb_neq; exact E|eauto].
Qed.

Lemma summary_finish_plain : forall s s' o f r,
  WF s -> WF2 s -> fin_of (s_finishing s) o = Some f ->
  s_awaiting s' = s_awaiting s -> s_finishing s' = fin_remove (s_finishing s) o -> s_next s' = s_next s ->
  Summary s (ApiFinish o) s' [OReturn o (f_id f) r].
Proof.
  intros s s' o f r W W2 Hf Ea Ef En. destruct (fin_of_in _ _ _ Hf) as [Hin Ho].
  constructor.
  - intros o1 k1 r1 [X|[]] _. inversion X; subst. right. left. eauto.
  - intros k1 _. rewrite count_ret_single. destruct (f_id f =? k1); lia.
  - intros k1 w1 H1. rewrite Ea in H1. rewrite count_ret_single.
    destruct (f_id f =? k1) eqn:E; [apply N.eqb_eq in E; exfalso; eapply fin_id_not_awaiting; eauto|].
    split; [reflexivity|]. left. eauto.
  - intros f1 H1. rewrite Ef in H1. pose proof (fin_remove_o _ _ _ H1) as Hne. apply fin_remove_in in H1.
    rewrite count_ret_single. destruct (f_id f =? f_id f1) eqn:E.
    + apply N.eqb_eq in E. exfalso. apply Hne. rewrite <- (fin_ids_distinct _ _ _ W2 Hin H1 E). exact Ho.
    + split; [reflexivity|]. left. exact H1.
  - rewrite En. split; [lia|]. split.
    + intros k1 Hk. rewrite count_ret_single. destruct (f_id f =? k1) eqn:E; auto.
      apply N.eqb_eq in E. destruct (wf_fin _ W f Hin) as (_ & A & _). lia.
    + intros; discriminate.
Qed.

Lemma summary_finish_abort : forall s s' o f r douts,
  WF s -> WF2 s -> fin_of (s_finishing s) o = Some f ->
  disconnect (unbusy (set_finishing s (fin_remove (s_finishing s) o)) o) = (s', douts) ->
  Summary s (ApiFinish o) s' (OSend CAbort :: OReturn o (f_id f) r :: douts).
Proof.
  intros s s' o f r douts W W2 Hf E. destruct (fin_of_in _ _ _ Hf) as [Hin Ho].
  set (s1 := unbusy (set_finishing s (fin_remove (s_finishing s) o)) o) in *.
  assert (W1 : WF s1).
  { destruct W as [A B C]. constructor; simpl; auto. intros f0 H0. apply C. eapply fin_remove_in; eauto. }
  destruct (disconnect_facts _ _ _ W1 E) as (D1 & D2 & D3 & D4 & D5 & D6).
  simpl in D1, D3, D4, D5, D6.
  assert (FID : count_ret (f_id f) douts = 0%nat).
  { apply D4. apply notin_keys_lookup. apply (wf_fin _ W f Hin). }
  assert (C : forall k1, count_ret k1 (OSend CAbort :: OReturn o (f_id f) r :: douts)
                         = ((if N.eqb (f_id f) k1 then 1 else 0) + count_ret k1 douts)%nat) by (intro; reflexivity).
  constructor.
  - intros o1 k1 r1 [X|[X|X]] _; [discriminate| |].
    + inversion X; subst. right. left. eauto.
    + left. apply D1 in X. exact X.
  - intros k1 _. rewrite C. destruct (f_id f =? k1) eqn:Ek.
    + apply N.eqb_eq in Ek. subst k1. rewrite FID. lia.
    + simpl. apply D2.
  - intros k1 w1 H1. destruct (D3 _ _ H1) as [Hs Z]. rewrite C, Z.
    destruct (f_id f =? k1) eqn:Ek;
      [apply N.eqb_eq in Ek; exfalso; exact (fin_id_not_awaiting s f k1 w1 W Hin Hs Ek)|].
    split; [reflexivity|]. left. eauto.
  - intros f1 H1. rewrite D5 in H1. pose proof (fin_remove_o _ _ _ H1) as Hne. apply fin_remove_in in H1.
    rewrite C. rewrite (D4 (f_id f1)) by (apply notin_keys_lookup; apply (wf_fin _ W f1 H1)).
    destruct (f_id f =? f_id f1) eqn:Ek.
    + apply N.eqb_eq in Ek. exfalso. apply Hne. rewrite <- (fin_ids_distinct _ _ _ W2 Hin H1 Ek). exact Ho.
    + split; [reflexivity|]. left. exact H1.
  - assert (N1 : s_next s' = s_next s) by (rewrite D6; reflexivity). rewrite N1. split; [lia|]. split.
    + intros k1 Hk. rewrite C. destruct (f_id f =? k1) eqn:Ek.
      * apply N.eqb_eq in Ek. destruct (wf_fin _ W f Hin) as (_ & A & _). lia.
      * simpl. apply D4. intro X. apply in_map_iff in X. destruct X as [[k2 w2] [E1 I1]]. simpl in E1. subst k2.
        destruct (wf_keys _ W k1 w2 I1). lia.
    + intros; discriminate.
Qed.

Ltac boring :=
  apply summary_boring; [reflexivity|reflexivity|reflexivity
                        |let Hin := fresh in intros ? ? ? Hin; simpl in Hin; intuition discriminate
                        |intros; discriminate].

Lemma step_summary : forall U s l s' outs,
  WF s -> WF2 s -> step U s l = Ok s' outs -> Summary s l s' outs.
Proof.
  intros U s l s' outs W W2 H. destruct l; simpl in H.
  - (* Tick *) revert H. repeat break_match; intro H; inversion H; subst. boring.
  - (* ApiStart *)
    unfold step_api_start in H.
    destruct (mem_nat o (s_busy s)); [discriminate|].
    assert (ENQ : forall s0 x, WF s0 -> s_awaiting s0 = s_awaiting s -> s_finishing s0 = s_finishing s -> s_next s0 = s_next s ->
       (let nid := s_next s0 + 1 in
        if negb (rid =? nid) then Invalid else
        let s1 := set_next s0 nid in
        let s2 := set_busy s1 (o :: s_busy s1) in
        let s3 := set_awaiting s2 (aset (s_awaiting s2) nid (new_waiter s2 o p)) in
        let s4 := match p with
                  | OpCallProg pr hp true _ => set_chunkers s3 ((o, (nid, pr, hp)) :: s_chunkers s3)
                  | _ => s3 end in
        Ok s4 [OSend (request_msg p nid x)]) = Ok s' outs -> Summary s (ApiStart o p rid) s' outs).
    { intros s0 x W0 Ea Ef En H0. cbv zeta in H0.
      destruct (rid =? s_next s0 + 1) eqn:Er; [|discriminate]. simpl in H0. apply N.eqb_eq in Er.
      rewrite Er, En.
      assert (G : forall s4, s_awaiting s4 = aset (s_awaiting s) (s_next s + 1) (new_waiter (set_busy (set_next s0 (s_next s0 + 1)) (o :: s_busy s0)) o p) ->
                  s_finishing s4 = s_finishing s -> s_next s4 = s_next s + 1 ->
                  Summary s (ApiStart o p (s_next s + 1)) s4 [OSend (request_msg p (s_next s0 + 1) x)]).
      { intros s4 A1 A2 A3.
        apply (summary_enqueue s s4 o p (new_waiter (set_busy (set_next s0 (s_next s0 + 1)) (o :: s_busy s0)) o p)); auto.
        intros ? ? ? Hin. simpl in Hin. intuition discriminate. }
      destruct p; inversion H0; subst; try (apply G; simpl; rewrite ?Ea, ?Ef, ?En; reflexivity).
      destruct more; inversion H0; subst; apply G; simpl; rewrite ?Ea, ?Ef, ?En; reflexivity. }
    assert (IMM0 : forall s0 r, s_awaiting s0 = s_awaiting s -> s_finishing s0 = s_finishing s -> s_next s0 = s_next s ->
              (if rid =? 0 then Ok s0 [OReturn o 0 r] else Invalid) = Ok s' outs -> Summary s (ApiStart o p rid) s' outs).
    { intros s0 r Ea Ef En H0. destruct (rid =? 0) eqn:Er; [|discriminate]. apply N.eqb_eq in Er. inversion H0; subst.
      apply (summary_immediate s s' o p 0 0 r []); auto. left. rewrite En. repeat split; lia. }
    assert (PLAIN : (if s_connected s
                     then (let nid := s_next s + 1 in
                           if negb (rid =? nid) then Invalid else
                           let s1 := set_next s nid in
                           let s2 := set_busy s1 (o :: s_busy s1) in
                           let s3 := set_awaiting s2 (aset (s_awaiting s2) nid (new_waiter s2 o p)) in
                           let s4 := match p with
                                     | OpCallProg pr hp true _ => set_chunkers s3 ((o, (nid, pr, hp)) :: s_chunkers s3)
                                     | _ => s3 end in
                           Ok s4 [OSend (request_msg p nid 0)])
                     else if rid =? 0 then Ok s [OReturn o 0 RetNotConn] else Invalid) = Ok s' outs ->
                    Summary s (ApiStart o p rid) s' outs).
    { intro HP. destruct (s_connected s); [eapply (ENQ s 0 W); eauto|eapply IMM0; eauto]. }
    destruct p; try (apply PLAIN; exact H).
    + destruct (alookup (s_topic_sub s) topic) as [sub|].
      * cbv zeta in H.
        assert (W1 : WF (set_subs s (aremove (s_ehandlers s) sub) (aremove (s_topic_sub s) topic))) by (eapply wf_same; eauto).
        destruct (s_connected (set_subs s (aremove (s_ehandlers s) sub) (aremove (s_topic_sub s) topic))).
        -- eapply (ENQ _ sub W1); [| | |exact H]; reflexivity.
        -- eapply IMM0; [| | |exact H]; reflexivity.
      * eapply IMM0; eauto.
    + destruct (alookup (s_proc_reg s) proc) as [reg|].
      * cbv zeta in H.
        assert (W1 : WF (set_regs s (aremove (s_ihandlers s) reg) (aremove (s_proc_reg s) proc))) by (eapply wf_same; eauto).
        destruct (s_connected (set_regs s (aremove (s_ihandlers s) reg) (aremove (s_proc_reg s) proc))).
        -- eapply (ENQ _ reg W1); [| | |exact H]; reflexivity.
        -- eapply IMM0; [| | |exact H]; reflexivity.
      * eapply IMM0; eauto.
    + destruct ack; [apply PLAIN; exact H|].
      destruct (s_connected s); [|eapply IMM0; eauto].
      cbv zeta in H. destruct (rid =? s_next s + 1) eqn:Er; [|discriminate]. simpl in H. apply N.eqb_eq in Er.
      inversion H; subst.
      apply (summary_immediate s _ o (OpPublish topic false) (s_next s + 1) (s_next s + 1) RetOk [OSend (CPublish (s_next s + 1) topic false)]); auto.
      intros ? ? ? Hin. simpl in Hin. intuition discriminate.
    + destruct (s_connected s) eqn:Ec; [|eapply IMM0; eauto].
      destruct (cfg_progcall (s_cfg s)); [apply PLAIN; exact H|eapply IMM0; eauto].
    + destruct (rid =? 0) eqn:Er; [|discriminate]. simpl in H. apply N.eqb_eq in Er. subst rid.
      destruct (s_connected s); inversion H; subst.
      * apply (summary_immediate _ _ o OpBadCall 0 0 (RetLocal E_SCHEME_INVALID) []); auto. left. simpl. repeat split; lia.
      * apply (summary_immediate _ _ o OpBadCall 0 0 RetNotConn []); auto. left. repeat split; lia.
  - (* RouterMsg *)
    unfold step_router in H. destruct (negb (s_connected s)); [discriminate|].
    assert (R : forall rq, step_reply s rq m = Ok s' outs -> Summary s (RouterMsg m) s' outs).
    { intros rq Hs. unfold step_reply in Hs.
      destruct (alookup (s_awaiting s) rq) as [w|] eqn:Ew; [|inversion Hs; subst; boring].
      pose proof (alookup_in _ _ _ Ew) as Hi.
      destruct (w_phase w).
      - match type of Hs with (if ?c then _ else _) = _ => destruct c end.
        + destruct m; inversion Hs; subst; boring.
        + destruct (immediate_ret (w_op w) rq m).
          * inversion Hs; subst. eapply summary_return_waiter; eauto; intros; discriminate.
          * inversion Hs; subst.
            apply (summary_handover s _ _ rq w {| f_o := w_o w; f_id := rq; f_op := w_op w; f_msg := m |}); auto.
            intros; discriminate.
      - destruct m; inversion Hs; subst; try boring.
        eapply summary_return_waiter; eauto; intros; discriminate. }
    destruct m; simpl in H; try (eapply R; eauto; fail).
    + unfold step_event in H. revert H. repeat break_match; intro H; inversion H; subst; boring.
    + unfold step_invocation in H. revert H. unfold update_last_recv.
      repeat break_match; intro H; inversion H; subst; boring.
    + unfold step_interrupt, cancel_inv, update_last_recv in H. revert H.
      repeat break_match; intro H; inversion H; subst; boring.
    + destruct (disconnect s) eqn:E. inversion H; subst. apply summary_disconnect; auto; intros; discriminate.
    + destruct (disconnect s) eqn:E. inversion H; subst. apply summary_disconnect; auto; intros; discriminate.
    + inversion H; subst. boring.
  - (* TimerFire *)
    unfold step_timer in H.
    destruct (waiter_of (s_awaiting s) o) as [[k w]|] eqn:Ew; [|discriminate].
    destruct (w_timer w); [|discriminate]. destruct (n <=? s_now s); [|discriminate].
    inversion H; subst. destruct (waiter_of_in _ _ _ _ Ew) as [Hi Ho].
    eapply summary_return_waiter; eauto; intros; discriminate.
  - (* CtxCancel *)
    unfold step_ctx in H.
    destruct (waiter_of (s_awaiting s) o) as [[k w]|] eqn:Ew; [|discriminate].
    destruct (waiter_of_in _ _ _ _ Ew) as [Hi Ho].
    revert H. repeat break_match; intro H; inversion H; subst.
    eapply summary_ctx with (k := k) (w := w);
      [exact W|exact Hi| |unfold set_waiter; simpl; reflexivity|reflexivity|reflexivity|intros; discriminate
      |intros ? ? ? Hin; simpl in Hin; intuition discriminate]; reflexivity.
  - (* CtxExpire *)
    unfold step_ctx in H.
    destruct (waiter_of (s_awaiting s) o) as [[k w]|] eqn:Ew; [|discriminate].
    destruct (waiter_of_in _ _ _ _ Ew) as [Hi Ho].
    revert H. repeat break_match; intro H; inversion H; subst.
    eapply summary_ctx with (k := k) (w := w);
      [exact W|exact Hi| |unfold set_waiter; simpl; reflexivity|reflexivity|reflexivity|intros; discriminate
      |intros ? ? ? Hin; simpl in Hin; intuition discriminate]; reflexivity.
  - (* ApiFinish *)
    unfold step_api_finish in H.
    destruct (fin_of (s_finishing s) o) as [f|] eqn:Ef; [|discriminate].
    destruct (f_op f); destruct (f_msg f); try discriminate;
      revert H; repeat break_match; intro H; inversion H; subst;
      try (eapply summary_finish_plain; eauto; reflexivity);
      try (eapply summary_finish_abort; eauto).
  - unfold step_inv_start in H. revert H. repeat break_match; intro H; inversion H; subst; boring.
  - unfold step_inv_exit in H. revert H. repeat break_match; intro H; inversion H; subst; boring.
  - unfold step_handler_return in H. revert H. repeat break_match; intro H; inversion H; subst; boring.
  - unfold step_send_prog in H. revert H. repeat break_match; intro H; inversion H; subst; boring.
  - unfold step_inv_timeout, cancel_inv in H. revert H. repeat break_match; intro H; inversion H; subst; boring.
  - unfold step_chunk in H. revert H. repeat break_match; intro H; inversion H; subst; boring.
  - unfold step_chunk in H. revert H. repeat break_match; intro H; inversion H; subst; boring.
  - unfold step_close_start, finish_close in H. revert H. repeat break_match; intro H; inversion H; subst; boring.
  - unfold step_close_timer in H. revert H. repeat break_match; try discriminate. intro H; inversion H; subst.
    apply summary_disconnect; auto; intros; discriminate.
  - revert H. repeat break_match; try discriminate. intro H; inversion H; subst.
    apply summary_disconnect; auto; intros; discriminate.
  - match type of H with match ?x with _ => _ end = _ => destruct x end; inversion H; subst; boring.
Qed.

(* ------------------------------------------------------------------ *)
(* the history invariant                                                *)

Definition started (evs : list event) (o : nat) (k : id) : Prop :=
  exists pre p post, evs = pre ++ ELab (ApiStart o p k) :: post /\ count_ret_ev k pre = 0%nat.

Record HInv (s : state) (evs : list event) : Prop := {
  h_aw : forall k w, In (k, w) (s_awaiting s) -> started evs (w_o w) k /\ count_ret_ev k evs = 0%nat;
  h_fin : forall f, In f (s_finishing s) -> started evs (f_o f) (f_id f) /\ count_ret_ev (f_id f) evs = 0%nat;
  h_ret : forall o k r, k <> 0 -> In (EOut (OReturn o k r)) evs ->
            exists pre p post, evs = pre ++ ELab (ApiStart o p k) :: post /\
              count_ret_ev k pre = 0%nat /\ count_ret_ev k post = 1%nat;
  h_next : forall k, s_next s < k -> count_ret_ev k evs = 0%nat /\ forall o p, ~ In (ELab (ApiStart o p k)) evs }.

Lemma count_ret_ev_in : forall k evs o r, In (EOut (OReturn o k r)) evs -> (1 <= count_ret_ev k evs)%nat.
Proof.
  induction evs as [|x rest IH]; simpl; intros o r H; [destruct H|].
  destruct H as [H|H].
  - subst. rewrite N.eqb_refl. lia.
  - specialize (IH _ _ H). destruct x as [l|out]; auto. destruct out; auto. lia.
Qed.

Lemma count_ret_in : forall k outs o r, In (OReturn o k r) outs -> (1 <= count_ret k outs)%nat.
Proof.
  induction outs as [|x rest IH]; simpl; intros o r H; [destruct H|].
  destruct H as [H|H].
  - subst. rewrite N.eqb_refl. lia.
  - specialize (IH _ _ H). destruct x; auto. lia.
Qed.

Lemma started_extend : forall evs o k more, started evs o k -> started (evs ++ more) o k.
Proof.
  intros evs o k more (pre & p & post & E & C). exists pre, p, (post ++ more). split; auto.
  rewrite E. rewrite <- app_assoc. reflexivity.
Qed.

Lemma in_map_eout : forall x outs, In (EOut x) (map EOut outs) -> In x outs.
Proof.
  intros x outs H. apply in_map_iff in H. destruct H as [y [E I]]. inversion E; subst. exact I.
Qed.

Lemma hinv_step : forall s l s' outs evs,
  WF s -> Summary s l s' outs -> HInv s evs -> HInv s' (evs ++ ELab l :: map EOut outs).
Proof.
  intros s l s' outs evs W S HI. destruct S as [Sr So Sa Sf [Sn1 [Sn2 Sn3]]]. destruct HI as [Ha Hf Hr Hn].
  assert (CNT : forall k, count_ret_ev k (evs ++ ELab l :: map EOut outs) = (count_ret_ev k evs + count_ret k outs)%nat).
  { intro k. rewrite count_ret_ev_app. simpl. rewrite count_ret_ev_outs. reflexivity. }
  assert (NEW : forall o p k, l = ApiStart o p k -> k = s_next s + 1 ->
                 started (evs ++ ELab l :: map EOut outs) o k).
  { intros o p k -> Hk. exists evs, p, (map EOut outs). split; [reflexivity|]. apply Hn. lia. }
  constructor.
  - intros k w Hi. destruct (Sa _ _ Hi) as [Z [(w0 & Hi0 & Ho)|(p & Hl & Hk)]].
    + destruct (Ha _ _ Hi0) as [St C]. rewrite <- Ho. split; [apply started_extend; exact St|]. rewrite CNT, C, Z. reflexivity.
    + split; [eapply NEW; eauto|]. rewrite CNT, Z. rewrite (proj1 (Hn k ltac:(lia))). reflexivity.
  - intros f Hi. destruct (Sf _ Hi) as [Z [Hi0|(w & Hi0 & Ho)]].
    + destruct (Hf _ Hi0) as [St C]. split; [apply started_extend; exact St|]. rewrite CNT, C, Z. reflexivity.
    + destruct (Ha _ _ Hi0) as [St C]. rewrite <- Ho. split; [apply started_extend; exact St|]. rewrite CNT, C, Z. reflexivity.
  - intros o k r Hk Hin. apply in_app_or in Hin. destruct Hin as [Hin|Hin].
    + (* an old return: nothing new for k *)
      destruct (Hr _ _ _ Hk Hin) as (pre & p & post & E & C1 & C2).
      exists pre, p, (post ++ ELab l :: map EOut outs). split; [rewrite E, <- app_assoc; reflexivity|]. split; [exact C1|].
      rewrite count_ret_ev_app. simpl. rewrite count_ret_ev_outs, C2.
      destruct (Nat.eq_dec (count_ret k outs) 0) as [Z|Z]; [rewrite Z; reflexivity|]. exfalso.
      assert (P : (0 < count_ret k outs)%nat) by lia.
      destruct (count_ret_pos_in _ _ P) as (o1 & r1 & X).
      pose proof (count_ret_ev_in _ _ _ _ Hin) as Ge.
      destruct (Sr _ _ _ X Hk) as [(w & Hi & _)|[(f & Hfi & _ & Hid)|(p1 & _ & Hk1)]].
      * destruct (Ha _ _ Hi) as [_ C]. lia.
      * subst k. destruct (Hf _ Hfi) as [_ C]. lia.
      * destruct (Hn k ltac:(lia)) as [C _]. lia.
    + destruct Hin as [Hin|Hin]; [discriminate|]. apply in_map_eout in Hin.
      assert (ONE : count_ret k outs = 1%nat).
      { pose proof (count_ret_in _ _ _ _ Hin). specialize (So k Hk). lia. }
      destruct (Sr _ _ _ Hin Hk) as [(w & Hi & Ho)|[(f & Hfi & Ho & Hid)|(p1 & Hl & Hk1)]].
      * destruct (Ha _ _ Hi) as [(pre & p & post & E & C1) C]. rewrite Ho in E.
        exists pre, p, (post ++ ELab l :: map EOut outs). split; [rewrite E, <- app_assoc; reflexivity|]. split; [exact C1|].
        rewrite count_ret_ev_app. simpl. rewrite count_ret_ev_outs, ONE.
        rewrite E, count_ret_ev_app in C. simpl in C. lia.
      * subst k. destruct (Hf _ Hfi) as [(pre & p & post & E & C1) C]. rewrite Ho in E.
        exists pre, p, (post ++ ELab l :: map EOut outs). split; [rewrite E, <- app_assoc; reflexivity|]. split; [exact C1|].
        rewrite count_ret_ev_app. simpl. rewrite count_ret_ev_outs, ONE.
        rewrite E, count_ret_ev_app in C. simpl in C. lia.
      * subst l. exists evs, p1, (map EOut outs). split; [reflexivity|]. split; [apply Hn; lia|].
        rewrite count_ret_ev_outs. exact ONE.
  - intros k Hk. assert (Hk0 : s_next s < k) by lia. destruct (Hn k Hk0) as [C N]. split.
    + rewrite CNT, C, (Sn2 k Hk). reflexivity.
    + intros o p Hin. apply in_app_or in Hin. destruct Hin as [Hin|[Hin|Hin]].
      * eapply N; eauto.
      * inversion Hin; subst. specialize (Sn3 _ _ _ eq_refl). lia.
      * apply in_map_iff in Hin. destruct Hin as [y [E _]]. discriminate.
Qed.

Lemma hinv_init : forall c, HInv (init c) [].
Proof.
  intro c. constructor; simpl; intros; try contradiction. split; [reflexivity|]. intros o p X. exact X.
Qed.

(* a panicking label changes no state; it is never an ApiStart *)
Lemma hinv_panic : forall s l evs, (forall o p k, l <> ApiStart o p k) -> HInv s evs -> HInv s (evs ++ [ELab l]).
Proof.
  intros s l evs Hl [Ha Hf Hr Hn].
  assert (CNT : forall k, count_ret_ev k (evs ++ [ELab l]) = count_ret_ev k evs).
  { intro k. rewrite count_ret_ev_app. simpl. lia. }
  constructor.
  - intros k w Hi. destruct (Ha _ _ Hi) as [St C]. split; [apply started_extend; exact St|]. rewrite CNT. exact C.
  - intros f Hi. destruct (Hf _ Hi) as [St C]. split; [apply started_extend; exact St|]. rewrite CNT. exact C.
  - intros o k r Hk Hin. apply in_app_or in Hin. destruct Hin as [Hin|[Hin|[]]]; [|discriminate].
    destruct (Hr _ _ _ Hk Hin) as (pre & p & post & E & C1 & C2).
    exists pre, p, (post ++ [ELab l]). split; [rewrite E, <- app_assoc; reflexivity|]. split; [exact C1|].
    rewrite count_ret_ev_app. simpl. lia.
  - intros k Hk. destruct (Hn k Hk) as [C N]. split; [rewrite CNT; exact C|].
    intros o p Hin. apply in_app_or in Hin. destruct Hin as [Hin|[Hin|[]]]; [eapply N; eauto|].
    inversion Hin. eapply Hl; eauto.
Qed.

Theorem hinv_exec : forall U c tr,
  let x := exec U c tr in WF (x_state x) /\ WF2 (x_state x) /\ HInv (x_state x) (x_events x).
Proof.
  intros U c tr. induction tr as [|l tr IH] using rev_ind.
  - simpl. split; [apply wf_init|]. split; [constructor|apply hinv_init].
  - cbv zeta in *. rewrite exec_snoc. unfold exec_step. destruct IH as (W & W2 & HI).
    destruct (x_panic (exec U c tr)); [auto|].
    destruct (step U (x_state (exec U c tr)) l) as [s' outs| |site] eqn:E; simpl; auto.
    + split; [eapply wf_step; eauto|]. split; [eapply wf2_step; eauto|].
      eapply hinv_step; eauto. eapply step_summary; eauto.
    + split; [exact W|]. split; [exact W2|]. apply hinv_panic; auto.
      intros o p k X. subst l. simpl in E. eapply step_api_start_no_panic; eauto.
Qed.

(* Over every execution: a return with request id k <> 0 by goroutine o comes
   after the ApiStart by which THAT goroutine issued k, no return for k
   precedes that ApiStart, and it is the only return for k in the whole
   execution -- each call returns for its own request, once. *)
Theorem returns_own_request_once_proof : forall U c tr o k r,
  k <> 0 -> In (EOut (OReturn o k r)) (x_events (exec U c tr)) ->
  exists pre p post, x_events (exec U c tr) = pre ++ ELab (ApiStart o p k) :: post /\
    count_ret_ev k pre = 0%nat /\ count_ret_ev k post = 1%nat.
Proof.
  intros U c tr o k r Hk Hin. destruct (hinv_exec U c tr) as (_ & _ & HI). eapply h_ret; eauto.
Qed.
