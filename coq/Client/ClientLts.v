(* Client/ClientLts.v — goroutine-granularity model of the client's reply
   rendezvous and shutdown (definitions only; proofs in ClientLtsProofs.v).

   A small process / channel machine.  Processes: the run goroutine, any
   number of API goroutines waiting for a reply (one per request id), the
   goroutine inside Close(), and the invocation goroutines that Close() waits
   for.  The rendezvous is taken apart into the steps between which the Go
   scheduler can interleave anything: lookup of the waiter, hand-over on the
   unbuffered channel, commit to the timeout, deletion of the entry, closing
   of the waiter's "gone" channel.

   [guarded = true]  the repaired client (fixes/C17-reply-rendezvous.patch,
                     fixes/C17-send-after-transport-end.patch): run selects on
                     {reply channel, waiter gone, RecvDone, Done}; an API
                     goroutine hands its request over with select {send, Done};
   [guarded = false] the client as it was: run selects on {reply channel,
                     Done} only; requests are handed over with a plain send.

   The shape of every process is what go/cmd/genclient extracts from
   client.go and Client/ClientSkeleton.v checks (H1..H9): that tie, not this
   file, is what connects the theorems to the code.

   Explicit outcomes: a process that can never move again is a state
   predicate ([run_stuck], [waiter_stuck], [closer_stuck]); the theorems show
   they are unreachable (or, for the unguarded variant, reachable and
   permanent). *)

From Coq Require Import List NArith Bool Arith.
Import ListNotations.
Open Scope N_scope.

Definition id := N.

(* program counter of an API goroutine between expectReply and its return *)
Inductive wpc :=
| WSending         (* entry registered; handing the request to the peer: select {send, Done} *)
| WSelect          (* in the select {reply, timer | ctx, Done} *)
| WProg            (* Call: handing a progressive result to the progress goroutine *)
| WCancelSend      (* Call: context cancelled, sending CANCEL to the router *)
| WCancelSelect    (* Call: in the select {reply, timer} that waits for the ERROR *)
| WLeaving         (* left the select for good: about to delete its awaitingReply entry *)
| WDeleted         (* entry deleted: about to run the deferred close(gone) *)
| WReturned.

Record waiter := { w_pc : wpc; w_call : bool; w_gone : bool }.

Inductive msg := MReply (k : id) | MFinal | MOther.   (* reply for k; GOODBYE/ABORT; anything else *)

Inductive rpc :=
| RLoop            (* select {recv, recvDone} *)
| RLookup (k : id) (* holds a reply, about to look the waiter up under the lock *)
| RSend (k : id)   (* found the waiter: in the hand-over select *)
| RUser            (* in an event handler / a send towards the router / an invocation queue *)
| RExited.         (* returned: the deferred cancel() closed Done *)

Inductive cpc :=
| CNone | CSendGoodbye | CWaitDone1 | CEndRecv | CWaitDone2 | CWaitInv | CClosePeer | CReturned.

Record state := {
  ws : list (id * waiter);      (* every API goroutine that ever waited *)
  aw : list id;                 (* keys of awaitingReply *)
  r_pc : rpc;
  inbox : list msg;             (* router -> client queue *)
  recv_closed : bool;           (* the transport ended *)
  recv_done : bool;             (* EndRecv was called *)
  done : bool;                  (* c.Done() is closed *)
  c_pc : cpc;
  outers : nat;                 (* invocation goroutines counted by activeInvHandlers *)
  peer_closed : bool;
  router_reads : bool }.        (* the peer still takes what the client sends *)

Definition init : state :=
  {| ws := []; aw := []; r_pc := RLoop; inbox := []; recv_closed := false; recv_done := false;
     done := false; c_pc := CNone; outers := 0; peer_closed := false; router_reads := true |}.

Inductive label :=
(* environment *)
| LNewWaiter (k : id) (call : bool)   (* an API goroutine registers k, sends its request, enters the select *)
| LDeliver (m : msg)                  (* the router's next message arrives *)
| LTransportEnd
| LRouterStops                        (* the peer stops taking what the client sends (writer gone, handler busy) *)
| LCtx (k : id)                       (* the caller cancels / the deadline of its Call passes *)
| LInvNew                             (* run starts an invocation's goroutines *)
(* run *)
| LRunTake | LRunSeeEnd | LRunLookup | LRunHandover (final : bool) | LRunGone | LRunSeeRecvDone | LRunUserDone
(* waiters *)
| LSent (k : id) | LSendSeesDone (k : id) | LTimer (k : id) | LSeeDone (k : id) | LCancelSent (k : id) | LProgDone (k : id)
| LDelete (k : id) | LCloseGone (k : id)
(* Close() *)
| LCloseStart | LGoodbyeSent | LCloseTimer | LCloseSeeDone | LEndRecv | LCloseSeeDone2 | LWgWait | LClosePeer
(* invocation goroutines *)
| LOuterExit.

Fixpoint wlookup (l : list (id * waiter)) (k : id) : option waiter :=
  match l with [] => None | (k', w) :: r => if k =? k' then Some w else wlookup r k end.

Fixpoint wupdate (l : list (id * waiter)) (k : id) (w : waiter) : list (id * waiter) :=
  match l with
  | [] => []
  | (k', w') :: r => if k =? k' then (k', w) :: r else (k', w') :: wupdate r k w
  end.

Fixpoint mem (k : id) (l : list id) : bool :=
  match l with [] => false | x :: r => (k =? x) || mem k r end.
Fixpoint remove (k : id) (l : list id) : list id :=
  match l with [] => [] | x :: r => if k =? x then remove k r else x :: remove k r end.

Definition set_ws s v := {| ws := v; aw := aw s; r_pc := r_pc s; inbox := inbox s; recv_closed := recv_closed s; recv_done := recv_done s; done := done s; c_pc := c_pc s; outers := outers s; peer_closed := peer_closed s; router_reads := router_reads s |}.
Definition set_aw s v := {| ws := ws s; aw := v; r_pc := r_pc s; inbox := inbox s; recv_closed := recv_closed s; recv_done := recv_done s; done := done s; c_pc := c_pc s; outers := outers s; peer_closed := peer_closed s; router_reads := router_reads s |}.
Definition set_rpc s v := {| ws := ws s; aw := aw s; r_pc := v; inbox := inbox s; recv_closed := recv_closed s; recv_done := recv_done s; done := done s; c_pc := c_pc s; outers := outers s; peer_closed := peer_closed s; router_reads := router_reads s |}.
Definition set_inbox s v := {| ws := ws s; aw := aw s; r_pc := r_pc s; inbox := v; recv_closed := recv_closed s; recv_done := recv_done s; done := done s; c_pc := c_pc s; outers := outers s; peer_closed := peer_closed s; router_reads := router_reads s |}.
Definition set_recv_closed s v := {| ws := ws s; aw := aw s; r_pc := r_pc s; inbox := inbox s; recv_closed := v; recv_done := recv_done s; done := done s; c_pc := c_pc s; outers := outers s; peer_closed := peer_closed s; router_reads := router_reads s |}.
Definition set_recv_done s v := {| ws := ws s; aw := aw s; r_pc := r_pc s; inbox := inbox s; recv_closed := recv_closed s; recv_done := v; done := done s; c_pc := c_pc s; outers := outers s; peer_closed := peer_closed s; router_reads := router_reads s |}.
Definition set_done s v := {| ws := ws s; aw := aw s; r_pc := r_pc s; inbox := inbox s; recv_closed := recv_closed s; recv_done := recv_done s; done := v; c_pc := c_pc s; outers := outers s; peer_closed := peer_closed s; router_reads := router_reads s |}.
Definition set_cpc s v := {| ws := ws s; aw := aw s; r_pc := r_pc s; inbox := inbox s; recv_closed := recv_closed s; recv_done := recv_done s; done := done s; c_pc := v; outers := outers s; peer_closed := peer_closed s; router_reads := router_reads s |}.
Definition set_outers s v := {| ws := ws s; aw := aw s; r_pc := r_pc s; inbox := inbox s; recv_closed := recv_closed s; recv_done := recv_done s; done := done s; c_pc := c_pc s; outers := v; peer_closed := peer_closed s; router_reads := router_reads s |}.
Definition set_peer_closed s v := {| ws := ws s; aw := aw s; r_pc := r_pc s; inbox := inbox s; recv_closed := recv_closed s; recv_done := recv_done s; done := done s; c_pc := c_pc s; outers := outers s; peer_closed := v; router_reads := router_reads s |}.
Definition set_router_reads s v := {| ws := ws s; aw := aw s; r_pc := r_pc s; inbox := inbox s; recv_closed := recv_closed s; recv_done := recv_done s; done := done s; c_pc := c_pc s; outers := outers s; peer_closed := peer_closed s; router_reads := v |}.

Definition set_wpc (s : state) (k : id) (w : waiter) (pc : wpc) : state :=
  set_ws s (wupdate (ws s) k {| w_pc := pc; w_call := w_call w; w_gone := w_gone w |}).

(* run() returns: its deferred cancel() closes Done *)
Definition run_exit (s : state) : state := set_done (set_rpc s RExited) true.

Definition step (guarded : bool) (s : state) (l : label) : option state :=
  match l with
  | LNewWaiter k call =>
      match wlookup (ws s) k with
      | Some _ => None                                   (* request ids are never reused *)
      | None =>
          if done s then None                            (* Connected() is false: the API returns at once *)
          else Some (set_aw (set_ws s ((k, {| w_pc := WSending; w_call := call; w_gone := false |}) :: ws s)) (k :: aw s))
      end
  | LDeliver m => if recv_closed s then None else Some (set_inbox s (inbox s ++ [m]))
  | LTransportEnd => if recv_closed s then None else Some (set_recv_closed s true)
  | LRouterStops => if router_reads s then Some (set_router_reads s false) else None
  | LCtx k =>
      match wlookup (ws s) k with
      | Some w => match w_pc w with
                  | WSelect => if w_call w then Some (set_wpc s k w WCancelSend) else None
                  | _ => None end
      | None => None
      end
  | LInvNew => match r_pc s with RUser => Some (set_outers s (S (outers s))) | _ => None end
  (* ---- run ---- *)
  | LRunTake =>
      match r_pc s, inbox s with
      | RLoop, m :: rest =>
          let s1 := set_inbox s rest in
          Some (match m with
                | MReply k => set_rpc s1 (RLookup k)
                | MFinal => run_exit s1
                | MOther => set_rpc s1 RUser
                end)
      | _, _ => None
      end
  | LRunSeeEnd =>
      match r_pc s with
      | RLoop =>
          if recv_done s || (recv_closed s && match inbox s with [] => true | _ => false end)
          then Some (run_exit s) else None
      | _ => None
      end
  | LRunLookup =>
      match r_pc s with
      | RLookup k => Some (set_rpc s (if mem k (aw s) then RSend k else RLoop))
      | _ => None
      end
  | LRunHandover final =>
      match r_pc s with
      | RSend k =>
          match wlookup (ws s) k with
          | Some w =>
              match w_pc w with
              | WSelect =>
                  (* a Call may be handed a progressive result and come back *)
                  if final then Some (set_rpc (set_wpc s k w WLeaving) RLoop)
                  else if w_call w then Some (set_rpc (set_wpc s k w WProg) RLoop) else None
              | WCancelSelect =>
                  (* the ERROR ends the wait, anything else is discarded *)
                  Some (set_rpc (set_wpc s k w (if final then WLeaving else WCancelSelect)) RLoop)
              | _ => None
              end
          | None => None
          end
      | _ => None
      end
  | LRunGone =>
      match r_pc s with
      | RSend k =>
          match wlookup (ws s) k with
          | Some w => if guarded && w_gone w then Some (set_rpc s RLoop) else None
          | None => None
          end
      | _ => None
      end
  | LRunSeeRecvDone =>
      (* repaired client: the hand-over select also watches RecvDone, so that
         Close() frees run() when the waiter is itself behind a peer that does
         not read *)
      match r_pc s with
      | RSend _ => if guarded && recv_done s then Some (set_rpc s RLoop) else None
      | _ => None
      end
  | LRunUserDone => match r_pc s with RUser => Some (set_rpc s RLoop) | _ => None end
  (* ---- waiters ---- *)
  | LSent k =>
      match wlookup (ws s) k with
      | Some w => match w_pc w with
                  | WSending => if router_reads s then Some (set_wpc s k w WSelect) else None
                  | _ => None end
      | None => None
      end
  | LSendSeesDone k =>
      (* repaired client: c.send selects on Done; the caller then drops its entry *)
      match wlookup (ws s) k with
      | Some w => match w_pc w with
                  | WSending => if guarded && done s then Some (set_wpc s k w WLeaving) else None
                  | _ => None end
      | None => None
      end
  | LTimer k =>
      match wlookup (ws s) k with
      | Some w => match w_pc w with
                  | WSelect => if w_call w then None else Some (set_wpc s k w WLeaving)
                  | WCancelSelect => Some (set_wpc s k w WLeaving)
                  | _ => None end
      | None => None
      end
  | LSeeDone k =>
      match wlookup (ws s) k with
      | Some w => match w_pc w with
                  | WSelect => if done s then Some (set_wpc s k w WLeaving) else None
                  | _ => None end
      | None => None
      end
  | LCancelSent k =>
      match wlookup (ws s) k with
      | Some w => match w_pc w with WCancelSend => Some (set_wpc s k w WCancelSelect) | _ => None end
      | None => None
      end
  | LProgDone k =>
      match wlookup (ws s) k with
      | Some w => match w_pc w with WProg => Some (set_wpc s k w WSelect) | _ => None end
      | None => None
      end
  | LDelete k =>
      match wlookup (ws s) k with
      | Some w => match w_pc w with
                  | WLeaving => Some (set_aw (set_wpc s k w WDeleted) (remove k (aw s)))
                  | _ => None end
      | None => None
      end
  | LCloseGone k =>
      match wlookup (ws s) k with
      | Some w => match w_pc w with
                  | WDeleted => Some (set_ws s (wupdate (ws s) k {| w_pc := WReturned; w_call := w_call w; w_gone := guarded |}))
                  | _ => None end
      | None => None
      end
  (* ---- Close() ---- *)
  | LCloseStart =>
      match c_pc s with
      | CNone => Some (set_cpc s (if done s then CWaitInv else CSendGoodbye))
      | _ => None
      end
  | LGoodbyeSent => match c_pc s with CSendGoodbye => Some (set_cpc s CWaitDone1) | _ => None end
  | LCloseTimer =>
      match c_pc s with
      | CSendGoodbye | CWaitDone1 => Some (set_cpc s CEndRecv)
      | _ => None
      end
  | LCloseSeeDone => match c_pc s with CWaitDone1 => if done s then Some (set_cpc s CWaitInv) else None | _ => None end
  | LEndRecv => match c_pc s with CEndRecv => Some (set_cpc (set_recv_done s true) CWaitDone2) | _ => None end
  | LCloseSeeDone2 => match c_pc s with CWaitDone2 => if done s then Some (set_cpc s CWaitInv) else None | _ => None end
  | LWgWait => match c_pc s with CWaitInv => if Nat.eqb (outers s) 0 then Some (set_cpc s CClosePeer) else None | _ => None end
  | LClosePeer => match c_pc s with CClosePeer => Some (set_cpc (set_peer_closed s true) CReturned) | _ => None end
  (* ---- invocation goroutines: every select they block in watches Done ---- *)
  | LOuterExit => match outers s with S n => Some (set_outers s n) | O => None end
  end.

(* executions; a label that is not enabled is skipped *)
Definition exec_step (g : bool) (s : state) (l : label) : state :=
  match step g s l with Some s' => s' | None => s end.
Definition exec (g : bool) (s : state) (tr : list label) : state := fold_left (exec_step g) tr s.

Definition reachable (g : bool) (s : state) : Prop := exists tr, s = exec g init tr.

Definition enabled (g : bool) (s : state) (l : label) : bool :=
  match step g s l with Some _ => true | None => false end.

(* ---- "blocked forever" outcomes ------------------------------------------ *)

(* run sits in the hand-over select, its waiter has returned, and (in the
   unguarded variant) nothing it selects on can ever become ready *)
Definition run_stuck (g : bool) (s : state) : Prop :=
  exists k w, r_pc s = RSend k /\ wlookup (ws s) k = Some w /\ w_pc w = WReturned
              /\ (g && w_gone w) = false /\ done s = false.

Definition is_run_label (l : label) : bool :=
  match l with
  | LRunTake | LRunSeeEnd | LRunLookup | LRunHandover _ | LRunGone | LRunSeeRecvDone | LRunUserDone => true
  | _ => false
  end.

Definition waiter_label_of (l : label) : option id :=
  match l with
  | LSent k | LSendSeesDone k | LTimer k | LSeeDone k | LCancelSent k | LProgDone k | LDelete k | LCloseGone k | LCtx k => Some k
  | _ => None
  end.

Definition is_closer_label (l : label) : bool :=
  match l with
  | LCloseStart | LGoodbyeSent | LCloseTimer | LCloseSeeDone | LEndRecv | LCloseSeeDone2 | LWgWait | LClosePeer => true
  | _ => false
  end.

(* how many of its own steps a waiter is away from receiving again or from
   having announced that it is gone *)
Definition release_rank (pc : wpc) : nat :=
  match pc with
  | WSelect | WCancelSelect | WReturned => 0
  | WSending | WProg | WCancelSend | WDeleted => 1
  | WLeaving => 2
  end.
