(* Per-run obligation (C16): the parts of the skeleton the C16 statements
   rest on -- event handlers are called synchronously on the run goroutine
   (serial, in arrival order), SubscribeChan forwards in place (no goroutine,
   no non-blocking send), and every reply type is dispatched on its own
   request field. *)
From Coq Require Import List String Bool.
From Nexus Require Import Client.ClientSkeleton gen.GenClient.

Theorem skeleton_conforms_c16 :
  (gen_ok && h6_event_handler_serial gen_funcs && h10_reply_dispatch gen_reply_dispatch
   && h5_run_exits gen_funcs gen_run_exits && h11_subscribechan_sync gen_funcs)%bool = true.
Proof. vm_compute. reflexivity. Qed.
