(* Client/ClientModel.v — protocol-level executable model of client/client.go
   (definitions only; proofs are in ClientModelProofs.v).

   One [label] = one atomic action of the run goroutine, of an API goroutine,
   of an invocation goroutine, of a timer, or of the environment.  "For all
   goroutine counts, reply orders and delays" = for all label lists.

   The model mirrors the REPAIRED client (fixes/C17-*.patch): checked PPT
   unpacking, reply rendezvous with a per-waiter "gone" channel, abort paths
   that stop receiving instead of closing the peer a second time.  The
   behaviour of the unrepaired accessors is kept as [unpack_ppt_unchecked] /
   [unpack_e2ee_unchecked] (used for the regression witnesses only). *)

From Coq Require Import List NArith ZArith Bool String Ascii Arith.
Import ListNotations.
Open Scope N_scope.

(* ------------------------------------------------------------------ *)
(* Values as the client can observe them (Go dynamic types)            *)

(* What the third-party deserializer returns for a byte string (oracle:
   ugorji/go/codec is modelled, not verified). *)
Inductive decoded :=
| DecFail                 (* decode error *)
| DecNull                 (* decodes to a nil pointer / leaves the zero value *)
| DecOk (tag : Z).        (* a PassthruPayload whose Arguments are [tag] *)

Inductive value :=
| VNil
| VBool (b : bool)
| VInt (z : Z)            (* any Go integer kind *)
| VFloat (z : Z)          (* float64 (only its integral part matters here) *)
| VStr (s : string)
| VBytes (d : decoded)    (* []byte, with what the decoder makes of it *)
| VPayload (isnil : bool) (tag : Z)   (* *wamp.PassthruPayload (in-process peers) *)
| VOther.                 (* lists, dicts, anything else *)

Definition dict := list (string * value).

Fixpoint dget (d : dict) (k : string) : option value :=
  match d with
  | [] => None
  | (k', v) :: r => if String.eqb k k' then Some v else dget r k
  end.

(* Outcome of reading router-supplied data.  [RPanic] is what a bare type
   assertion or an unchecked index produces in Go. *)
Inductive res (A : Type) :=
| ROk (a : A)
| RErr (e : nat)
| RPanic (site : nat).
Arguments ROk {A} a.
Arguments RErr {A} e.
Arguments RPanic {A} site.

(* comma-ok assertions *)
Definition str_ok (v : option value) : option string :=
  match v with Some (VStr s) => Some s | _ => None end.
Definition bool_ok (v : option value) : bool :=
  match v with Some (VBool b) => b | _ => false end.
(* wamp.AsInt64: every integer kind and float64 (truncated); a uint64 above
   MaxInt64 wraps to a negative int64 (Go conversion) *)
Definition wrap64 (z : Z) : Z :=
  if (9223372036854775808 <=? z)%Z then (z - 18446744073709551616)%Z else z.
Definition as_int64 (v : option value) : Z :=
  match v with Some (VInt z) => wrap64 z | Some (VFloat z) => z | _ => 0%Z end.

(* error codes *)
Definition E_SERIALIZER_INVALID := 1%nat.
Definition E_SERIALIZATION := 2%nat.
Definition E_SCHEME_INVALID := 3%nat.
Definition E_PPT_UNSUPPORTED := 4%nat.
Definition E_PROGCALL_UNSUPPORTED := 5%nat.

Definition ppt_serializers : list string := ["json"; "msgpack"; "cbor"]%string.
Definition e2ee_serializers : list string := ["cbor"]%string.
Fixpoint mem_str (s : string) (l : list string) : bool :=
  match l with [] => false | x :: r => String.eqb s x || mem_str s r end.

Definition payload := (list value * bool)%type.  (* unpacked arguments, (unused) *)

Definition args_of_tag (t : Z) : list value := [VInt t].

(* unpackPPTPayload, repaired: every length and type is checked. *)
Definition unpack_ppt_checked (details : dict) (args : list value) : res (list value) :=
  match dget details "ppt_serializer" with
  | Some v =>
      if match v with VStr s => String.eqb s "native" | _ => false end
      then (* native *)
        match args with
        | [] => RErr E_SERIALIZATION
        | VPayload false t :: _ => ROk (args_of_tag t)
        | VPayload true _ :: _ => RErr E_SERIALIZATION
        | _ :: _ => RErr E_SERIALIZATION
        end
      else
        match v with
        | VStr s =>
            if mem_str s ppt_serializers then
              match args with
              | [] => RErr E_SERIALIZATION
              | VBytes DecFail :: _ => RErr E_SERIALIZATION
              | VBytes DecNull :: _ => RErr E_SERIALIZATION
              | VBytes (DecOk t) :: _ => ROk (args_of_tag t)
              | _ :: _ => RErr E_SERIALIZATION
              end
            else RErr E_SERIALIZER_INVALID
        | _ => RErr E_SERIALIZER_INVALID
        end
  | None =>
      match args with
      | [] => RErr E_SERIALIZATION
      | VPayload false t :: _ => ROk (args_of_tag t)
      | _ :: _ => RErr E_SERIALIZATION
      end
  end.

(* unpackPPTPayload as it is in the unrepaired tree: bare assertions. *)
Definition unpack_ppt_unchecked (details : dict) (args : list value) : res (list value) :=
  match dget details "ppt_serializer" with
  | Some v =>
      if match v with VStr s => String.eqb s "native" | _ => false end
      then
        match args with
        | [] => RPanic 167
        | VPayload false t :: _ => ROk (args_of_tag t)
        | VPayload true _ :: _ => RPanic 170
        | _ :: _ => RPanic 167
        end
      else
        match v with
        | VStr s =>
            if mem_str s ppt_serializers then
              match args with
              | [] => RPanic 162
              | VBytes DecFail :: _ => RErr E_SERIALIZATION
              | VBytes DecNull :: _ => RPanic 170
              | VBytes (DecOk t) :: _ => ROk (args_of_tag t)
              | _ :: _ => RPanic 162
              end
            else RErr E_SERIALIZER_INVALID
        | _ => RPanic 146
        end
  | None =>
      match args with
      | [] => RPanic 167
      | VPayload false t :: _ => ROk (args_of_tag t)
      | VPayload true _ :: _ => RPanic 170
      | _ :: _ => RPanic 167
      end
  end.

(* unpackE2EEPayload, repaired.  The decode target is a struct value, so a
   null document leaves it empty (no arguments) instead of a nil pointer. *)
Definition unpack_e2ee_checked (details : dict) (args : list value) : res (list value) :=
  match dget details "ppt_serializer" with
  | Some (VStr s) =>
      if mem_str s e2ee_serializers then
        match args with
        | [] => RErr E_SERIALIZATION
        | VBytes DecFail :: _ => RErr E_SERIALIZATION
        | VBytes DecNull :: _ => ROk []
        | VBytes (DecOk t) :: _ => ROk (args_of_tag t)
        | _ :: _ => RErr E_SERIALIZATION
        end
      else RErr E_SERIALIZER_INVALID
  | _ => RErr E_SERIALIZER_INVALID
  end.

Definition unpack_e2ee_unchecked (details : dict) (args : list value) : res (list value) :=
  match dget details "ppt_serializer" with
  | Some (VStr s) =>
      if mem_str s e2ee_serializers then
        match args with
        | [] => RPanic 216
        | VBytes DecFail :: _ => RErr E_SERIALIZATION
        | VBytes DecNull :: _ => ROk []
        | VBytes (DecOk t) :: _ => ROk (args_of_tag t)
        | _ :: _ => RPanic 216
        end
      else RErr E_SERIALIZER_INVALID
  | _ => RPanic 203
  end.

(* The pair of unpackers the step function is parametric in. *)
Record unpackers := {
  u_ppt : dict -> list value -> res (list value);
  u_e2ee : dict -> list value -> res (list value) }.
Definition checked := {| u_ppt := unpack_ppt_checked; u_e2ee := unpack_e2ee_checked |}.
Definition unchecked := {| u_ppt := unpack_ppt_unchecked; u_e2ee := unpack_e2ee_unchecked |}.

Definition prefix_x (s : string) : bool :=
  match s with
  | String a (String b _) => (Ascii.eqb a "x"%char && Ascii.eqb b "_"%char)%bool
  | _ => false
  end.
Definition scheme_valid (s : string) : bool :=
  (String.eqb s "wamp" || String.eqb s "mqtt" || prefix_x s)%bool.

(* The PPT part common to runHandleEvent / runHandleInvocation /
   prepareCallResultMessage: None = no passthru (arguments as they are). *)
Definition ppt_scheme (details : dict) : option string :=
  match str_ok (dget details "ppt_scheme") with
  | Some s => if String.eqb s "" then None else Some s
  | None => None
  end.

Definition unpack (U : unpackers) (scheme : string) (details : dict) (args : list value) : res (list value) :=
  if String.eqb scheme "wamp" then u_e2ee U details args else u_ppt U details args.

(* The observable summary of an argument list: (first argument when it is an
   integer, else -1; number of arguments). *)
Definition atag (args : list value) : Z :=
  match args with VInt z :: _ => z | _ => (-1)%Z end.

(* ------------------------------------------------------------------ *)
(* Messages                                                            *)

Definition id := N.

Inductive rmsg :=                       (* router -> client *)
| RSubscribed (req sub : id)
| RUnsubscribed (req : id)
| RRegistered (req reg : id)
| RUnregistered (req : id)
| RPublished (req : id)
| RResult (req : id) (details : dict) (args : list value)
| RError (req : id) (tag : Z)
| REvent (sub pub : id) (details : dict) (args : list value)
| RInvocation (req reg : id) (details : dict) (args : list value)
| RInterrupt (req : id)
| RGoodbye
| RAbort
| ROther.                               (* WELCOME, CHALLENGE, client->router types *)

Inductive cancel_mode := MKill | MKillNoWait | MSkip.

Inductive inv_err := IENoHandler | IEScheme | IEUnpack (e : nat) | IECanceled | IEApp.

Inductive cmsg :=                       (* client -> router *)
| CSubscribe (req : id) (topic : N)
| CUnsubscribe (req sub : id)
| CRegister (req : id) (proc : N)
| CUnregister (req reg : id)
| CPublish (req : id) (topic : N) (ack : bool)
| CCall (req : id) (proc : N) (progress recvprog : bool)
| CCancel (req : id) (mode : cancel_mode)
| CYield (req : id) (tag : Z) (progress : bool)
| CErrorInv (req : id) (e : inv_err)
| CGoodbye
| CAbort.

(* ------------------------------------------------------------------ *)
(* API                                                                 *)

Inductive op :=
| OpSubscribe (topic : N)
| OpUnsubscribe (topic : N)
| OpRegister (proc : N)
| OpUnregister (proc : N)
| OpPublish (topic : N) (ack : bool)
| OpCall (proc : N) (hasprog : bool) (ctx_deadline : option N)
| OpCallProg (proc : N) (hasprog : bool) (more : bool) (ctx_deadline : option N)
| OpBadCall.    (* Call / acknowledged Publish whose local PPT validation fails *)

Inductive ret :=
| RetOk
| RetSub (sub : id)
| RetReg (reg : id)
| RetResult (req : id) (tag : Z) (n : nat) (progress : bool)
| RetErrReply (tag : Z)
| RetRpcErr (req : id) (tag : Z)
| RetTimeout
| RetNotConn
| RetCtx (deadline : bool)
| RetUnexpected
| RetNotSub
| RetNotReg
| RetLocal (e : nat).

Inductive hres := HOk (tag : Z) | HOmit | HErr | HCanceled.

Inductive out :=
| OSend (m : cmsg)
| OReturn (o : nat) (rid : id) (r : ret)        (* API goroutine o returns; rid = its request id (0: none) *)
| OEvent (h : nat) (sub pub : id) (tag : Z) (n : nat)  (* event handler of subscribe-op h runs *)
| OHandler (h : nat) (req reg : id) (tag : Z) (n : nat) (progress ctxdone : bool)
| OProgress (o : nat) (rid : id) (tag : Z) (n : nat)
| OSProgRet (req : id) (ok : bool)
| ODone
| OCloseRet (o : nat) (already : bool)
| OPeerClosed
| OSetMode (ok : bool).                         (* SetCallCancelMode returns (nil / an error) *)

(* SetCallCancelMode(""): the default; one of the three modes; anything else: refused *)
Inductive mode_req := MRDefault | MRSet (m : cancel_mode) | MRInvalid.

Inductive label :=
| Tick (t : N)
| ApiStart (o : nat) (p : op) (rid : id)
| RouterMsg (m : rmsg)
| TimerFire (o : nat)
| CtxCancel (o : nat)           (* the caller cancels the context of its Call *)
| CtxExpire (o : nat)           (* ... or its deadline passes *)
| ApiFinish (o : nat)           (* API goroutine o completes after the hand-over *)
| InvStart (req : id)           (* the invocation's goroutine takes the next chunk *)
| InvExit (req : id)            (* ... or leaves because the call/client is gone *)
| HandlerReturn (req : id) (r : hres)
| SendProg (req : id) (tag : Z)
| InvTimeout (req : id)
| ChunkSend (o : nat) (more : bool)
| ChunkErr (o : nat)
| CloseStart (o : nat)
| CloseTimer
| TransportEnd
| SetMode (r : mode_req).       (* the application calls SetCallCancelMode *)

(* ------------------------------------------------------------------ *)
(* State                                                               *)

Inductive wphase := WWaiting | WCancelWait (deadline_err : bool).

Record waiter := {
  w_o : nat;
  w_op : op;
  w_phase : wphase;
  w_timer : option N;       (* deadline of the armed response timer *)
  w_ctx : option N }.       (* deadline of the caller's context *)

(* reply handed over, API goroutine not yet finished *)
Record finishing := {
  f_o : nat;
  f_id : id;
  f_op : op;
  f_msg : rmsg }.

Record chunk := { c_tag : Z; c_n : nat; c_progress : bool }.

Record inv := {
  i_req : id;
  i_reg : id;
  i_h : nat;
  i_queue : list chunk;      (* handlerQueue *)
  i_queue_alive : bool;      (* invHandlersQueues entry exists (inner goroutine not cleaned up) *)
  i_running : bool;          (* the user handler is executing a chunk *)
  i_more : bool;             (* processMessages *)
  i_cancelled : bool;        (* the invocation's context is cancelled *)
  i_outer : bool;            (* the goroutine that sends the reply is still waiting *)
  i_recvprog : bool;         (* progGate entry *)
  i_deadline : option N }.

Record config := {
  cfg_rt : N;                (* ResponseTimeout, ms *)
  cfg_mode : cancel_mode;
  cfg_ppt : bool;            (* router announced payload_passthru_mode *)
  cfg_progcall : bool }.     (* router announced progressive_call_invocations *)

Record state := {
  s_cfg : config;
  s_now : N;
  s_connected : bool;        (* run() alive *)
  s_closed : bool;           (* Close() called *)
  s_peer_closed : bool;
  s_next : id;               (* IDGen *)
  s_busy : list nat;         (* API goroutines inside a call *)
  s_awaiting : list (id * waiter);
  s_finishing : list finishing;
  s_ehandlers : list (id * nat);     (* subscription -> subscribe op *)
  s_topic_sub : list (N * id);
  s_ihandlers : list (id * nat);     (* registration -> register op *)
  s_proc_reg : list (N * id);
  s_invs : list inv;
  s_last_recv : id;
  s_closer : option (nat * N);       (* Close() waiting for Done, with its deadline *)
  s_chunkers : list (nat * (id * N * bool)) }.
    (* CallProgressive feeder goroutines still pulling chunks: op, request id,
       procedure, receive_progress.  A feeder outlives its call. *)

Definition init (c : config) : state :=
  {| s_cfg := c; s_now := 0; s_connected := true; s_closed := false; s_peer_closed := false;
     s_next := 0; s_busy := []; s_awaiting := []; s_finishing := [];
     s_ehandlers := []; s_topic_sub := []; s_ihandlers := []; s_proc_reg := [];
     s_invs := []; s_last_recv := 0; s_closer := None; s_chunkers := [] |}.

(* functional record update helpers *)
Definition set_mode s m := {| s_cfg := {| cfg_rt := cfg_rt (s_cfg s); cfg_mode := m; cfg_ppt := cfg_ppt (s_cfg s); cfg_progcall := cfg_progcall (s_cfg s) |}; s_now := s_now s; s_connected := s_connected s; s_closed := s_closed s; s_peer_closed := s_peer_closed s; s_next := s_next s; s_busy := s_busy s; s_awaiting := s_awaiting s; s_finishing := s_finishing s; s_ehandlers := s_ehandlers s; s_topic_sub := s_topic_sub s; s_ihandlers := s_ihandlers s; s_proc_reg := s_proc_reg s; s_invs := s_invs s; s_last_recv := s_last_recv s; s_closer := s_closer s; s_chunkers := s_chunkers s |}.
Definition set_now s v := {| s_cfg := s_cfg s; s_now := v; s_connected := s_connected s; s_closed := s_closed s; s_peer_closed := s_peer_closed s; s_next := s_next s; s_busy := s_busy s; s_awaiting := s_awaiting s; s_finishing := s_finishing s; s_ehandlers := s_ehandlers s; s_topic_sub := s_topic_sub s; s_ihandlers := s_ihandlers s; s_proc_reg := s_proc_reg s; s_invs := s_invs s; s_last_recv := s_last_recv s; s_closer := s_closer s; s_chunkers := s_chunkers s |}.
Definition set_connected s v := {| s_cfg := s_cfg s; s_now := s_now s; s_connected := v; s_closed := s_closed s; s_peer_closed := s_peer_closed s; s_next := s_next s; s_busy := s_busy s; s_awaiting := s_awaiting s; s_finishing := s_finishing s; s_ehandlers := s_ehandlers s; s_topic_sub := s_topic_sub s; s_ihandlers := s_ihandlers s; s_proc_reg := s_proc_reg s; s_invs := s_invs s; s_last_recv := s_last_recv s; s_closer := s_closer s; s_chunkers := s_chunkers s |}.
Definition set_closed s v := {| s_cfg := s_cfg s; s_now := s_now s; s_connected := s_connected s; s_closed := v; s_peer_closed := s_peer_closed s; s_next := s_next s; s_busy := s_busy s; s_awaiting := s_awaiting s; s_finishing := s_finishing s; s_ehandlers := s_ehandlers s; s_topic_sub := s_topic_sub s; s_ihandlers := s_ihandlers s; s_proc_reg := s_proc_reg s; s_invs := s_invs s; s_last_recv := s_last_recv s; s_closer := s_closer s; s_chunkers := s_chunkers s |}.
Definition set_peer_closed s v := {| s_cfg := s_cfg s; s_now := s_now s; s_connected := s_connected s; s_closed := s_closed s; s_peer_closed := v; s_next := s_next s; s_busy := s_busy s; s_awaiting := s_awaiting s; s_finishing := s_finishing s; s_ehandlers := s_ehandlers s; s_topic_sub := s_topic_sub s; s_ihandlers := s_ihandlers s; s_proc_reg := s_proc_reg s; s_invs := s_invs s; s_last_recv := s_last_recv s; s_closer := s_closer s; s_chunkers := s_chunkers s |}.
Definition set_next s v := {| s_cfg := s_cfg s; s_now := s_now s; s_connected := s_connected s; s_closed := s_closed s; s_peer_closed := s_peer_closed s; s_next := v; s_busy := s_busy s; s_awaiting := s_awaiting s; s_finishing := s_finishing s; s_ehandlers := s_ehandlers s; s_topic_sub := s_topic_sub s; s_ihandlers := s_ihandlers s; s_proc_reg := s_proc_reg s; s_invs := s_invs s; s_last_recv := s_last_recv s; s_closer := s_closer s; s_chunkers := s_chunkers s |}.
Definition set_busy s v := {| s_cfg := s_cfg s; s_now := s_now s; s_connected := s_connected s; s_closed := s_closed s; s_peer_closed := s_peer_closed s; s_next := s_next s; s_busy := v; s_awaiting := s_awaiting s; s_finishing := s_finishing s; s_ehandlers := s_ehandlers s; s_topic_sub := s_topic_sub s; s_ihandlers := s_ihandlers s; s_proc_reg := s_proc_reg s; s_invs := s_invs s; s_last_recv := s_last_recv s; s_closer := s_closer s; s_chunkers := s_chunkers s |}.
Definition set_awaiting s v := {| s_cfg := s_cfg s; s_now := s_now s; s_connected := s_connected s; s_closed := s_closed s; s_peer_closed := s_peer_closed s; s_next := s_next s; s_busy := s_busy s; s_awaiting := v; s_finishing := s_finishing s; s_ehandlers := s_ehandlers s; s_topic_sub := s_topic_sub s; s_ihandlers := s_ihandlers s; s_proc_reg := s_proc_reg s; s_invs := s_invs s; s_last_recv := s_last_recv s; s_closer := s_closer s; s_chunkers := s_chunkers s |}.
Definition set_finishing s v := {| s_cfg := s_cfg s; s_now := s_now s; s_connected := s_connected s; s_closed := s_closed s; s_peer_closed := s_peer_closed s; s_next := s_next s; s_busy := s_busy s; s_awaiting := s_awaiting s; s_finishing := v; s_ehandlers := s_ehandlers s; s_topic_sub := s_topic_sub s; s_ihandlers := s_ihandlers s; s_proc_reg := s_proc_reg s; s_invs := s_invs s; s_last_recv := s_last_recv s; s_closer := s_closer s; s_chunkers := s_chunkers s |}.
Definition set_subs s eh ts := {| s_cfg := s_cfg s; s_now := s_now s; s_connected := s_connected s; s_closed := s_closed s; s_peer_closed := s_peer_closed s; s_next := s_next s; s_busy := s_busy s; s_awaiting := s_awaiting s; s_finishing := s_finishing s; s_ehandlers := eh; s_topic_sub := ts; s_ihandlers := s_ihandlers s; s_proc_reg := s_proc_reg s; s_invs := s_invs s; s_last_recv := s_last_recv s; s_closer := s_closer s; s_chunkers := s_chunkers s |}.
Definition set_regs s ih pr := {| s_cfg := s_cfg s; s_now := s_now s; s_connected := s_connected s; s_closed := s_closed s; s_peer_closed := s_peer_closed s; s_next := s_next s; s_busy := s_busy s; s_awaiting := s_awaiting s; s_finishing := s_finishing s; s_ehandlers := s_ehandlers s; s_topic_sub := s_topic_sub s; s_ihandlers := ih; s_proc_reg := pr; s_invs := s_invs s; s_last_recv := s_last_recv s; s_closer := s_closer s; s_chunkers := s_chunkers s |}.
Definition set_invs s v := {| s_cfg := s_cfg s; s_now := s_now s; s_connected := s_connected s; s_closed := s_closed s; s_peer_closed := s_peer_closed s; s_next := s_next s; s_busy := s_busy s; s_awaiting := s_awaiting s; s_finishing := s_finishing s; s_ehandlers := s_ehandlers s; s_topic_sub := s_topic_sub s; s_ihandlers := s_ihandlers s; s_proc_reg := s_proc_reg s; s_invs := v; s_last_recv := s_last_recv s; s_closer := s_closer s; s_chunkers := s_chunkers s |}.
Definition set_last_recv s v := {| s_cfg := s_cfg s; s_now := s_now s; s_connected := s_connected s; s_closed := s_closed s; s_peer_closed := s_peer_closed s; s_next := s_next s; s_busy := s_busy s; s_awaiting := s_awaiting s; s_finishing := s_finishing s; s_ehandlers := s_ehandlers s; s_topic_sub := s_topic_sub s; s_ihandlers := s_ihandlers s; s_proc_reg := s_proc_reg s; s_invs := s_invs s; s_last_recv := v; s_closer := s_closer s; s_chunkers := s_chunkers s |}.
Definition set_closer s v := {| s_cfg := s_cfg s; s_now := s_now s; s_connected := s_connected s; s_closed := s_closed s; s_peer_closed := s_peer_closed s; s_next := s_next s; s_busy := s_busy s; s_awaiting := s_awaiting s; s_finishing := s_finishing s; s_ehandlers := s_ehandlers s; s_topic_sub := s_topic_sub s; s_ihandlers := s_ihandlers s; s_proc_reg := s_proc_reg s; s_invs := s_invs s; s_last_recv := s_last_recv s; s_closer := v; s_chunkers := s_chunkers s |}.
Definition set_chunkers s v := {| s_cfg := s_cfg s; s_now := s_now s; s_connected := s_connected s; s_closed := s_closed s; s_peer_closed := s_peer_closed s; s_next := s_next s; s_busy := s_busy s; s_awaiting := s_awaiting s; s_finishing := s_finishing s; s_ehandlers := s_ehandlers s; s_topic_sub := s_topic_sub s; s_ihandlers := s_ihandlers s; s_proc_reg := s_proc_reg s; s_invs := s_invs s; s_last_recv := s_last_recv s; s_closer := s_closer s; s_chunkers := v |}.

(* association lists *)
Fixpoint alookup {A} (l : list (N * A)) (k : N) : option A :=
  match l with [] => None | (k', v) :: r => if N.eqb k k' then Some v else alookup r k end.
Fixpoint aremove {A} (l : list (N * A)) (k : N) : list (N * A) :=
  match l with [] => [] | (k', v) :: r => if N.eqb k k' then aremove r k else (k', v) :: aremove r k end.
Definition aset {A} (l : list (N * A)) (k : N) (v : A) : list (N * A) := (k, v) :: aremove l k.

Fixpoint mem_nat (x : nat) (l : list nat) : bool :=
  match l with [] => false | y :: r => Nat.eqb x y || mem_nat x r end.
Fixpoint remove_nat (x : nat) (l : list nat) : list nat :=
  match l with [] => [] | y :: r => if Nat.eqb x y then remove_nat x r else y :: remove_nat x r end.

(* waiter of goroutine o *)
Fixpoint waiter_of (l : list (id * waiter)) (o : nat) : option (id * waiter) :=
  match l with
  | [] => None
  | (k, w) :: r => if Nat.eqb (w_o w) o then Some (k, w) else waiter_of r o
  end.

Fixpoint fin_of (l : list finishing) (o : nat) : option finishing :=
  match l with [] => None | f :: r => if Nat.eqb (f_o f) o then Some f else fin_of r o end.
Fixpoint fin_remove (l : list finishing) (o : nat) : list finishing :=
  match l with [] => [] | f :: r => if Nat.eqb (f_o f) o then fin_remove r o else f :: fin_remove r o end.

(* ------------------------------------------------------------------ *)
(* wamp.Session.IsNewRecvID (mirrors wamp/session.go; the arithmetic is   *)
(* property C19's; here only its use by the client matters)            *)

Definition max_id : N := 9007199254740992.   (* 2^53 *)
Definition delta_id : N := 500.

Definition is_new_recv_id (last rid : id) : bool :=
  if (rid =? 0) || (max_id <? rid) then false
  else if last =? 0 then true
  else if last <? rid then true
  else if rid =? last then false
  else (max_id - (last - rid)) <? delta_id.

Definition update_last_recv (s : state) (rid : id) : state :=
  if is_new_recv_id (s_last_recv s) rid then set_last_recv s rid else s.

(* ------------------------------------------------------------------ *)
(* Invocation records                                                  *)

Definition inv_key_eqb (i : inv) (reg req : id) : bool := (i_reg i =? reg) && (i_req i =? req).

Fixpoint inv_find (l : list inv) (reg req : id) : option inv :=
  match l with [] => None | i :: r => if inv_key_eqb i reg req then Some i else inv_find r reg req end.
(* by request id only (invHandlerKill, progGate, and the handler's identity) *)
Fixpoint inv_by_req (l : list inv) (req : id) : option inv :=
  match l with [] => None | i :: r => if i_req i =? req then Some i else inv_by_req r req end.
Fixpoint inv_replace (l : list inv) (i' : inv) : list inv :=
  match l with
  | [] => []
  | i :: r => if inv_key_eqb i (i_reg i') (i_req i') then i' :: r else i :: inv_replace r i'
  end.
Definition inv_gc (l : list inv) : list inv :=
  filter (fun i => i_queue_alive i || i_outer i || i_running i) l.

Definition upd_inv (i : inv) (queue : list chunk) (qa running more cancelled outer recvprog : bool) : inv :=
  {| i_req := i_req i; i_reg := i_reg i; i_h := i_h i; i_queue := queue; i_queue_alive := qa;
     i_running := running; i_more := more; i_cancelled := cancelled; i_outer := outer;
     i_recvprog := recvprog; i_deadline := i_deadline i |}.

(* the client stops: every outer goroutine leaves silently and cancels its context *)
Definition inv_disconnect (i : inv) : inv :=
  upd_inv i (i_queue i) (i_queue_alive i) (i_running i) (i_more i) true false false.

(* ------------------------------------------------------------------ *)
(* Step                                                                *)

Inductive outcome :=
| Ok (s : state) (outs : list out)
| Invalid                 (* the label is not enabled in this state *)
| Panic (site : nat).

Definition timed (p : op) : bool :=
  match p with OpCall _ _ _ | OpCallProg _ _ _ _ => false | _ => true end.

Definition unbusy (s : state) (o : nat) : state := set_busy s (remove_nat o (s_busy s)).

(* classification of a final message by the API function that receives it
   (everything but the SUBSCRIBED / REGISTERED / RESULT cases, which need
   the API goroutine's own further steps) *)
Definition immediate_ret (p : op) (rid : id) (m : rmsg) : option ret :=
  match p, m with
  | OpSubscribe _, RSubscribed _ _ => None
  | OpRegister _, RRegistered _ _ => None
  | OpCall _ _ _, RResult _ _ _ => None
  | OpCallProg _ _ _ _, RResult _ _ _ => None
  | OpCall _ _ _, RError r t => Some (RetRpcErr r t)
  | OpCallProg _ _ _ _, RError r t => Some (RetRpcErr r t)
  | OpUnsubscribe _, RUnsubscribed _ => Some RetOk
  | OpUnregister _, RUnregistered _ => Some RetOk
  | OpPublish _ _, RPublished _ => Some RetOk
  | _, RError _ t => Some (RetErrReply t)
  | _, _ => Some RetUnexpected
  end.

Definition is_call (p : op) : bool :=
  match p with OpCall _ _ _ | OpCallProg _ _ _ _ => true | _ => false end.
Definition has_prog (p : op) : bool :=
  match p with OpCall _ h _ => h | OpCallProg _ h _ _ => h | _ => false end.

(* every goroutine that is blocked in waitForReply / the first select of
   waitForReplyWithCancel sees Done and returns ErrNotConn; the ones waiting
   for the answer to their CANCEL only watch their timer *)
Fixpoint disconnect_waiters (l : list (id * waiter)) : list (id * waiter) * list out * list nat :=
  match l with
  | [] => ([], [], [])
  | (k, w) :: r =>
      let '(l', outs, os) := disconnect_waiters r in
      match w_phase w with
      | WWaiting => (l', OReturn (w_o w) k RetNotConn :: outs, w_o w :: os)
      | WCancelWait _ => ((k, w) :: l', outs, os)
      end
  end.

Fixpoint remove_nats (xs : list nat) (l : list nat) : list nat :=
  match xs with [] => l | x :: r => remove_nats r (remove_nat x l) end.

Definition finish_close (s : state) (o : nat) : state * list out :=
  (set_peer_closed (set_closer s None) true, [OCloseRet o false; OPeerClosed]).

(* run() returns: Done is signalled, waiters and invocation goroutines see it *)
Definition disconnect (s : state) : state * list out :=
  if s_connected s then
    let '(aw, outs, os) := disconnect_waiters (s_awaiting s) in
    let s1 := set_connected s false in
    let s2 := set_awaiting s1 aw in
    let s3 := set_busy s2 (remove_nats os (s_busy s2)) in
    let s5 := set_invs s3 (inv_gc (map inv_disconnect (s_invs s3))) in
    match s_closer s5 with
    | Some (o, _) => let '(s6, o6) := finish_close s5 o in (s6, ODone :: outs ++ o6)
    | None => (s5, ODone :: outs)
    end
  else (s, []).

Definition mode_of (s : state) := cfg_mode (s_cfg s).

Definition timeout_deadline (s : state) (details : dict) : option N :=
  let t := as_int64 (dget details "timeout") in
  if (0 <? t)%Z then Some (s_now s + Z.to_N t) else None.

(* --- the run goroutine takes one message ---------------------------- *)

Definition step_reply (s : state) (rid : id) (m : rmsg) : outcome :=
  match alookup (s_awaiting s) rid with
  | None => Ok s []
  | Some w =>
      match w_phase w with
      | WCancelWait dl =>
          match m with
          | RError _ _ =>
              Ok (unbusy (set_awaiting s (aremove (s_awaiting s) rid)) (w_o w))
                 [OReturn (w_o w) rid (RetCtx dl)]
          | _ => Ok s []
          end
      | WWaiting =>
          let progressive :=
            match m with
            | RResult _ d _ => has_prog (w_op w) && bool_ok (dget d "progress")
            | _ => false
            end in
          if progressive then
            match m with
            | RResult _ _ a => Ok s [OProgress (w_o w) rid (atag a) (List.length a)]
            | _ => Ok s []
            end
          else
            let s1 := set_awaiting s (aremove (s_awaiting s) rid) in
            match immediate_ret (w_op w) rid m with
            | Some r => Ok (unbusy s1 (w_o w)) [OReturn (w_o w) rid r]
            | None =>
                Ok (set_finishing s1 ({| f_o := w_o w; f_id := rid; f_op := w_op w; f_msg := m |} :: s_finishing s1)) []
            end
      end
  end.

Definition step_event (U : unpackers) (s : state) (sub pub : id) (details : dict) (args : list value) : outcome :=
  match alookup (s_ehandlers s) sub with
  | None => Ok s []
  | Some h =>
      match ppt_scheme details with
      | None => Ok s [OEvent h sub pub (atag args) (List.length args)]
      | Some sch =>
          if scheme_valid sch then
            match unpack U sch details args with
            | ROk a => Ok s [OEvent h sub pub (atag a) (List.length a)]
            | RErr _ => Ok s []
            | RPanic site => Panic site
            end
          else Ok s []
      end
  end.

Definition step_invocation (U : unpackers) (s : state) (req reg : id) (details : dict) (args : list value) : outcome :=
  match alookup (s_ihandlers s) reg with
  | None => Ok s [OSend (CErrorInv req IENoHandler)]
  | Some h =>
      let cont (a : list value) : outcome :=
        let c := {| c_tag := atag a; c_n := List.length a; c_progress := bool_ok (dget details "progress") |} in
        let fresh : outcome :=
          (* no queue for (registration, request): a new run, if the id is new.
             The newest record goes first: the Go maps keyed by the request id
             (invHandlerKill, progGate) are overwritten by it. *)
          if is_new_recv_id (s_last_recv s) req then
            let s1 := set_last_recv s req in
            let i := {| i_req := req; i_reg := reg; i_h := h; i_queue := [c]; i_queue_alive := true;
                        i_running := false; i_more := true; i_cancelled := false; i_outer := true;
                        i_recvprog := bool_ok (dget details "receive_progress");
                        i_deadline := timeout_deadline s details |} in
            Ok (set_invs s1 (i :: s_invs s1)) []
          else Ok s [] in
        match inv_find (s_invs s) reg req with
        | Some i =>
            if i_queue_alive i then
              let s1 := update_last_recv s req in
              Ok (set_invs s1 (inv_replace (s_invs s1)
                    (upd_inv i (i_queue i ++ [c]) true (i_running i) (i_more i) (i_cancelled i) (i_outer i) (i_recvprog i)))) []
            else fresh
        | None => fresh
        end in
      match ppt_scheme details with
      | None => cont args
      | Some sch =>
          if scheme_valid sch then
            match unpack U sch details args with
            | ROk a => cont a
            | RErr e => Ok s [OSend (CErrorInv req (IEUnpack e))]
            | RPanic site => Panic site
            end
          else Ok s [OSend (CErrorInv req IEScheme)]
      end
  end.

(* cancel the context of invocation i (INTERRUPT, timeout): the outer
   goroutine answers ERROR canceled if it has not answered yet *)
Definition cancel_inv (s : state) (i : inv) : state * list out :=
  let outs := if i_outer i && negb (i_cancelled i) && s_connected s then [OSend (CErrorInv (i_req i) IECanceled)] else [] in
  let i' := upd_inv i (i_queue i) (i_queue_alive i) (i_running i) (i_more i) true false false in
  (set_invs s (inv_gc (inv_replace (s_invs s) i')), outs).

Definition step_interrupt (s : state) (req : id) : outcome :=
  let s1 := update_last_recv s req in
  match inv_by_req (s_invs s1) req with
  | Some i => if i_outer i then let '(s2, outs) := cancel_inv s1 i in Ok s2 outs else Ok s1 []
  | None => Ok s1 []
  end.

Definition step_router (U : unpackers) (s : state) (m : rmsg) : outcome :=
  if negb (s_connected s) then Invalid else
  match m with
  | RSubscribed r _ | RUnsubscribed r | RRegistered r _ | RUnregistered r | RPublished r
  | RResult r _ _ | RError r _ => step_reply s r m
  | REvent sub pub d a => step_event U s sub pub d a
  | RInvocation req reg d a => step_invocation U s req reg d a
  | RInterrupt req => step_interrupt s req
  | RGoodbye | RAbort => let '(s1, outs) := disconnect s in Ok s1 outs
  | ROther => Ok s []
  end.

(* --- API goroutines ------------------------------------------------- *)

Definition new_waiter (s : state) (o : nat) (p : op) : waiter :=
  {| w_o := o; w_op := p; w_phase := WWaiting;
     w_timer := if timed p then Some (s_now s + cfg_rt (s_cfg s)) else None;
     w_ctx := match p with OpCall _ _ d => d | OpCallProg _ _ _ d => d | _ => None end |}.

Definition request_msg (p : op) (rid : id) (sub_or_reg : id) : cmsg :=
  match p with
  | OpSubscribe t => CSubscribe rid t
  | OpUnsubscribe _ => CUnsubscribe rid sub_or_reg
  | OpRegister pr => CRegister rid pr
  | OpUnregister _ => CUnregister rid sub_or_reg
  | OpPublish t a => CPublish rid t a
  | OpCall pr h _ => CCall rid pr false h
  | OpCallProg pr h more _ => CCall rid pr more h
  | OpBadCall => CAbort
  end.

Definition step_api_start (s : state) (o : nat) (p : op) (rid : id) : outcome :=
  if mem_nat o (s_busy s) then Invalid else
  let enqueue (s0 : state) (x : id) : outcome :=
    let nid := s_next s0 + 1 in
    if negb (rid =? nid) then Invalid else
    let s1 := set_next s0 nid in
    let s2 := set_busy s1 (o :: s_busy s1) in
    let s3 := set_awaiting s2 (aset (s_awaiting s2) nid (new_waiter s2 o p)) in
    let s4 := match p with
              | OpCallProg pr hp true _ => set_chunkers s3 ((o, (nid, pr, hp)) :: s_chunkers s3)
              | _ => s3
              end in
    Ok s4 [OSend (request_msg p nid x)] in
  match p with
  | OpUnsubscribe t =>
      match alookup (s_topic_sub s) t with
      | None => if rid =? 0 then Ok s [OReturn o 0 RetNotSub] else Invalid
      | Some sub =>
          let s1 := set_subs s (aremove (s_ehandlers s) sub) (aremove (s_topic_sub s) t) in
          if s_connected s1 then enqueue s1 sub
          else if rid =? 0 then Ok s1 [OReturn o 0 RetNotConn] else Invalid
      end
  | OpUnregister pr =>
      match alookup (s_proc_reg s) pr with
      | None => if rid =? 0 then Ok s [OReturn o 0 RetNotReg] else Invalid
      | Some reg =>
          let s1 := set_regs s (aremove (s_ihandlers s) reg) (aremove (s_proc_reg s) pr) in
          if s_connected s1 then enqueue s1 reg
          else if rid =? 0 then Ok s1 [OReturn o 0 RetNotConn] else Invalid
      end
  | OpPublish t false =>
      if s_connected s then
        let nid := s_next s + 1 in
        if negb (rid =? nid) then Invalid else
        Ok (set_next s nid) [OSend (CPublish nid t false); OReturn o nid RetOk]
      else if rid =? 0 then Ok s [OReturn o 0 RetNotConn] else Invalid
  | OpBadCall =>
      (* the request id is taken, nothing is sent, no reply is expected (the
         caller never learns the id: the label carries 0) *)
      if negb (rid =? 0) then Invalid else
      if s_connected s then
        Ok (set_next s (s_next s + 1)) [OReturn o 0 (RetLocal E_SCHEME_INVALID)]
      else Ok s [OReturn o 0 RetNotConn]
  | OpCallProg _ _ _ _ =>
      if s_connected s then
        if cfg_progcall (s_cfg s) then enqueue s 0
        else if rid =? 0 then Ok s [OReturn o 0 (RetLocal E_PROGCALL_UNSUPPORTED)] else Invalid
      else if rid =? 0 then Ok s [OReturn o 0 RetNotConn] else Invalid
  | _ =>
      if s_connected s then enqueue s 0
      else if rid =? 0 then Ok s [OReturn o 0 RetNotConn] else Invalid
  end.

(* the goroutine that got SUBSCRIBED / REGISTERED / RESULT completes *)
Definition step_api_finish (U : unpackers) (s : state) (o : nat) : outcome :=
  match fin_of (s_finishing s) o with
  | None => Invalid
  | Some f =>
      let s1 := unbusy (set_finishing s (fin_remove (s_finishing s) o)) o in
      match f_op f, f_msg f with
      | OpSubscribe t, RSubscribed _ sub =>
          Ok (set_subs s1 (aset (s_ehandlers s1) sub o) (aset (s_topic_sub s1) t sub))
             [OReturn o (f_id f) (RetSub sub)]
      | OpRegister pr, RRegistered _ reg =>
          Ok (set_regs s1 (aset (s_ihandlers s1) reg o) (aset (s_proc_reg s1) pr reg))
             [OReturn o (f_id f) (RetReg reg)]
      | _, RResult r d a =>
          match ppt_scheme d with
          | None => Ok s1 [OReturn o (f_id f) (RetResult r (atag a) (List.length a) (bool_ok (dget d "progress")))]
          | Some sch =>
              if negb (cfg_ppt (s_cfg s1)) then
                (* protocol violation: ABORT, stop receiving *)
                let '(s2, outs) := disconnect s1 in
                Ok s2 (OSend CAbort :: OReturn o (f_id f) (RetLocal E_PPT_UNSUPPORTED) :: outs)
              else if scheme_valid sch then
                match unpack U sch d a with
                | ROk a' => Ok s1 [OReturn o (f_id f) (RetResult r (atag a') (List.length a') (bool_ok (dget d "progress")))]
                | RErr e => Ok s1 [OReturn o (f_id f) (RetLocal e)]
                | RPanic site => Panic site
                end
              else Ok s1 [OReturn o (f_id f) (RetLocal E_SCHEME_INVALID)]
          end
      | _, _ => Invalid
      end
  end.

Definition set_waiter (s : state) (k : id) (w : waiter) : state :=
  set_awaiting s (aset (s_awaiting s) k w).

Definition step_timer (s : state) (o : nat) : outcome :=
  match waiter_of (s_awaiting s) o with
  | None => Invalid
  | Some (k, w) =>
      match w_timer w with
      | Some dl =>
          if dl <=? s_now s then
            Ok (unbusy (set_awaiting s (aremove (s_awaiting s) k)) o) [OReturn o k RetTimeout]
          else Invalid
      | None => Invalid
      end
  end.

Definition step_ctx (s : state) (o : nat) (expired : bool) : outcome :=
  match waiter_of (s_awaiting s) o with
  | None => Invalid
  | Some (k, w) =>
      if negb (is_call (w_op w)) then Invalid else
      match w_phase w with
      | WCancelWait _ => Invalid
      | WWaiting =>
          let ok := if expired then match w_ctx w with Some dl => dl <=? s_now s | None => false end else true in
          if negb ok then Invalid else
          let w' := {| w_o := o; w_op := w_op w; w_phase := WCancelWait expired;
                       w_timer := Some (s_now s + cfg_rt (s_cfg s)); w_ctx := w_ctx w |} in
          Ok (set_waiter s k w') [OSend (CCancel k (mode_of s))]
      end
  end.

(* --- invocation goroutines ------------------------------------------ *)

Definition step_inv_start (s : state) (req : id) : outcome :=
  match inv_by_req (s_invs s) req with
  | None => Invalid
  | Some i =>
      if i_queue_alive i && negb (i_running i) && i_more i then
        match i_queue i with
        | [] => Invalid
        | c :: q =>
            let i' := upd_inv i q true true (c_progress c) (i_cancelled i) (i_outer i) (i_recvprog i) in
            Ok (set_invs s (inv_replace (s_invs s) i'))
               [OHandler (i_h i) req (i_reg i) (c_tag c) (c_n c) (c_progress c) (i_cancelled i)]
        end
      else Invalid
  end.

(* the inner goroutine leaves (client stopped / context cancelled / no more
   chunks expected) and cleans the queue up *)
Definition step_inv_exit (s : state) (req : id) : outcome :=
  match inv_by_req (s_invs s) req with
  | None => Invalid
  | Some i =>
      if i_queue_alive i && negb (i_running i) && (i_cancelled i || negb (s_connected s) || negb (i_more i)) then
        let i' := upd_inv i [] false false (i_more i) (i_cancelled i) (i_outer i) (i_recvprog i) in
        Ok (set_invs s (inv_gc (inv_replace (s_invs s) i'))) []
      else Invalid
  end.

Definition step_handler_return (s : state) (req : id) (r : hres) : outcome :=
  match inv_by_req (s_invs s) req with
  | None => Invalid
  | Some i =>
      if negb (i_running i) then Invalid else
      let live := i_outer i && negb (i_cancelled i) && s_connected s in
      match r with
      | HOmit =>
          let i' := upd_inv i (i_queue i) (i_queue_alive i) false (i_more i) (i_cancelled i) (i_outer i) (i_recvprog i) in
          Ok (set_invs s (inv_gc (inv_replace (s_invs s) i'))) []
      | HOk t =>
          let outs := if live then [OSend (CYield req t false)] else [] in
          (* the outer goroutine is done and cancels the context *)
          let i' := upd_inv i (i_queue i) (i_queue_alive i) false (i_more i) true false false in
          Ok (set_invs s (inv_gc (inv_replace (s_invs s) i'))) outs
      | HErr | HCanceled =>
          let outs := if live then [OSend (CErrorInv req (match r with HErr => IEApp | _ => IECanceled end))] else [] in
          (* the inner goroutine returns at once: queue cleaned up *)
          let i' := upd_inv i [] false false (i_more i) true false false in
          Ok (set_invs s (inv_gc (inv_replace (s_invs s) i'))) outs
      end
  end.

Definition step_send_prog (s : state) (req : id) (t : Z) : outcome :=
  match inv_by_req (s_invs s) req with
  | None => Invalid
  | Some i =>
      if negb (i_running i) then Invalid else
      if i_recvprog i && i_outer i && negb (i_cancelled i) then
        Ok s [OSend (CYield req t true); OSProgRet req true]
      else Ok s [OSProgRet req false]
  end.

Definition step_inv_timeout (s : state) (req : id) : outcome :=
  match inv_by_req (s_invs s) req with
  | None => Invalid
  | Some i =>
      match i_deadline i with
      | Some dl =>
          if (dl <=? s_now s) && negb (i_cancelled i) && i_outer i then
            let '(s1, outs) := cancel_inv s i in Ok s1 outs
          else Invalid
      | None => Invalid
      end
  end.

(* --- CallProgressive feeder ------------------------------------------ *)

Fixpoint chunker_of (l : list (nat * (id * N * bool))) (o : nat) : option (id * N * bool) :=
  match l with [] => None | (o', k) :: r => if Nat.eqb o o' then Some k else chunker_of r o end.

(* The business side hands the feeder goroutine the next chunk (or an error).
   The feeder does not watch Done: once Close() has closed the peer its send
   panics (send on closed channel) -- client.go:890/917/924, not repaired,
   see fixes/C17-known-callprogressive-feeder.md. *)
Definition step_chunk (s : state) (o : nat) (more : bool) (err : bool) : outcome :=
  match chunker_of (s_chunkers s) o with
  | None => Invalid
  | Some (k, proc, hp) =>
      if s_peer_closed s then Panic 924 else
      let rest := filter (fun c => negb (Nat.eqb (fst c) o)) (s_chunkers s) in
      if err then Ok (set_chunkers s rest) [OSend (CCancel k MKillNoWait)]
      else Ok (if more then s else set_chunkers s rest) [OSend (CCall k proc more hp)]
  end.

(* --- Close ------------------------------------------------------------ *)

Definition step_close_start (s : state) (o : nat) : outcome :=
  if s_closed s then Ok s [OCloseRet o true]
  else
    let s1 := set_closed s true in
    if s_connected s1 then
      Ok (set_closer s1 (Some (o, s_now s1 + 2 * cfg_rt (s_cfg s1)))) [OSend CGoodbye]
    else
      let '(s2, outs) := finish_close s1 o in Ok s2 outs.

Definition step_close_timer (s : state) : outcome :=
  match s_closer s with
  | Some (o, dl) =>
      if dl <=? s_now s then let '(s1, outs) := disconnect s in Ok s1 outs else Invalid
  | None => Invalid
  end.

Definition step (U : unpackers) (s : state) (l : label) : outcome :=
  match l with
  | Tick t => if s_now s <=? t then Ok (set_now s t) [] else Invalid
  | ApiStart o p rid => step_api_start s o p rid
  | RouterMsg m => step_router U s m
  | TimerFire o => step_timer s o
  | CtxCancel o => step_ctx s o false
  | CtxExpire o => step_ctx s o true
  | ApiFinish o => step_api_finish U s o
  | InvStart req => step_inv_start s req
  | InvExit req => step_inv_exit s req
  | HandlerReturn req r => step_handler_return s req r
  | SendProg req t => step_send_prog s req t
  | InvTimeout req => step_inv_timeout s req
  | ChunkSend o more => step_chunk s o more false
  | ChunkErr o => step_chunk s o false true
  | CloseStart o => step_close_start s o
  | CloseTimer => step_close_timer s
  | TransportEnd => if s_connected s then let '(s1, outs) := disconnect s in Ok s1 outs else Invalid
  | SetMode r =>
      (* the LAST accepted setting decides the mode of a later CANCEL; "" is killnowait *)
      match r with
      | MRDefault => Ok (set_mode s MKillNoWait) [OSetMode true]
      | MRSet m => Ok (set_mode s m) [OSetMode true]
      | MRInvalid => Ok s [OSetMode false]
      end
  end.

(* ------------------------------------------------------------------ *)
(* Executions: the list of events (labels that were enabled, each followed *)
(* by its outputs).  A label that is not enabled is skipped, so that every  *)
(* label list is an execution; a panic stops the client.               *)

Inductive event := ELab (l : label) | EOut (o : out).

Record exec_state := { x_state : state; x_events : list event; x_panic : option nat }.

Definition exec_step (U : unpackers) (x : exec_state) (l : label) : exec_state :=
  match x_panic x with
  | Some _ => x
  | None =>
      match step U (x_state x) l with
      | Ok s' outs => {| x_state := s'; x_events := x_events x ++ ELab l :: map EOut outs; x_panic := None |}
      | Invalid => x
      | Panic site => {| x_state := x_state x; x_events := x_events x ++ [ELab l]; x_panic := Some site |}
      end
  end.

Definition exec (U : unpackers) (c : config) (tr : list label) : exec_state :=
  fold_left (exec_step U) tr {| x_state := init c; x_events := []; x_panic := None |}.
