(* Client/ClientCases.v — in-kernel correspondence check (definitions only).

   The harness (go/cmd/clientdrive) runs the real client under a schedule of
   BURSTS: labels released together at one virtual instant, followed by
   quiescence.  For every burst it reports what was observed.  [explain]
   searches the interleavings of the burst's labels and of the internal
   labels they enable for one whose canonicalised outputs equal the observed
   ones; the states reached that way are carried into the next burst.
   Evaluated by vm_compute on the cases the check writes to coq/cases/. *)

From Coq Require Import List NArith ZArith Bool String Ascii Arith.
From Nexus Require Import Client.ClientModel.
Import ListNotations.
Open Scope N_scope.

Scheme Equality for cancel_mode.
Scheme Equality for inv_err.
Scheme Equality for cmsg.
Scheme Equality for ret.
Scheme Equality for out.

(* ------------------------------------------------------------------ *)
(* Canonical form of the outputs of one burst: stable sort by the key of  *)
(* the goroutine (or message stream) inside which order is meaningful.   *)

Definition cmsg_req (m : cmsg) : N :=
  match m with
  | CSubscribe r _ | CUnsubscribe r _ | CRegister r _ | CUnregister r _ | CPublish r _ _
  | CCall r _ _ _ | CCancel r _ | CYield r _ _ | CErrorInv r _ => r
  | CGoodbye | CAbort => 0
  end.

Definition mode_code (m : cancel_mode) : N :=
  match m with MKill => 0 | MKillNoWait => 1 | MSkip => 2 end.

(* key = class * 2^60 + index * 4 + minor *)
Definition mk (cls idx minor : N) : N := cls * 1152921504606846976 + idx * 4 + minor.

Definition okey (o : out) : N :=
  match o with
  | OEvent _ _ _ _ _ => mk 1 0 0
  | OHandler _ req _ _ _ _ _ => mk 2 req 0
  | OProgress o _ _ _ => mk 3 (N.of_nat o) 0
  | OReturn o _ _ => mk 3 (N.of_nat o) 0
  | OSend (CCancel r m) => mk 4 r (mode_code m)
  | OSend (CCall r _ _ _) => mk 5 r 0
  | OSend (CYield r _ true) => mk 6 r 0
  | OSend (CYield r _ false) => mk 7 r 0
  | OSend (CErrorInv r _) => mk 7 r 0
  | OSend m => mk 8 (cmsg_req m) 0
  | ODone => mk 9 0 0
  | OCloseRet o _ => mk 10 (N.of_nat o) 0
  | OPeerClosed => mk 11 0 0
  | OSetMode _ => mk 13 0 0
  | OSProgRet r _ => mk 12 r 0
  end.

Fixpoint insert_out (o : out) (l : list out) : list out :=
  match l with
  | [] => [o]
  | x :: r => if okey o <? okey x then o :: l else x :: insert_out o r
  end.

(* stable: an element is inserted after the elements with an equal key *)
Definition canon (l : list out) : list out := fold_left (fun acc o => insert_out o acc) l [].

Fixpoint outs_eqb (a b : list out) : bool :=
  match a, b with
  | [], [] => true
  | x :: a', y :: b' => out_beq x y && outs_eqb a' b'
  | _, _ => false
  end.

(* ------------------------------------------------------------------ *)
(* Enabled internal labels                                             *)

Definition due (d : option N) (now : N) : bool :=
  match d with Some t => t <=? now | None => false end.

Definition msg_req (m : rmsg) : option id :=
  match m with
  | RSubscribed r _ | RUnsubscribed r | RRegistered r _ | RUnregistered r | RPublished r
  | RResult r _ _ | RError r _ => Some r
  | _ => None
  end.

Definition targets (msgs : list rmsg) (k : id) : bool :=
  existsb (fun m => match msg_req m with Some r => r =? k | None => false end) msgs.

Definition mentions_o (ls : list label) (o : nat) : bool :=
  existsb (fun l => match l with CtxCancel o' => Nat.eqb o o' | _ => false end) ls.

(* internal labels that are enabled, split into those that commute with
   everything still to come in this burst (taken eagerly, alone) and the rest *)
Definition internal_labels (s : state) (msgs : list rmsg) (others : list label) : list label * list label :=
  let timers :=
    flat_map (fun kw : id * waiter =>
      let '(k, w) := kw in
      (if due (w_timer w) (s_now s) then [(TimerFire (w_o w), negb (targets msgs k) && negb (mentions_o others (w_o w)))] else []) ++
      (match w_phase w with
       | WWaiting => if is_call (w_op w) && due (w_ctx w) (s_now s)
                     then [(CtxExpire (w_o w), negb (targets msgs k) && negb (mentions_o others (w_o w)))] else []
       | _ => []
       end)) (s_awaiting s) in
  let fins := map (fun f => (ApiFinish (f_o f), false)) (s_finishing s) in
  let invs :=
    flat_map (fun i : inv =>
      let can_start := i_queue_alive i && negb (i_running i) && i_more i && negb (match i_queue i with [] => true | _ => false end) in
      let can_exit := i_queue_alive i && negb (i_running i) && (i_cancelled i || negb (s_connected s) || negb (i_more i)) in
      (if can_start then [(InvStart (i_req i), false)] else []) ++
      (if can_exit then [(InvExit (i_req i), negb can_start)] else []) ++
      (if due (i_deadline i) (s_now s) && negb (i_cancelled i) && i_outer i then [(InvTimeout (i_req i), false)] else []))
      (s_invs s) in
  let closer := match s_closer s with Some (_, dl) => if dl <=? s_now s then [(CloseTimer, false)] else [] | None => [] end in
  let all := timers ++ fins ++ invs ++ closer in
  (map fst (filter snd all), map fst (filter (fun x => negb (snd x)) all)).

(* all ways of taking one element out of a list *)
Fixpoint picks {A} (l : list A) : list (A * list A) :=
  match l with
  | [] => []
  | x :: r => (x, r) :: map (fun p => (fst p, x :: snd p)) (picks r)
  end.

Definition apply (U : unpackers) (s : state) (l : label) : option (state * list out) :=
  match step U s l with Ok s' outs => Some (s', outs) | _ => None end.

(* Leaves of the search: every way the burst can unfold until quiescence. *)
Fixpoint explore (U : unpackers) (fuel : nat) (s : state) (msgs : list rmsg) (others : list label)
         (acc : list out) : list (state * list out) :=
  match fuel with
  | O => []
  | S fuel' =>
      let '(eager, lazy) := internal_labels s msgs others in
      match eager with
      | l :: _ =>
          match apply U s l with
          | Some (s', outs) => explore U fuel' s' msgs others (acc ++ outs)
          | None => []
          end
      | [] =>
          let from_msg :=
            match msgs with
            | m :: ms =>
                match step U s (RouterMsg m) with
                | Ok s' outs => explore U fuel' s' ms others (acc ++ outs)
                | Invalid => explore U fuel' s ms others acc   (* run() has exited: never read *)
                | Panic _ => []
                end
            | [] => []
            end in
          let from_others :=
            flat_map (fun p : label * list label =>
              match step U s (fst p) with
              | Ok s' outs => explore U fuel' s' msgs (snd p) (acc ++ outs)
              | Invalid => explore U fuel' s msgs (snd p) acc   (* a no-op in this state *)
              | Panic _ => []
              end) (picks others) in
          let from_internal :=
            flat_map (fun l =>
              match apply U s l with
              | Some (s', outs) => explore U fuel' s' msgs others (acc ++ outs)
              | None => []
              end) lazy in
          match msgs, others, lazy with
          | [], [], [] => [(s, acc)]
          | _, _, _ => from_msg ++ from_others ++ from_internal
          end
      end
  end.

(* a handler that is running while its context is cancelled would have been
   seen to return by the harness (its handlers watch ctx.Done) *)
Definition quiescent_ok (s : state) : bool :=
  forallb (fun i => negb (i_running i && i_cancelled i)) (s_invs s).

Record burst := {
  b_time : N;
  b_msgs : list rmsg;
  b_others : list label;
  b_obs : list out }.

Definition burst_fuel (b : burst) : nat := (40 + 8 * (List.length (b_msgs b) + List.length (b_others b)))%nat.

Fixpoint take {A} (n : nat) (l : list A) : list A :=
  match n, l with O, _ => [] | _, [] => [] | S n', x :: r => x :: take n' r end.

Definition explain_burst (U : unpackers) (cands : list state) (b : burst) : list state :=
  let want := canon (b_obs b) in
  take 48
    (flat_map (fun s =>
       match step U s (Tick (b_time b)) with
       | Ok s0 _ =>
           map fst (filter (fun r => quiescent_ok (fst r) && outs_eqb (canon (snd r)) want)
                           (explore U (burst_fuel b) s0 (b_msgs b) (b_others b) []))
       | _ => []
       end) cands).

(* index of the first burst that no interleaving explains *)
Fixpoint explain_from (U : unpackers) (k : nat) (cands : list state) (bs : list burst) : option nat :=
  match bs with
  | [] => None
  | b :: r =>
      match explain_burst U cands b with
      | [] => Some k
      | cands' => explain_from U (S k) cands' r
      end
  end.

Definition explain (U : unpackers) (c : config) (bs : list burst) : option nat :=
  explain_from U 0 [init c] bs.

(* what the model produces for a burst, for diagnostics *)
Definition predict_burst (U : unpackers) (cands : list state) (b : burst) : list (list out) :=
  flat_map (fun s =>
    match step U s (Tick (b_time b)) with
    | Ok s0 _ => map (fun r => canon (snd r)) (explore U (burst_fuel b) s0 (b_msgs b) (b_others b) [])
    | _ => []
    end) cands.

Fixpoint predict_at (U : unpackers) (k : nat) (cands : list state) (bs : list burst) : list (list out) :=
  match bs with
  | [] => []
  | b :: r =>
      match k with
      | O => take 6 (predict_burst U cands b)
      | S k' => predict_at U k' (explain_burst U cands b) r
      end
  end.

Record case := { k_name : nat; k_cfg : config; k_bursts : list burst }.

Definition failing (U : unpackers) (cs : list case) : list (nat * nat) :=
  flat_map (fun c => match explain U (k_cfg c) (k_bursts c) with
                     | Some k => [(k_name c, k)]
                     | None => [] end) cs.
