#!/usr/bin/env python3
"""Long soak of the router-core correspondence: many seeds per profile, no
proof obligations; prints every disagreement class found.  For `vp run`."""
import json
import os
import sys

sys.path.insert(0, os.path.dirname(os.path.abspath(__file__)))
import common  # noqa: E402
import router_build  # noqa: E402
import router_check  # noqa: E402


def main():
    seeds = int(sys.argv[1]) if len(sys.argv) > 1 else 6
    count = int(sys.argv[2]) if len(sys.argv) > 2 else 2000
    err = router_check.gen()
    model, log = router_build.build_model()
    binp, log2 = router_build.build_harness()
    if not model or not binp:
        print("build failed", err, log[-2000:], log2[-2000:])
        return 3
    total = 0
    classes = {}
    for profile in ["pubsub", "rpc", "lifecycle", "meta", "history", "authz", "realms"]:
        for s in range(seeds):
            out = os.path.join(common.build_dir("runs"), "soak-%s-%d.json" % (profile, s))
            res, log = router_check.run_batch(binp, model, profile, 7000 + s, count, 80, 9, [], True, out)
            if res is None or res.get("stats") is None:
                print("SOAK %s seed %d: harness died: %s" % (profile, s, json.dumps((res or {}).get("crashed"))[:2000]), flush=True)
                continue
            total += res["stats"]["scenarios"]
            for f in res.get("failures") or []:
                mm = f.get("mismatch") or {}
                key = (profile, mm.get("what", ""), tuple(f.get("codes") or []), tuple(m["signature"] for m in f.get("monitors") or []))
                if key not in classes:
                    classes[key] = f
                    print("SOAK NEW CLASS", key, json.dumps(f["scenario"])[:3000], (mm.get("detail") or "")[:1500], flush=True)
            print("SOAK %s seed %d: %d histories, %d failures" % (profile, s, res["stats"]["scenarios"], len(res.get("failures") or [])), flush=True)
    print("SOAK DONE: %d histories, %d failure classes" % (total, len(classes)))
    return 0


if __name__ == "__main__":
    sys.exit(main())
