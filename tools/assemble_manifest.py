#!/usr/bin/env python3
"""Assemble /verif/MANIFEST.json from the per-property fragments
(docs/manifest_<Cxx>.json, written by whoever built that check) and the
router-core entries below.  A property is claimed only when its check module
and its Props file exist; everything else is listed under not_applicable with
the reason."""
import json
import os
import subprocess

VERIF = os.path.dirname(os.path.dirname(os.path.abspath(__file__)))

ROUTER_NOTE = ("Proof level holds for the router-core MODEL (coq/Router): hand-written Gallina mirroring broker.go / dealer.go / realm.go / "
               "publishfilter.go as repaired by the fix: commits. The model is tied to the code (a) by go/cmd/genrouter + Router/GenConform.v "
               "(constants, meta procedure table: re-checked every run) and (b) by the correspondence run: generated histories executed by the "
               "real router in testing/synctest bubbles and by the extracted model, canonicalised observations and table sizes compared after "
               "every op (sampling, not proof). Outside the model: RealmConfig.MetaIncludeSessionDetails, in-process sessions under RequireLocalAuth are remote sessions for the model, queue overflow, transports/serializers, goroutine "
               "interleavings inside the router (C04, C07, C08, C14, C15). Trusted: Coq kernel, ExtrOcamlBasic extraction + ocaml/router/driver.ml, "
               "the harness and its canonicaliser.")

ROUTER = {
    "C01": ("broker_wf invariant over all broker operation sequences, publish_exact (EVENTs = exactly the matching, eligible holders, once each, same "
            "publication id, arguments unchanged), allowed_spec/make_filter facts, stable subscription ids, error branches and frame lemmas; over whole histories of Realm.run "
            "(Props/HistoriesC01.v): step_decomp, realm_sub_discipline / realm_event_only_to_subscriber (gate hypothesis, full without authorizer, refutation when an authorizer rewrites UNSUBSCRIBE), "
            "realm_publish_exact at every reachable state, publication ids monotone; "
            "decided on histories of profile pubsub", "invariant + exact-delivery theorem over the broker model; differential histories"),
    "C02": ("dealer_wf (calls / invocations / invocationByCall in bijection) preserved by every dealer function; reply_owned, final reply consumes the "
            "call, one prompt_* lemma per trigger (unroutable, final YIELD/ERROR, callee gone incl. after a kill-mode cancel, CANCEL skip/killnowait, timer), "
            "junk_harmless; lifted to whole histories of Realm.run in Props/HistoriesC02.v (reply monitor never fails: realm_reply_owned / realm_reply_unique, full without authorizer, "
            "under the gate hypothesis otherwise, with the refuting history when an authorizer refuses a further chunk); decided on histories of profile rpc with the virtual clock", "dealer invariant + per-trigger reply theorems; differential histories with virtual time"),
    "C03": ("best_match_spec (exact, else longest prefix, else longest wildcard), select_spec incl. cyclic round-robin, invocation_spec (payload, ids, "
            "receive_progress, same callee and id for chunks), answer_routing, share_rules, no_route_after_gone; over whole histories (Props/HistoriesC03.v): invocation_ids_increase, "
            "no_invocation_after_unregistered (further chunks excepted, with the refutation of the unexcepted wording)", "dealer routing theorems; differential histories"),
    "C05": ("realm_wf, no_ref_after_leave (a departed session occurs in no table), served_calls_error, testaments_once, empty_when_idle; over whole histories (Props/HistoriesC05.v): ended_session_silent; the check also "
            "compares the sizes of all 16 router tables (verif hook, read inside the owning goroutines) with the model after every op and every way of ending a session",
            "lifecycle invariants; table-size snapshots vs model at every step"),
    "C10": ("for EVERY authorizer function: denied_no_trace, allowed_same, local_exempt, gate_total; decided on histories with generated decision tables "
            "(allow / deny / fail / rewrite per message type, URI, session) installed as a real Authorizer", "theorems quantified over the authorizer function; differential histories with decision tables"),
    "C11": ("frame and non_interference over the router-of-realms model (RouterTop.v), same_ids_no_confusion; decided on 2-4 realms running the same traffic "
            "with colliding ids, catch-all observers in each realm", "non-interference theorem; multi-realm differential histories"),
    "C12": ("event_disclose_iff / invocation_disclose_iff, disallowed disclose refused, details a function of the recipient only; the harness additionally "
            "checks on the real router that delivered messages never change after delivery and that in-process recipients share no payload object",
            "disclosure iff-theorems; aliasing and mutation monitors on the real router"),
    "C13": ("cancel_skip / killnowait / kill / bad_mode / noop, timeout_forwarded_iff, timeout_exact (the timeout ERROR only from a timer whose deadline "
            "was reached while the call was pending); virtual clock: the ERROR must appear at exactly t0+timeout", "cancel-mode and timer theorems; virtual-time differential histories"),
    "C18": ("count_is_length, listed_fetchable, lookup_match_agree (registration.match = the registration a CALL is routed to; subscription.match = "
            "the subscriptions a PUBLISH delivers through), meta_event_order, not_echoed, ineffective_silent, kill_exact, testament_api", "meta API theorems; differential histories with meta calls at every position"),
    "C20": ("store_is_last_N, restricted_never_stored, retention_independent_of_subscribers, query_spec (limit before reverse, bounds), "
            "query_numkind_invariant; over whole histories (Props/HistoriesC20.v): realm_store_is_last_N, realm_get_events_sound; histories with ring sizes 1-5, churn, all filter combinations and numeric kinds", "ring-buffer and query theorems; differential histories"),
}


def router_entry(pid):
    text, tech = ROUTER[pid]
    return {
        "property_id": pid,
        "quick_cmd": "./check %s quick" % pid,
        "thorough_cmd": "./check %s thorough" % pid,
        "evidence_file": "/verif/evidence/%s.json" % pid,
        "replay_cmd_template": "./check %s --replay {path}" % pid,
        "engine": "rocq + modelrun + drive",
        "level_claimed": {"category": "proof",
                          "text": "Machine-checked theorems (coq/Props/%s.v) over the executable router-core model, for all states and operation sequences: %s." % (pid, text),
                          "design_ref": "DESIGN.md section 7 %s, section 5" % pid},
        "level_note": ROUTER_NOTE,
        "technique": "Coq proofs (induction over operation lists, invariants) over a hand-written Gallina model; " + tech,
    }


def main():
    props = [json.loads(l) for l in open(os.path.join(VERIF, "properties.jsonl"))]
    checks, na = [], []
    for p in props:
        pid = p["id"]
        mod = os.path.join(VERIF, "tools", "checks", pid.lower() + ".py")
        prop = os.path.join(VERIF, "coq", "Props", pid + ".v")
        frag = os.path.join(VERIF, "docs", "manifest_%s.json" % pid)
        if not (os.path.exists(mod) and os.path.exists(prop)):
            na.append({"property_id": pid, "reason": "check still being built in this round (model, theorems and harness in progress; see DESIGN.md section 7 %s)" % pid})
            continue
        if pid in ROUTER:
            checks.append(router_entry(pid))
        elif os.path.exists(frag):
            e = json.load(open(frag))
            e["property_id"] = pid
            if isinstance(e.get("engine"), list):
                e["engine"] = " + ".join(str(x) for x in e["engine"])
            for k in list(e):
                if k not in ("property_id", "quick_cmd", "thorough_cmd", "evidence_file", "replay_cmd_template", "engine", "level_claimed", "level_note", "technique"):
                    del e[k]
            for k in ("level_note", "technique", "quick_cmd", "thorough_cmd", "replay_cmd_template", "evidence_file"):
                if k in e and not isinstance(e[k], str):
                    e[k] = json.dumps(e[k])
            checks.append(e)
        else:
            na.append({"property_id": pid, "reason": "check built but its manifest entry is not written yet"})
    try:
        hooks = subprocess.run(["git", "-C", "/repo", "log", "--format=%H", "--", "router/verif_hooks.go"], capture_output=True, text=True).stdout.split()
    except Exception:
        hooks = []
    man = {
        "version": 1,
        "setup_cmd": "python3 tools/setup.py",
        "hooks": {
            "guard": "verif",
            "enable": "harness binaries are built by tools/common.py:go_build with `-tags verif` against /repo's working tree; the only hook is router/verif_hooks.go (read-only table size snapshot)",
            "baseline_off_cmd": "cd /repo && PATH=/root/go/pkg/mod/golang.org/toolchain@v0.0.1-go1.25.0.linux-amd64/bin:$PATH GOTOOLCHAIN=local GOFLAGS=-mod=mod GOPROXY=off go test -vet=off -count=1 -timeout 25m ./...",
            "source_commits": hooks,
            "add_only": True,
        },
        "engines": [
            {"name": "rocq", "path": "/verif/coq", "serves_properties": [c["property_id"] for c in checks], "kind_free_text": "Coq 8.16.1 development, one logical root Nexus, full .vo build"},
            {"name": "modelrun", "path": "/verif/ocaml", "serves_properties": sorted(ROUTER), "kind_free_text": "models extracted with ExtrOcamlBasic + hand-written OCaml drivers"},
            {"name": "drive", "path": "/verif/go", "serves_properties": [c["property_id"] for c in checks], "kind_free_text": "Go translators (cmd/gen*) and correspondence harnesses (drive, cmd/*drive), module verifharness, replace => /repo"},
        ],
        "checks": checks,
        "notes": "Technique family: machine-checked proof in Coq 8.16.1 over executable models tied to /repo by translators and correspondence runs (DESIGN.md). Genuine defects found were repaired by fix: commits in /repo or recorded in known_findings.json.",
        "not_applicable": na,
    }
    with open(os.path.join(VERIF, "MANIFEST.json"), "w") as f:
        json.dump(man, f, indent=1)
        f.write("\n")
    r = subprocess.run(["python3-vt", "-c", "import json,jsonschema; jsonschema.validate(json.load(open('/verif/MANIFEST.json')), json.load(open('/root/.vp/MANIFEST.schema.json'))); print('MANIFEST validates')"], capture_output=True, text=True)
    print(r.stdout.strip() or r.stderr.strip()[-800:])
    print("claimed:", [c["property_id"] for c in checks])
    print("not yet:", [n["property_id"] for n in na])


if __name__ == "__main__":
    main()
