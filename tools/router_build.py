"""Build steps shared by the router-core checks (C01 C02 C03 C05 C10 C11 C12
C13 C18 C20): the Coq model, its extraction, the OCaml runner and the Go
harness test binary, all rebuilt (incrementally) on every check."""
import os
import shutil

import common


def build_model():
    """coq/Router/*.vo -> extraction -> build/<key>/bin/router_modelrun. Returns (path|None, log)."""
    ok, log = common.coq_make(["Router/Wire.vo", "Router/RouterTop.vo"])
    if not ok:
        return None, log
    d = common.build_dir("router_model")
    stamp = os.path.join(d, ".stamp")
    srcs = [os.path.join(common.COQ, "Router", f) for f in sorted(os.listdir(os.path.join(common.COQ, "Router"))) if f.endswith(".v")]
    srcs.append(os.path.join(common.VERIF, "ocaml", "router", "driver.ml"))
    newest = max(os.path.getmtime(p) for p in srcs)
    out = os.path.join(common.build_dir("bin"), "router_modelrun")
    if os.path.exists(out) and os.path.exists(stamp) and os.path.getmtime(stamp) >= newest:
        return out, "up to date"
    with common.Lock("router-model"):
        ok, log = common.coq_extract("Router/Extract.v", d)
        if not ok:
            return None, log
        shutil.copy(os.path.join(common.VERIF, "ocaml", "router", "driver.ml"), d)
        ok, log2 = common.ocaml_build(["router_model.mli", "router_model.ml", "driver.ml"], out, d)
        if not ok:
            return None, log + log2
        open(stamp, "w").write("ok")
    return out, log


def build_harness():
    return common.go_build("./drive", name="drive.test", test=True)
