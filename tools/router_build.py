"""Build steps shared by the router-core checks (C01 C02 C03 C05 C10 C11 C12
C13 C18 C20): the Coq model, its extraction, the OCaml runner and the Go
harness test binary, all rebuilt (incrementally) on every check."""
import hashlib
import os
import shutil

import common


MODEL_FILES = ["Base", "Msg", "Broker", "Dealer", "Realm", "Wire", "RouterTop", "Extract"]


def build_model():
    """coq/Router/*.vo -> extraction -> build/<key>/bin/router_modelrun. Returns (path|None, log)."""
    ok, log = common.coq_make(["Router/Wire.vo", "Router/RouterTop.vo"])
    if not ok:
        return None, log
    d = common.build_dir("router_model")
    stamp = os.path.join(d, ".stamp")
    # the extraction depends on the model files only (not on the proof files,
    # which change far more often): content hash, not mtime
    srcs = [os.path.join(common.COQ, "Router", f + ".v") for f in MODEL_FILES]
    srcs.append(os.path.join(common.VERIF, "ocaml", "router", "driver.ml"))
    h = hashlib.sha256()
    for p in srcs:
        h.update(open(p, "rb").read())
    digest = h.hexdigest()
    out = os.path.join(common.build_dir("bin"), "router_modelrun")
    if os.path.exists(out) and os.path.exists(stamp) and open(stamp).read() == digest:
        return out, "up to date"
    with common.Lock("router-model"):
        if os.path.exists(out) and os.path.exists(stamp) and open(stamp).read() == digest:
            return out, "up to date"
        ok, log = common.coq_extract("Router/Extract.v", d)
        if not ok:
            return None, log
        shutil.copy(os.path.join(common.VERIF, "ocaml", "router", "driver.ml"), d)
        tmp = out + ".new.%d" % os.getpid()
        ok, log2 = common.ocaml_build(["router_model.mli", "router_model.ml", "driver.ml"], tmp, d)
        if not ok:
            return None, log + log2
        os.replace(tmp, out)   # atomic: a check that is running the old binary keeps it
        open(stamp, "w").write(digest)
    return out, log


def build_harness():
    return common.go_build("./drive", name="drive.test", test=True)
