#!/usr/bin/env python3
"""Dispatcher: ./check <Cxx> [quick|thorough] [--replay path].

Each property has a module tools/checks/<cxx>.py exposing
    main(tier: str, replay: str|None) -> int      (exit status)
which rebuilds what it needs from the repository's current working tree,
prints VIOLATION / KNOWN-FINDING lines and rewrites evidence/<Cxx>.json."""
import importlib
import os
import sys
import traceback

sys.path.insert(0, os.path.dirname(os.path.abspath(__file__)))
import common  # noqa: E402


def main(argv):
    if len(argv) < 2:
        print("usage: check <Cxx> [quick|thorough] [--replay path]", file=sys.stderr)
        return 2
    pid = argv[1].upper()
    tier = os.environ.get("VERIF_TIER", "quick")
    replay = None
    rest = argv[2:]
    i = 0
    while i < len(rest):
        a = rest[i]
        if a in ("quick", "thorough"):
            tier = a
        elif a == "--replay":
            i += 1
            replay = rest[i]
        i += 1
    if tier not in ("quick", "thorough"):
        tier = "quick"
    try:
        mod = importlib.import_module("checks." + pid.lower())
    except ModuleNotFoundError:
        print("no check for " + pid, file=sys.stderr)
        return 2
    t = common.Timer()
    try:
        return int(mod.main(tier, replay))
    except SystemExit as e:
        return int(e.code or 0)
    except Exception:
        # A crash of the machinery is not a verdict about the code: report it
        # loudly on stderr and fail without a VIOLATION line.
        traceback.print_exc()
        print("check %s: internal error after %.1fs" % (pid, t.s()), file=sys.stderr)
        return 3


if __name__ == "__main__":
    sys.exit(main(sys.argv))
