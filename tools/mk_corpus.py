#!/usr/bin/env python3
"""Writes the hand-made regression corpus of the router-core checks
(corpus/<Cxx>/*.json).  Each scenario is the minimal history on which a defect
of the original tree (now repaired by a fix: commit in /repo) shows; the checks
run the corpus first, so a defect that returns is reported at once.

Value encoding (go/drive/value.go): null | true | ["Il","5"] | ["Ss","txt"] | ["L",..] | ["D",[k,v],..] | ["Rd","sid:<idx>"]."""
import json
import os

VERIF = os.path.dirname(os.path.dirname(os.path.abspath(__file__)))


def D(**kw):
    return ["D"] + [[k, v] for k, v in kw.items()]


def Dk(pairs):
    return ["D"] + [[k, v] for k, v in pairs]


def L(*a):
    return ["L"] + list(a)


def S(s):
    return ["Ss", s]


def I(n, k="l"):
    return ["I" + k, str(n)]


ALL = D(roles=D(
    subscriber=D(features=D(publisher_identification=True)),
    publisher=D(features=D(publisher_exclusion=True)),
    callee=D(features=D(call_canceling=True, progressive_call_results=True, call_timeout=True,
                        caller_identification=True, progressive_call_invocations=True)),
    caller=D(features=D(call_canceling=True, progressive_call_invocations=True))))
PPT = D(roles=D(
    subscriber=D(), publisher=D(features=D(payload_passthru_mode=True)),
    callee=D(features=D(call_canceling=True, payload_passthru_mode=True)),
    caller=D(features=D(payload_passthru_mode=True))))
PLAIN = D(roles=D(subscriber=D(), publisher=D(), callee=D(features=D(call_canceling=True)), caller=D()))


def join(s, hello=ALL, local=True, authid=None, realm=0):
    h = list(hello)
    if authid:
        h = h + [["authid", S(authid)]]
    return {"k": "join", "r": realm, "s": s, "local": local, "hello": h}


def msg(s, kind, realm=0, **kw):
    m = {"kind": kind, "opts": kw.pop("opts", D()), "args": kw.pop("args", None), "kw": kw.pop("kwargs", None)}
    m.update(kw)
    return {"k": "msg", "r": realm, "s": s, "m": m}


def sub(s, req, uri, match=None):
    return msg(s, "sub", req=req, uri=uri, opts=D(match=S(match)) if match else D())


def call(s, req, uri, args=None, kwargs=None, opts=None):
    return msg(s, "call", req=req, uri=uri, args=args or L(), kwargs=kwargs or D(), opts=opts or D())


def tick(ms):
    return {"k": "tick", "r": 0, "s": 0, "ms": ms}


def drop(s):
    return {"k": "drop", "r": 0, "s": s}


OBS = [join(0, authid="observer"), sub(0, 1, "", "prefix")]

CORPUS = {
    # 07b661c  UNSUBSCRIBE by a non-holder
    ("C01", "unsubscribe-by-non-holder"): dict(realms=[{}], ops=OBS + [
        join(1, authid="a"), join(2, authid="b"), sub(1, 1, "a.b"),
        msg(2, "unsub", req=1, ref={"kind": "sub", "sess": 1, "req": 1}),
        msg(0, "pub", req=2, uri="a.b", opts=D(acknowledge=True), args=L(I(1)))]),
    ("C18", "unsubscribe-by-non-holder-meta-event"): dict(realms=[{}], ops=OBS + [
        join(1, authid="a"), join(2, authid="b"), sub(1, 1, "a.b"),
        msg(2, "unsub", req=1, ref={"kind": "sub", "sess": 1, "req": 1}),
        call(2, 2, "wamp.subscription.list_subscribers", args=L(I(2)))]),
    # 9b53220  UNREGISTER by a non-callee
    ("C03", "unregister-by-non-callee"): dict(realms=[{}], ops=OBS + [
        join(1, authid="a"), join(2, authid="b"),
        msg(1, "reg", req=1, uri="p.q", opts=D(invoke=S("roundrobin"))),
        msg(2, "unreg", req=1, ref={"kind": "reg", "sess": 1, "req": 1}),
        call(2, 2, "p.q")]),
    # 2db1cc2  same session registers a shared procedure twice
    ("C03", "duplicate-shared-registration"): dict(realms=[{}], ops=OBS + [
        join(1, authid="a"), join(2, authid="b"),
        msg(1, "reg", req=1, uri="p.q", opts=D(invoke=S("roundrobin"))),
        msg(1, "reg", req=2, uri="p.q", opts=D(invoke=S("roundrobin"))),
        msg(2, "reg", req=1, uri="p.q", opts=D(invoke=S("roundrobin"))),
        msg(1, "unreg", req=3, ref={"kind": "reg", "sess": 1, "req": 1}),
        drop(1), call(2, 2, "p.q"), call(2, 3, "p.q"), call(2, 4, "p.q")]),
    # 9f9779e  shared event details
    ("C12", "shared-event-details"): dict(realms=[{"disclose": True}], ops=OBS + [
        join(1, hello=PLAIN, authid="a"), join(2, authid="b"),
        sub(2, 1, "a.b"), sub(1, 1, "a", "prefix"), sub(1, 2, "a.", "wildcard"),
        msg(2, "pub", req=3, uri="a.b", opts=D(disclose_me=True, exclude_me=False), args=L(I(7)))]),
    # b37e04b  live session details in on_join
    ("C12", "live-session-details"): dict(realms=[{"modify": True}], ops=OBS + [
        join(1, authid="a"),
        call(0, 2, "wamp.session.modify_details", args=L(["Rd", "sid:1"], D(dept=S("x")))),
        call(0, 3, "wamp.session.get", args=L(["Rd", "sid:1"]))]),
    # 14104e4  refused calls leak
    ("C05", "refused-call-leaks"): dict(realms=[{}], ops=OBS + [
        join(1, hello=PLAIN, authid="callee"), join(2, authid="caller"),
        msg(1, "reg", req=1, uri="p.q"),
        call(2, 1, "p.q", opts=D(progress=True)), call(2, 2, "p.q", opts=D(progress=True)),
        call(2, 3, "p.q", opts=D(disclose_me=True)), drop(1)]),
    # 3afbc21  kill-mode cancel, then the callee leaves
    ("C02", "kill-cancel-then-callee-gone"): dict(realms=[{}], ops=OBS + [
        join(1, authid="callee"), join(2, authid="caller"),
        msg(1, "reg", req=1, uri="p.q"), call(2, 1, "p.q"),
        msg(2, "cancel", req=1, opts=D(mode=S("kill"))), drop(1), call(2, 2, "p.q")]),
    # 68071ac  final YIELD while the caller is still sending chunks
    ("C02", "final-yield-while-caller-in-progress"): dict(realms=[{}], ops=OBS + [
        join(1, authid="callee"), join(2, authid="caller"),
        msg(1, "reg", req=1, uri="p.q"),
        call(2, 1, "p.q", opts=D(progress=True)),
        msg(1, "yield", ref={"kind": "inv", "sess": 1, "pick": -1}, args=L(S("first")), kwargs=D()),
        msg(1, "yield", ref={"kind": "inv", "sess": 1, "pick": -1}, args=L(S("second")), kwargs=D(), final=True),
        drop(1)]),
    # d7de204  refused further chunk
    ("C02", "refused-further-chunk"): dict(realms=[{}], ops=OBS + [
        join(1, authid="callee"), join(2, authid="caller"),
        msg(1, "reg", req=1, uri="p.q"),
        call(2, 1, "p.q", opts=D(progress=True)),
        msg(1, "unreg", req=2, ref={"kind": "reg", "sess": 1, "req": 1}),
        call(2, 1, "p.q"),
        msg(1, "yield", ref={"kind": "inv", "sess": 1, "pick": -1}, opts=D(progress=True), args=L(S("late")), kwargs=D()),
        msg(1, "yield", ref={"kind": "inv", "sess": 1, "pick": -1}, args=L(S("later")), kwargs=D(), final=True)]),
    # 7102319  passthru result to a caller without the feature
    ("C02", "ppt-yield-caller-lacks-feature"): dict(realms=[{}], ops=OBS + [
        join(1, hello=PPT, authid="callee"), join(2, authid="caller"),
        msg(1, "reg", req=1, uri="p.q"), call(2, 1, "p.q"),
        msg(1, "yield", ref={"kind": "inv", "sess": 1, "pick": -1}, opts=D(ppt_scheme=S("x_a"), ppt_serializer=S("json")), args=L(S("r")), kwargs=D(), final=True),
        call(2, 2, "p.q")]),
    ("C02", "ppt-yield-callee-lacks-feature"): dict(realms=[{}], ops=OBS + [
        join(1, authid="callee"), join(2, hello=PPT, authid="caller"),
        msg(1, "reg", req=1, uri="p.q"), call(2, 1, "p.q"),
        msg(1, "yield", ref={"kind": "inv", "sess": 1, "pick": -1}, opts=D(ppt_scheme=S("x_a")), args=L(S("r")), kwargs=D(), final=True)]),
    # 352205b  timeout overflow
    ("C13", "huge-timeout"): dict(realms=[{}], ops=OBS + [
        join(1, hello=PLAIN, authid="callee"), join(2, authid="caller"),
        msg(1, "reg", req=1, uri="p.q"),
        call(2, 1, "p.q", opts=D(timeout=I(4611686018427387904))), tick(1), tick(5000)]),
    # 7cb82e7  timer of an earlier chunk
    ("C13", "chunk-restarts-timeout"): dict(realms=[{}], ops=OBS + [
        join(1, authid="callee"), join(2, authid="caller"),
        msg(1, "reg", req=1, uri="p.q"),
        call(2, 1, "p.q", opts=D(timeout=I(1000), progress=True)), tick(600),
        call(2, 1, "p.q", opts=D(progress=True)), tick(600), tick(600)]),
    # cb92c48 / 46c9870 / d1809f1  event history
    ("C20", "history-survives-subscriber-churn"): dict(realms=[{"hist": [{"topic": "a", "match": "prefix", "limit": 3}]}], ops=OBS + [
        join(1, authid="a"), sub(1, 1, "a", "prefix"),
        msg(1, "pub", req=2, uri="a.b", args=L(I(1))),
        msg(1, "unsub", req=3, ref={"kind": "sub", "sess": 1, "req": 1}),
        msg(1, "pub", req=4, uri="a.c", args=L(I(2))),
        call(1, 5, "wamp.subscription.get_events", args=L(I(1)))]),
    ("C20", "history-args-of-remote-kinds"): dict(realms=[{"hist": [{"topic": "a.b", "match": "", "limit": 5}]}], ops=OBS + [
        join(1, authid="a")] + [msg(1, "pub", req=i, uri="a.b", args=L(I(i))) for i in range(1, 6)] + [
        call(1, 10, "wamp.subscription.get_events", args=L(I(1, "u")), kwargs=D(limit=I(2, "u"))),
        call(1, 11, "wamp.subscription.get_events", args=L(I(1, "f")), kwargs=D(limit=I(2, "f"), reverse=True)),
        call(1, 12, "wamp.subscription.get_events", args=L(I(1)), kwargs=D(from_publication=["Ru", "pub:P2"])),
        call(1, 13, "wamp.subscription.get_events", args=L(I(1)), kwargs=D(limit=I(2), reverse=True))]),
    # 1a9163f  kill_all: testaments and on_leave
    ("C05", "kill-all-testaments"): dict(realms=[{"kill": True}], ops=OBS + [
        join(1, authid="a"), join(2, authid="b"),
        call(1, 1, "wamp.session.add_testament", args=L(S("x.y"), L(I(1)), D()), kwargs=D(publish_options=D())),
        call(0, 2, "wamp.session.kill_all")]),
    # 9902628  a testament with passthru options must not end the meta session
    ("C05", "testament-passthru-keeps-meta-session"): dict(realms=[{}], ops=OBS + [
        join(1, authid="a"), sub(0, 2, "x.y"),
        call(1, 1, "wamp.session.add_testament", args=L(S("x.y"), L(I(1)), D()), kwargs=D(publish_options=D(ppt_scheme=S("x_custom")))),
        drop(1),
        join(2, authid="b"), call(2, 1, "wamp.session.count")]),
    # 9df542e  an ended session gets no registration meta events about itself
    ("C05", "ended-session-gets-own-unregister-events"): dict(realms=[{}], ops=OBS + [
        join(1, authid="a"), sub(1, 1, "wamp.registration.", "prefix"),
        msg(1, "reg", req=2, uri="p.q"),
        msg(1, "bye")]),
    # adf4e26  disclose_caller is per callee of a shared registration
    ("C12", "shared-registration-disclose-not-inherited"): dict(realms=[{}], ops=OBS + [
        join(1, authid="a"), join(2, local=False), join(3, local=False),
        msg(1, "reg", req=1, uri="p.q", opts=D(invoke=S("roundrobin"), disclose_caller=True)),
        msg(2, "reg", req=1, uri="p.q", opts=D(invoke=S("roundrobin"), disclose_caller=True)),
        msg(2, "reg", req=2, uri="p.q", opts=D(invoke=S("roundrobin"))),
        call(3, 1, "p.q"), call(3, 2, "p.q")]),
    ("C12", "shared-registration-joiner-asks-disclose"): dict(realms=[{"disclose": True}], ops=OBS + [
        join(1, local=False), join(2, local=False), join(3, local=False),
        msg(1, "reg", req=1, uri="p.q", opts=D(invoke=S("roundrobin"))),
        msg(2, "reg", req=1, uri="p.q", opts=D(invoke=S("roundrobin"), disclose_caller=True)),
        call(3, 1, "p.q"), call(3, 2, "p.q"),
        msg(2, "unreg", req=2, ref={"kind": "reg", "sess": 2, "req": 1}),
        msg(2, "reg", req=3, uri="p.q", opts=D(invoke=S("roundrobin"))),
        call(3, 3, "p.q"), call(3, 4, "p.q")]),
    # b725ba2  a leaving subscriber is announced with on_unsubscribe (then on_delete)
    ("C18", "leave-announces-on-unsubscribe"): dict(realms=[{}], ops=OBS + [
        join(1, authid="a"), join(2, authid="b"), join(3, authid="c"),
        sub(3, 1, "wamp.subscription.on_unsubscribe"), sub(3, 2, "wamp.subscription.on_delete"),
        sub(1, 1, "x.y"), sub(2, 1, "x.y"), sub(1, 2, "x.z"),
        msg(1, "bye"), drop(2)]),
    # fe3aa7b  forward_timeout is per callee of a shared registration
    ("C13", "shared-registration-forward-timeout-not-inherited"): dict(realms=[{}], ops=OBS + [
        join(1, authid="a"), join(2, authid="b"), join(3, authid="c"),
        msg(1, "reg", req=1, uri="p.q", opts=D(invoke=S("roundrobin"), forward_timeout=True)),
        msg(2, "reg", req=1, uri="p.q", opts=D(invoke=S("roundrobin"))),
        call(3, 1, "p.q", opts=D(timeout=I(500))), call(3, 2, "p.q", opts=D(timeout=I(500))),
        tick(499), tick(1), tick(1000)]),
    ("C13", "shared-registration-joiner-asks-forward-timeout"): dict(realms=[{}], ops=OBS + [
        join(1, authid="a"), join(2, authid="b"), join(3, authid="c"),
        msg(1, "reg", req=1, uri="p.q", opts=D(invoke=S("roundrobin"))),
        msg(2, "reg", req=1, uri="p.q", opts=D(invoke=S("roundrobin"), forward_timeout=True)),
        call(3, 1, "p.q", opts=D(timeout=I(500))), call(3, 2, "p.q", opts=D(timeout=I(500))),
        tick(499), tick(1), tick(1000)]),
    # harness correction (no router defect): a realm added at virtual time T starts at the router's clock
    ("C11", "realm-added-later-keeps-router-clock"): dict(
        realms=[{"hist": [{"topic": "a", "match": "prefix", "limit": 3}]}, {"hist": [{"topic": "a", "match": "prefix", "limit": 3}]}],
        ops=[join(0, authid="o0"), join(1, authid="o1", realm=1), tick(60000),
             {"k": "rmrealm", "r": 1, "s": 0}, {"k": "addrealm", "r": 1, "s": 0},
             join(2, authid="x", realm=1), msg(2, "pub", realm=1, req=1, uri="a.b", args=L(I(1))),
             msg(2, "call", realm=1, req=2, uri="wamp.subscription.get_events", args=L(I(1)), kwargs=D(from_time=S("60000")), opts=D()),
             msg(2, "call", realm=1, req=3, uri="wamp.subscription.get_events", args=L(I(1)), kwargs=D(before_time=S("60000")), opts=D())]),
    ("C18", "kill-all-on-leave"): dict(realms=[{"kill": True}], ops=OBS + [
        join(1, authid="a"), join(2, authid="b"), sub(0, 2, "wamp.session.on_leave"),
        call(0, 3, "wamp.session.kill_all", kwargs=D(reason=S("app.done"), message=S("bye")))]),
    # 12eb810  subscription meta errors
    ("C18", "subscription-meta-errors"): dict(realms=[{"hist": [{"topic": "h", "match": "", "limit": 2}]}], ops=OBS + [
        join(1, authid="a"),
        call(1, 1, "wamp.subscription.count_suscribers", args=L(I(99))),
        call(1, 2, "wamp.subscription.list_subscribers", args=L(I(1))),
        call(1, 3, "wamp.subscription.count_suscribers", args=L(I(1)))]),
    # 92194f2  unknown invoke policy shared by two sessions
    ("C03", "unknown-invoke-policy"): dict(realms=[{}], ops=OBS + [
        join(1, authid="a"), join(2, authid="b"),
        msg(1, "reg", req=1, uri="p.q", opts=D(invoke=S("bogus"))),
        msg(2, "reg", req=1, uri="p.q", opts=D(invoke=S("bogus"))),
        call(0, 2, "p.q")]),
    # 3f17567  protocol violation closes the peer once
    ("C05", "progress-without-feature-aborts-once"): dict(realms=[{}], ops=OBS + [
        join(1, hello=PLAIN, authid="a"), join(2, authid="b"),
        msg(2, "reg", req=1, uri="p.q"), sub(1, 1, "a.b"),
        call(1, 2, "p.q", opts=D(progress=True)),
        msg(2, "pub", req=2, uri="a.b", args=L(I(1)))]),
}


def main():
    for (pid, name), sc in CORPUS.items():
        d = os.path.join(VERIF, "corpus", pid)
        os.makedirs(d, exist_ok=True)
        sc = dict(sc)
        sc["name"] = "corpus-" + name
        with open(os.path.join(d, name + ".json"), "w") as f:
            json.dump(sc, f, indent=1)
            f.write("\n")
    print("wrote %d corpus scenarios" % len(CORPUS))


if __name__ == "__main__":
    main()
