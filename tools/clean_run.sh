#!/bin/sh
# From a clean checkout: setup, then every quick check once; prints a summary.
set -x
cd "$(dirname "$0")/.."
/usr/bin/time -f "setup %e s" python3 tools/setup.py 2>&1 | tail -15
for p in C01 C02 C03 C04 C05 C06 C07 C08 C09 C10 C11 C12 C13 C14 C15 C16 C17 C18 C19 C20; do
  /usr/bin/time -f "$p %e s" ./check $p quick > /tmp/clean_$p.log 2>&1; echo "$p exit $?"; grep -E "VIOLATION|KNOWN-FINDING" /tmp/clean_$p.log | cut -c1-200; tail -1 /tmp/clean_$p.log
done
