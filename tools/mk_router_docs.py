#!/usr/bin/env python3
"""Writes docs/Cxx.md for the ten properties decided on the router-core model:
a hand-written description per property + the theorem statements copied from
coq/Props/Cxx.v (so the document cannot drift from what is proved)."""
import os
import re

VERIF = os.path.dirname(os.path.dirname(os.path.abspath(__file__)))

COMMON = """*Check*: `./check {pid} quick|thorough` (`tools/checks/{low}.py` → `tools/router_check.py`), profile(s) `{profiles}`.
*Model*: `coq/Router/{{Base,Msg,Broker,Dealer,Realm,RouterTop}}.v` (hand-written, mirrors the repaired code), constants tied by
`go/cmd/genrouter` + `Router/GenConform.v`; *tie*: correspondence run of §5.1 (quick {quick} histories, thorough {thorough}; table sizes after every op where noted);
*search*: a disagreement is shrunk to a minimal history, which is the replay; a broken obligation without a disagreeing history is reported `no-failing-input-found`.
"""

INTRO = {
    "C01": ("Pub/Sub delivers each event to exactly the matching, eligible subscribers", "pubsub",
            "The broker model keeps the five Go tables (`topicSubscription`, `pfxTopicSubscription`, `wcTopicSubscription`, `subscriptions`, `sessionSubIDSet`) "
            "as association lists. `broker_wf` says they describe ONE relation; it holds initially and is preserved by every broker operation, hence in every reachable "
            "state (`C01_broker_wf_reachable`, for every operation list, under the stated no-wrap bound of 2^53 subscriptions). `C01_publish_exact` then states the property "
            "itself through the abstract holdings relation: the output of PUBLISH has no duplicates and contains exactly the PUBLISHED (when acknowledged) and one EVENT per "
            "(matching subscription, holder) that is not the excluded publisher, is attached and is allowed by the filter — same fresh publication id, subscription's own id, "
            "`topic` in the details iff the policy is a pattern, arguments unchanged. The filter (`allowed_spec`, `make_filter_*`) is characterised separately incl. its odd cases "
            "(ids through `AsID`, empty strings skipped, an `eligible` list without valid ids restricts nobody — as coded). Stable ids, both error branches and the frame lemmas complete the statement.",
            "Limits: queue overflow (an EVENT dropped for a blocked subscriber) is C07's; PUBLISHED vs the publisher's own EVENT order is unspecified (compared as a multiset)."),
    "C02": ("Every routed CALL gets exactly one final RESULT or ERROR", "rpc",
            "`dealer_wf` (calls / invocations / invocationByCall in bijection, callees attached, timers belong to pending calls) is preserved by every dealer function. "
            "`reply_owned`: a RESULT or ERROR(CALL) sent to x for request q is either the answer of `call` to the very CALL being processed, or (x,q) was pending before. "
            "`final_reply_consumes`: a final reply removes the call (except while the caller is still sending chunks), so each recorded call instance gets at most one final reply. "
            "One `prompt_*` lemma per trigger shows the final reply is IN the output of that step and the three entries are gone: unroutable; final YIELD / ERROR by the owner; "
            "callee's session removed — including after a kill-mode CANCEL (`kill_cancel_then_callee_gone`, the repaired defect); CANCEL skip / killnowait; timer expiry. `junk_harmless`: "
            "unknown, foreign, late and duplicate answers change nothing.",
            "Limits: \"caller keeps reading\" is an assumption (drops to a blocked caller and the RESULT retry loop are C07's)."),
    "C03": ("Calls reach the right callee with payload and ids intact", "rpc",
            "`best_match_spec` (sound / complete / none): exact first, otherwise the longest matching prefix, otherwise the longest matching wildcard, the oracle deciding only between "
            "wildcards of equal length (Go map order). `select_spec` and `roundrobin_cyclic`. `invocation_spec`: one INVOCATION per first chunk to a member of the best registration, with its id, "
            "a fresh invocation id (strictly above every id issued to that callee), the CALL's arguments, `receive_progress` iff asked ∧ callee has progressive_call_results ∧ call_canceling, "
            "`procedure` iff the stored match is not literally \"exact\"; `chunk_spec`: further chunks go to the same callee under the same id. `answer_routing`, `share_rules` "
            "(a second callee only under roundrobin/random/first/last, identical policy, not already a member — the last two clauses are repaired defects), `no_route_after_gone`.",
            "Limits: a callee whose queue is full is answered with network_failure to the caller (not modelled: queues are unbounded in the model)."),
    "C05": ("Ending a session removes all of its effects and state", "lifecycle",
            "`realm_wf` (every table entry names an attached session; session-indexed tables are exact indexes) is preserved by every `step`. `no_ref_after_leave`: after `leave` "
            "— reached by GOODBYE, lost transport, protocol violation and for every victim of a kill procedure — the session id occurs in no table of realm, broker or dealer, so no later step "
            "addresses it. `served_calls_error`, `own_calls_abandoned`, `testaments_once`. `empty_when_idle`: whenever no client is attached the sizes of all 16 tables equal those of the initial realm — "
            "the no-growth statement. The check compares these 16 sizes, read by the `verif` hook inside the owning goroutines, with the model after EVERY op.",
            "Limits: realm shutdown (`Router.Close`) skips broker/dealer removal by design and is C06's subject."),
    "C10": ("A message is acted upon iff the Authorizer allowed it", "authz",
            "The authorizer is a universally quantified function `f : sid → local → details → message → AAllow m' | ADeny | AFail`. `denied_no_trace` / `failed_no_trace`: the realm is unchanged and the "
            "output is exactly one ERROR of the request's type and id (`refusal_exactly_one`), nothing for an unacknowledged PUBLISH. `allowed_same`: the step equals the step of the realm without "
            "authorizer on the message as the authorizer left it. `local_exempt`, `gate_total` (no path to broker or dealer around the gate), meta events are produced whatever f is. "
            "The harness installs generated decision tables (allow / deny / fail / rewrite URI per message type, URI, session) as a real `Authorizer`.",
            "Limits: an Authorizer that mutates the session details is not modelled. As coded (not claimed by the property): a denied GOODBYE or ERROR is answered with an ERROR of that type and request 0."),
    "C11": ("Nothing crosses realm boundaries", "realms",
            "`RouterTop.v`: the router is a table of realms; `frame`: an operation in realm i leaves every other realm's state untouched and emits only outputs tagged i; "
            "`non_interference`: for every history h and realm j, state and outputs of j in `rrun h` equal those in `rrun (filter (concerns j) h)`; `same_ids_no_confusion`: two realms running the same "
            "operations produce identical (colliding) ids and still neither affects the other; `add_realm_frame`, `remove_realm_frame`. The harness runs 2–4 realms with the same kind of traffic, a catch-all "
            "observer in each, and removes / re-adds realms mid-history; the extracted runner executes `rstep` itself.",
            "Limits: process-global Go state (`brokerRole`/`dealerRole` dicts shared by all WELCOMEs) is outside the model."),
    "C12": ("Identity is disclosed only when allowed; recipients get independent messages", "pubsub, rpc",
            "`event_disclose_iff` / `invocation_disclose_iff`: the identity keys are present iff the stated condition; `disallowed_disclose_refused` / `call_disclose_refused`; "
            "`event_details_recipient_only`: the details delivered to r through s are a function of (topic, kind of s, disclose flag, publisher, r) whatever other recipients exist. "
            "On the implementation the harness additionally snapshots every delivered message on receipt and re-reads it at the end (never changes after delivery) and compares the identity of "
            "details / args / kwargs objects across delivered messages (in-process recipients share nothing). Both monitors found genuine defects (shared event details; live session details in on_join), now repaired.",
            "Limits: `transport.auth` stripping is exercised by C09's harness, not here (no transport details in these scenarios)."),
    "C13": ("CANCEL modes and call timeouts behave as documented", "rpc",
            "`cancel_skip`, `cancel_killnowait` (also absent / empty mode), `cancel_kill` (one INTERRUPT, call stays pending; the callee's next RESULT or ERROR is the final reply; degrades to skip "
            "without call_canceling), `cancel_bad_mode`, `cancel_noop`. `timeout_forwarded_iff`; otherwise exactly one timer at now + timeout; `timeout_exact`: `fire_timers` produces the timeout ERROR only for a "
            "timer whose deadline was reached while the call was pending and not kill-cancelled, and is the identity before every deadline. The harness runs under the virtual clock, so the ERROR must appear in "
            "exactly the `tick` op in which the model fires it.",
            "Limits: timeouts above 9.2e12 ms are clamped by the repaired code and never fire within a scenario; the model treats them likewise."),
    "C18": ("Meta API and meta events mirror the realm's actual state", "meta",
            "Every meta procedure is a branch of `meta_call` over the owning tables. `*_count_is_length`, `listed_*_fetchable`, `*_unknown_id_errors`, `registration_match_agrees` "
            "(= the registration `call` routes to, same oracle), `subscription_match_agrees` (= the subscriptions `publish` delivers through), the event-order theorems, `not_echoed`, the `*_refused_silent` family, "
            "`kill_exact` / `kill_by_attr_exact` / `kill_all_exact` (never the caller), `add_testament_exact`, `flush_testaments_exact`.",
            "Limits: `listed_registrations_fetchable_partial` needs the dealer invariant as hypothesis. `RealmConfig.MetaIncludeSessionDetails` (extra keys kept in strict mode) is not modelled; the harness leaves it empty. As coded: the procedure is registered under the misspelt URI `wamp.subscription.count_suscribers`."),
    "C20": ("Event history returns the retained publications, and only those", "history",
            "`store_is_last_N(_init)`: for every operation list the store of a configured subscription holds the last ≤ N matching publications without `exclude`/`eligible` keys, in order; "
            "`restricted_never_stored`; `retention_independent_of_subscribers` (subscribe / unsubscribe / leave removed from the history change nothing; a subscription with a store is never deleted — the repaired defect); "
            "`query_*`: filters, limit applied before reverse (repaired), publication bounds; `query_numkind_invariant`: same answer whichever numeric kind the client's decoder produced (repaired).",
            "Limits: time bounds are decimal virtual milliseconds in the model and RFC3339 strings in the implementation (the harness translates); combined publication + time bounds are proved one at a time. "
            "As coded: an exact subscription's entries carry no `topic`, so a `topic` filter on it selects nothing."),
}


HIST = {
    "C02": "*Over whole histories* (`coq/Props/HistoriesC02.v`): for `run (init_realm cfg) ops` and EVERY operation list, the reply monitor of every call id (caller, request) "
           "never fails on the history's event trace — `realm_reply_owned`: a RESULT / ERROR(CALL) q reaches x only after x sent CALL q; `realm_reply_unique`: after the final reply for (x,q) "
           "any further reply for (x,q) is preceded by a new CALL q from x. Both are full-strength without authorizer (`_noauthz`) and for an authorizer that keeps the identity of CALL messages and "
           "refuses none (`gate_fresh_call_safe`); in general they carry `along gate_fresh` (`_partial`). The full statement is FALSE of the model and of `realm.go` (`realm_reply_unique_refuted`, "
           "a six-operation history): when the Authorizer refuses a FURTHER CHUNK of a pending progressive call, the realm answers ERROR(CALL,q) itself, no router state changes (which is what C10 demands of a "
           "refusal), the call stays pending and the callee's RESULT q follows. C02 and C10 pull in opposite directions on this input (no router can leave the state unchanged AND treat the ERROR as the call's "
           "final reply), so it is recorded here as a limit of the statement and not as a defect; the harness's reply monitor likewise treats a request id re-used while pending as ambiguous.",
    "C03": "*Over whole histories* (`coq/Props/HistoriesC03.v`): `invocation_ids_increase` — every INVOCATION to y either has an id above all ids sent to y since y last joined, or repeats an id already sent "
           "(a further chunk); `no_invocation_after_unregistered_partial` — after UNREGISTERED r, an INVOCATION naming r reaches the session only if REGISTERED r was sent to it in between or it is a further chunk "
           "of a call routed earlier. As literally worded (no exception for further chunks) the statement is false of model and code (`invocation_after_unregistered_refuted`: shared registration, progressive call "
           "in flight): the call in progress continues by design.",
    "C01": "*Over whole histories* (`coq/Props/HistoriesC01.v`, proofs `Router/RealmTraceC01*.v`): the lifting rests on `step_decomp` — every `Realm.step` is, exactly and with no hypothesis, a threaded "
           "sequence `segs_step r o` of broker operations (SUBSCRIBE, UNSUBSCRIBE, removal, PUBLISH by a client or by the meta session) interleaved with non-broker outputs. A per-(session, subscription) monitor — flag set by "
           "SUBSCRIBED, reset by the acknowledged UNSUBSCRIBE, by ABORT/GOODBYE to the session, by its transport drop — never fails on any history (`realm_sub_discipline`); readably, every EVENT is preceded by a SUBSCRIBED for "
           "that subscription to that session with no reset in between (`realm_event_only_to_subscriber`, full without authorizer). Without a hypothesis on the authorization gate this is false of the model and of `authzMessage` "
           "(an authorizer may rewrite UNSUBSCRIBE 1 into UNSUBSCRIBE 2: `realm_sub_discipline_refuted`, six operations — `authorizer.go` documents that the Authorizer may alter the message, so this is a limit of the statement, not a defect); "
           "the `_partial` theorems carry `along gate_unsub_id`, discharged for realms without authorizer and for authorizers that never alter an UNSUBSCRIBE. At every REACHABLE state the output of the step handling an admitted PUBLISH "
           "is exactly the PUBLISHED plus one EVENT per matching, attached, allowed, non-excluded (subscription, subscriber) pair and nothing else (`realm_publish_exact`; likewise meta publications, refusals, the passthru ABORT). "
           "Publication ids sent in a step exceed every id sent earlier, never decrease along the trace, and one PUBLISH uses the single id `pg+1` (`realm_event_pubid_fresh`, `realm_pubids_monotone`, `realm_publish_one_id`).",
    "C20": "*Over whole histories* (`coq/Props/HistoriesC20.v`, proofs `Router/RealmTraceC20*.v`): `realm_pubs cfg ops` is the list of broker operations of the history, each PUBLISH by an admitted client or by the meta session "
           "(`realm_pubs_by`). After EVERY history the store of each configured history subscription holds exactly the last ≤ limit accepted, matching, unrestricted publications of that list — by clients and by the meta session "
           "(meta events, testaments) — in order, independent of subscription operations (`realm_store_is_last_N`, `realm_retention_independent_of_subscribers`, `realm_restricted_never_stored`). At any point "
           "`wamp.subscription.get_events` changes nothing and returns the query function of `Props/C20.v` applied to that list, hence only entries published earlier in the history (`realm_get_events_sound`, "
           "`realm_get_events_only_published`; stated at `meta_call` level, the CALL path shown by example).",
    "C12": "*Over whole histories* (`coq/Props/HistoriesC12.v`, proofs `Router/RealmTraceC12*.v`): for every history of the realm model and ANY authorizer — an EVENT carries publisher identity only if the realm "
           "allows disclosure and the receiver's record announced `publisher_identification`, and then either the step is that client's PUBLISH admitted with `disclose_me` and the values are the publisher's own, or it is a "
           "testament of a session departing in that step published by the meta session (its identity: id 1, `trusted`); an INVOCATION leaves a step only in a CALL step to a client callee, further chunks carry `progress` only, a "
           "first chunk carries the caller's own identity exactly when THIS callee asked at its own REGISTER (`reg_discloses`) or (`disclose_me` ∧ realm allows ∧ callee announced `caller_identification`); a callee is in `reg_disclose` "
           "only by its own earlier REGISTER with `disclose_caller=true`, admitted because the realm allows disclosure or it is trusted (`realm_disclose_flag_origin`). This statement was first REFUTED on the model that mirrored the code "
           "(`reg.disclose` kept per registration, set by its creator: a callee joining a shared registration inherited it — replayed on the router, repaired as `adf4e26`, now the positive theorem; `Router/DealerDisclose.v`: "
           "`disclose_flag_is_callees_own`, `joining_does_not_inherit`).",
    "C13": "*Over whole histories* (`coq/Props/HistoriesC13.v`, proofs `Router/RealmTraceC13*.v`; gate transparent: no authorizer or one that allows everything unchanged): the model's clock is the sum of the ticks of the trace; an "
           "invariant ties each invocation record to the trace (the CALL that opened it immediately followed by its INVOCATION, no final reply / final answer / kill-mode CANCEL / reasoned INTERRUPT since, an armed timer lies in the "
           "future and was armed at T0 with deadline T0 + timeout). `realm_timeout_error_only_when_due`: an ERROR(CALL) `wamp.error.timeout` is either the relay of the callee's own ERROR(INVOCATION) with that URI (WAMP by design: "
           "the literal statement without this case is refuted, `RelayEx`) or is sent by the tick that crosses the deadline of a call opened with a positive router-kept timeout and neither completed, kill-cancelled nor finally "
           "answered — never early, never after completion. `realm_timeout_fires`: such a call still recorded when a tick reaches T0 + timeout gets, in that tick and not earlier, the timeout ERROR exactly once and the INTERRUPT iff "
           "the callee announced `call_canceling`; the call is erased. `realm_interrupt_only_for_pending`: an INTERRUPT has exactly three triggers — CANCEL in kill / killnowait / default mode, the timeout (both: invocation pending, "
           "callee has `call_canceling`), or a progressive YIELD for a non-pending invocation id (`dealer.go syncYield`, options `mode` only; the literal 'only for a pending invocation' is refuted, `StrayEx`); "
           "`realm_interrupt_at_most_once` per invocation. Quirk recorded: every further chunk of a progressive call restarts the timeout of the opening call.",
    "C18": "*Over whole histories* (`coq/Props/HistoriesC18.v`, proofs `Router/RealmTraceC18*.v`): `att A tr` reads the attached session ids off a trace alone (an accepted JOIN appends; a transport drop, an ABORT or a GOODBYE sent "
           "by the router removes); `realm_attached_is_trace`: after EVERY history the realm's client list is `att [] (trace cfg ops)` — no side hypothesis, any authorizer. At any point a CALL of `wamp.session.count` / `list` / `get` by "
           "an attached caller with plain options is answered by exactly one message: `length (att …)`, `ids_value (att …)`, a RESULT exactly for the attached ids (`no_such_session` otherwise). `realm_on_join_on_leave_balanced`: for "
           "a passive observer holding exact subscriptions on `on_join` and `on_leave`, the list of those events it reads equals the list of attachment changes of the window — exactly once each and in order, also within one step "
           "(the GOODBYE to each victim of a kill precedes its `on_leave`) — PROVIDED nobody forges them: this router reserves `wamp.*` only for REGISTER, so a client may PUBLISH (or store as a testament) `wamp.session.on_leave` itself "
           "(`realm_on_join_on_leave_balanced_refuted`; recorded as a limit of the statement: C18 speaks of the router's announcements).",
    "C05": "*Over whole histories* (`coq/Props/HistoriesC05.v`): `ended_session_silent` — once a session was attached before op i and is not after it, no later step's output is addressed to it until a JOIN with "
           "that id occurs; `attached_only_by_join`.",
}


def statements(pid, fname=None):
    p = os.path.join(VERIF, "coq", "Props", (fname or pid) + ".v")
    if not os.path.exists(p):
        return []
    src = open(p).read()
    out = []
    for m in re.finditer(r"^(Theorem|Example)\s+([A-Za-z0-9_']+)\s*:(.*?)\nProof\.", src, re.S | re.M):
        kind, name, body = m.group(1), m.group(2), " ".join(m.group(3).split())
        out.append((kind, name, body))
    return out


def main():
    for pid, (title, profiles, text, limits) in INTRO.items():
        st = statements(pid)
        lines = ["### %s — %s (group B, router-core model)" % (pid, title), "",
                 COMMON.format(pid=pid, low=pid.lower(), profiles=profiles, quick=400, thorough=12000), "", text, "",
                 "*" + limits + "*", ""]
        if st:
            lines.append("Statements in `coq/Props/%s.v` (copied by `tools/mk_router_docs.py`; all closed by `exact`, `Print Assumptions` recorded in the evidence):" % pid)
            lines.append("")
            for kind, name, body in st:
                if len(body) > 420:
                    body = body[:420] + " …"
                lines.append("* `%s` (%s): `%s`" % (name, kind.lower(), body.replace("`", "'")))
        else:
            lines.append("(`coq/Props/%s.v` not present yet.)" % pid)
        lines.append("")
        if pid in HIST:
            lines += [HIST[pid], ""]
            for kind, name, body in statements(pid, "Histories" + pid):
                if len(body) > 420:
                    body = body[:420] + " …"
                lines.append("* `%s` (%s): `%s`" % (name, kind.lower(), body.replace("`", "'")))
            lines.append("")
        with open(os.path.join(VERIF, "docs", pid + ".md"), "w") as f:
            f.write("\n".join(lines))
    print("wrote", sorted(INTRO))


if __name__ == "__main__":
    main()
