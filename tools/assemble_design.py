#!/usr/bin/env python3
"""DESIGN.md = docs/DESIGN_head.md + docs/C01.md … C20.md + docs/DESIGN_tail.md"""
import os

VERIF = os.path.dirname(os.path.dirname(os.path.abspath(__file__)))
ORDER = ["C19", "C14", "C15", "C01", "C02", "C03", "C13", "C05", "C10", "C11", "C12", "C18", "C20", "C09", "C08", "C07", "C06", "C04", "C16", "C17"]


def normalise(pid, text):
    """Per-property documents come from different authors: shift their headings
    so that the document starts with '### Cxx …' and everything else is below."""
    import re
    lines = text.splitlines()
    in_code = False
    heads = []
    for i, l in enumerate(lines):
        if l.startswith("```"):
            in_code = not in_code
        m = re.match(r"^(#+) ", l)
        if m and not in_code:
            heads.append((i, len(m.group(1))))
    if not heads:
        return "### %s\n\n%s" % (pid, text)
    first_i, first_lvl = heads[0]
    title_is_prop = pid in lines[first_i]
    for i, lvl in heads:
        if i == first_i and title_is_prop:
            new = 3
        else:
            new = min(6, 4 + max(0, lvl - (first_lvl + 1 if title_is_prop else first_lvl)))
        lines[i] = "#" * new + lines[i][lvl:]
    out = "\n".join(lines)
    if not title_is_prop:
        out = "### %s\n\n%s" % (pid, out)
    return out


def findings():
    import json
    return json.load(open(os.path.join(VERIF, "known_findings.json"))).get("findings", [])


def fixed_table():
    rows = ["| property | fix: commit | what failed | witness |", "|---|---|---|---|"]
    for f in findings():
        if f.get("status") == "fixed":
            rows.append("| %s | `%s` | %s | `%s` |" % (f["property"], f["commit"], f["what"].replace("|", "/"), f.get("witness", "")))
    return "\n".join(rows)


def known_table():
    rows = ["| property | signature | what fails | why not repaired |", "|---|---|---|---|"]
    for f in findings():
        if f.get("status") == "known":
            rows.append("| %s | `%s` | %s | %s |" % (f["property"], f["signature"], f["what"].replace("|", "/"), f.get("why_not_fixed", "").replace("|", "/")))
    return "\n".join(rows) if len(rows) > 2 else "(none)"


def seeded_table():
    import glob
    import json
    rows = ["| id | property | change | needs | caught by | how |", "|---|---|---|---|---|---|"]
    for m in sorted(glob.glob(os.path.join(VERIF, "seeded", "*", "meta.json"))):
        j = json.load(open(m))
        caught = ", ".join(j.get("caught_by", [])) or "**missed**"
        how = " ".join(str(j.get("how_caught", "")).replace("|", "/").split())[:220]
        if j.get("retired"):
            caught = (caught if caught != "**missed**" else "") + " (retired)"
            how = "RETIRED: " + " ".join(str(j["retired"]).split())[:300]
        elif j.get("ported_by_lead"):
            how += " [patch " + " ".join(str(j["ported_by_lead"]).split())[:160] + "]"
        rows.append("| %s | %s | %s | %s | %s | %s |" % (os.path.basename(os.path.dirname(m)), j.get("property", ""), str(j.get("title", "")).replace("|", "/"),
                                                    " ".join(str(j.get("needs", "")).replace("|", "/").split())[:160], caught, how))
    metas = [json.load(open(m)) for m in glob.glob(os.path.join(VERIF, "seeded", "*", "meta.json"))]
    live = [j for j in metas if not j.get("retired")]
    conc = len([j for j in live if j.get("caught_by") and "concrete" in str(j.get("how_caught", ""))])
    nfi = len([j for j in live if j.get("caught_by") and "concrete" not in str(j.get("how_caught", ""))])
    miss = len([j for j in live if not j.get("caught_by")])
    own = len([j for j in live if j.get("property") in (j.get("caught_by") or [])])
    summary = ("**%d seeded changes** (four rounds; %d retired because a later fix: commit removed the code they changed): "
               "%d reported with a concrete failing input, %d only as `no-failing-input-found` (a broken obligation / tie), %d missed; "
               "%d are caught by the check of the property they were written against, the others by the check of a neighbouring property "
               "(named in the table; the seeding agents only knew the property text, and several changes break more than one property).\n\n"
               % (len(metas), len(metas) - len(live), conc, nfi, miss, own))
    return summary + "\n".join(rows) if len(rows) > 2 else "(seeded changes are being collected)"


def main():
    d = os.path.join(VERIF, "docs")
    import subprocess
    nfix = len([l for l in subprocess.run(["git", "-C", "/repo", "log", "--format=%s"], capture_output=True, text=True).stdout.splitlines() if l.startswith("fix:")])
    nknown = len([f for f in findings() if f.get("status") == "known"])
    head = open(os.path.join(d, "DESIGN_head.md")).read().replace("{{NFIX}}", str(nfix)).replace("{{NKNOWN}}", str(nknown))
    parts = [head.rstrip() + "\n"]
    for pid in ORDER:
        p = os.path.join(d, pid + ".md")
        if os.path.exists(p):
            parts.append("\n" + normalise(pid, open(p).read()).rstrip() + "\n")
        else:
            parts.append("\n### %s\n\n(section not written yet)\n" % pid)
    tail = open(os.path.join(d, "DESIGN_tail.md")).read()
    tail = tail.replace("{{FIXED_TABLE}}", fixed_table()).replace("{{KNOWN_TABLE}}", known_table()).replace("{{SEEDED_TABLE}}", seeded_table())
    parts.append("\n" + tail)
    with open(os.path.join(VERIF, "DESIGN.md"), "w") as f:
        f.write("".join(parts))
    print("DESIGN.md: %d bytes" % sum(len(x) for x in parts))


if __name__ == "__main__":
    main()
