#!/usr/bin/env python3
"""Self-test of the C16 / C17 checks: realistic mutations of client/client.go
(each compiles and keeps `go test ./client/... ./test/...` green) must make the
check exit 1 with a VIOLATION line; harmless refactors must pass.

usage: selftest_client.py [name ...]      (no name = all)
Each mutation is applied in a scratch worktree of /repo that carries the four
proposed patches (fixes/C17-*.patch, fixes/C16-*.patch); the worktree is
removed afterwards.  Prints one markdown table row per mutation."""
import json
import os
import re
import subprocess
import sys
import time

VERIF = os.path.dirname(os.path.dirname(os.path.abspath(__file__)))
GO = "/root/go/pkg/mod/golang.org/toolchain@v0.0.1-go1.25.0.linux-amd64/bin"
PATCHES = ["C17-ppt-unpack", "C17-reply-rendezvous", "C17-double-close", "C16-invocation-timeout-overflow"]


def sh(cmd, cwd=None, timeout=3600, env=None):
    e = dict(os.environ)
    e["PATH"] = GO + os.pathsep + e["PATH"]
    e.update({"GOTOOLCHAIN": "local", "GOFLAGS": "-mod=mod", "GOPROXY": "off"})
    if env:
        e.update(env)
    p = subprocess.run(cmd, shell=True, cwd=cwd, env=e, stdout=subprocess.PIPE, stderr=subprocess.STDOUT,
                       text=True, errors="replace", timeout=timeout)
    return p.returncode, p.stdout


# name -> (property, kind, description, [(old, new, count)])
MUT = {
    # ------------------------------------------------------------- C16
    "x16-dispatch-wrong-field": ("C16", "mutation (suite red: caught by the tests as well)", "PUBLISHED dispatched on msg.Publication instead of msg.Request", [
        ("\tcase *wamp.Published:\n\t\tc.runSignalReply(msg, msg.Request)", "\tcase *wamp.Published:\n\t\tc.runSignalReply(msg, msg.Publication)", 1)]),
    "m16-fallback-to-only-waiter": ("C16", "mutation", "a reply with an unknown request id is handed to the only waiting call", [
        ("\tw, ok = c.awaitingReply[requestID]\n\tc.sess.Unlock()\n\tif !ok {\n\t\tc.log.Println(\"Received\", msg.MessageType(), requestID,",
         "\tw, ok = c.awaitingReply[requestID]\n\tif !ok && len(c.awaitingReply) == 1 {\n\t\tfor _, w = range c.awaitingReply {\n\t\t\tok = true\n\t\t}\n\t}\n\tc.sess.Unlock()\n\tif !ok {\n\t\tc.log.Println(\"Received\", msg.MessageType(), requestID,", 1)]),
    "m16-progress-after-return": ("C16", "mutation", "progress channel buffered and Call waits for the progress goroutine only when it got a reply: queued progressive results reach the handler after a cancelled / failed Call has returned", [
        ("\t\tprogChan = make(chan *wamp.Result)\n", "\t\tprogChan = make(chan *wamp.Result, 16)\n", 2),
        ("\tif progcb != nil {\n\t\tclose(progChan)\n\t\t<-progDone\n\t}\n\n\tif err != nil {\n\t\treturn nil, err\n\t}\n\n\tswitch msg := msg.(type) {\n\tcase *wamp.Result:\n\t\tabortMsg, err := c.prepareCallResultMessage(msg)",
         "\tif progcb != nil {\n\t\tclose(progChan)\n\t\tif _, failed := msg.(*wamp.Error); !failed && err == nil {\n\t\t\t<-progDone\n\t\t}\n\t}\n\n\tif err != nil {\n\t\treturn nil, err\n\t}\n\n\tswitch msg := msg.(type) {\n\tcase *wamp.Result:\n\t\tabortMsg, err := c.prepareCallResultMessage(msg)", 2)]),
    "m16-cancel-mode-hardcoded": ("C16", "mutation", "CANCEL always sent with mode killnowait", [
        ("Options: wamp.SetOption(nil, wamp.OptMode, c.cancelMode),", "Options: wamp.SetOption(nil, wamp.OptMode, wamp.CancelModeKillNoWait),", 1)]),
    "m16-stale-invocation-rerun": ("C16", "mutation", "an INVOCATION with an OLDER request id is no longer ignored (only the latest id is)", [
        ("\t\tif !c.sess.UpdateLastRecvIDLocked(reqID) {\n\t\t\tc.sess.Unlock()", "\t\tif !c.sess.UpdateLastRecvIDLocked(reqID) && c.sess.IsNewRecvID(reqID+1) {\n\t\t\tc.sess.Unlock()", 1)]),
    "m16-error-with-registration-id": ("C16", "mutation", "the ERROR that answers an INTERRUPT carries the registration id instead of the request id", [
        ("\t\t\t\terrMsg := &wamp.Error{\n\t\t\t\t\tType:        wamp.INVOCATION,\n\t\t\t\t\tRequest:     reqID,",
         "\t\t\t\terrID := reqID\n\t\t\t\tif result.Err == wamp.ErrCanceled {\n\t\t\t\t\terrID = cliInvocation.registration\n\t\t\t\t}\n\t\t\t\terrMsg := &wamp.Error{\n\t\t\t\t\tType:        wamp.INVOCATION,\n\t\t\t\t\tRequest:     errID,", 1)]),
    "x16-error-with-registration-id": ("C16", "mutation (suite red: caught by the tests as well)", "every ERROR for a failed invocation carries the registration id", [
        ("\t\t\t\terrMsg := &wamp.Error{\n\t\t\t\t\tType:        wamp.INVOCATION,\n\t\t\t\t\tRequest:     reqID,",
         "\t\t\t\terrMsg := &wamp.Error{\n\t\t\t\t\tType:        wamp.INVOCATION,\n\t\t\t\t\tRequest:     cliInvocation.registration,", 1)]),
    "r16-helper-and-logging": ("C16", "refactor", "waiter lookup extracted into a helper, extra debug logging, select cases reordered", [
        ("func (c *Client) runSignalReply(msg wamp.Message, requestID wamp.ID) {\n\tvar w *replyWaiter\n\tvar ok bool\n\tc.sess.Lock()\n\tw, ok = c.awaitingReply[requestID]\n\tc.sess.Unlock()\n",
         "func (c *Client) lookupWaiter(requestID wamp.ID) (*replyWaiter, bool) {\n\tc.sess.Lock()\n\tdefer c.sess.Unlock()\n\tw, ok := c.awaitingReply[requestID]\n\treturn w, ok\n}\n\nfunc (c *Client) runSignalReply(msg wamp.Message, requestID wamp.ID) {\n\tw, ok := c.lookupWaiter(requestID)\n\tif c.debug {\n\t\tc.log.Println(\"dispatching\", msg.MessageType(), requestID, ok)\n\t}\n", 1),
        ("\tselect {\n\tcase w.ch <- msg:\n\tcase <-w.gone:", "\tselect {\n\tcase <-c.Done():\n\tcase w.ch <- msg:\n\tcase <-w.gone:", 1),
        ("\t\tc.log.Println(\"Received\", msg.MessageType(), requestID,\n\t\t\t\"that client is no longer waiting for\")\n\tcase <-c.Done():\n\t}\n}",
         "\t\tc.log.Println(\"Received\", msg.MessageType(), requestID,\n\t\t\t\"that client is no longer waiting for\")\n\t}\n}", 1)]),
    "r16-classify-switch": ("C16", "refactor", "Subscribe's reply switch rewritten as if/else with a local helper closure", [
        ("\tswitch msg := msg.(type) {\n\tcase *wamp.Subscribed:\n\t\t// Register the event handler for this subscription.\n\t\tc.sess.Lock()\n\t\tc.eventHandlers[msg.Subscription] = fn\n\t\tc.topicSubID[topic] = msg.Subscription\n\t\tc.sess.Unlock()\n\t\treturn nil\n\tcase *wamp.Error:\n\t\treturn fmt.Errorf(\"subscribing to topic '%v': %s\", topic,\n\t\t\twampErrorString(msg))\n\tdefault:\n\t\treturn unexpectedMsgError(msg, wamp.SUBSCRIBED)\n\t}",
         "\tinstall := func(subID wamp.ID) {\n\t\tc.sess.Lock()\n\t\tdefer c.sess.Unlock()\n\t\tc.eventHandlers[subID] = fn\n\t\tc.topicSubID[topic] = subID\n\t}\n\tif subscribed, ok := msg.(*wamp.Subscribed); ok {\n\t\tinstall(subscribed.Subscription)\n\t\treturn nil\n\t}\n\tif werr, ok := msg.(*wamp.Error); ok {\n\t\treturn fmt.Errorf(\"subscribing to topic '%v': %s\", topic,\n\t\t\twampErrorString(werr))\n\t}\n\treturn unexpectedMsgError(msg, wamp.SUBSCRIBED)", 1)]),
    # ------------------------------------------------------------- C17
    "x17-cleanup-blocking-drain": ("C17", "mutation (suite red: caught by the tests as well)", "select...default removed from the handler-queue drain: the invocation goroutine blocks for ever", [
        ("\tfor {\n\t\tselect {\n\t\tcase _, ok := <-handlerQueue:\n\t\t\tif !ok {\n\t\t\t\treturn // chan closed\n\t\t\t}\n\t\tdefault:\n\t\t\treturn\n\t\t}\n\t}",
         "\tfor {\n\t\t_, ok := <-handlerQueue\n\t\tif !ok {\n\t\t\treturn // chan closed\n\t\t}\n\t}", 1)]),
    "m17-abort-ignored": ("C17", "mutation", "ABORT no longer ends run(): Done never closed on ABORT", [
        ("\tcase *wamp.Abort:\n\t\treturn true\n", "\tcase *wamp.Abort:\n\t\tc.log.Println(\"router sent ABORT\")\n", 1)]),
    "m17-peer-closed-twice": ("C17", "mutation", "the PPT-violation path of Call closes the peer itself again (Close() then closes it a second time)", [
        ("\t\t\t\tc.sess.Send() <- abortMsg\n\t\t\t\t// Stop receiving; the peer itself is closed, once, by Close().\n\t\t\t\tc.sess.EndRecv(nil)",
         "\t\t\t\tc.sess.Send() <- abortMsg\n\t\t\t\tc.sess.Close()", 2)]),
    "x17-peer-closed-twice-in-close": ("C17", "mutation (suite red: caught by the tests as well)", "Close() closes the peer a second time", [
        ("\tc.activeInvHandlers.Wait()\n\tc.sess.Close()\n\n\treturn nil", "\tc.activeInvHandlers.Wait()\n\tc.sess.Close()\n\tdefer c.sess.Close()\n\n\treturn nil", 1)]),
    "m17-close-does-not-wait": ("C17", "mutation", "Close() no longer waits for the invocation goroutines", [
        ("\tc.activeInvHandlers.Wait()\n\tc.sess.Close()", "\tc.sess.Close()", 1)]),
    "m17-bare-assertion": ("C17", "mutation", "a new bare assertion on INVOCATION details (progress)", [
        ("if isInProgress, _ := msg.Details[wamp.OptProgress].(bool); !isInProgress {", "if isInProgress := msg.Details[wamp.OptProgress].(bool); !isInProgress {", 1)]),
    "m17-gone-not-closed": ("C17", "mutation", "waitForReply no longer announces that it is gone (rendezvous unguarded again)", [
        ("\t// Whichever way this returns, release run() if it is handing over a reply.\n\tdefer close(w.gone)\n\twait := w.ch\n\n\tvar msg wamp.Message\n\tvar err error\n\ttimer :=",
         "\twait := w.ch\n\n\tvar msg wamp.Message\n\tvar err error\n\ttimer :=", 1)]),
    "r17-buffered-reply-chan": ("C17", "refactor", "reply channels buffered(1), abort message built by a helper", [
        ("\t\tch:   make(chan wamp.Message),", "\t\tch:   make(chan wamp.Message, 1),", 1),
        ("func (c *Client) prepareCallResultMessage(msg *wamp.Result) (*wamp.Abort, error) {",
         "func pptAbort() *wamp.Abort {\n\treturn &wamp.Abort{\n\t\tReason: wamp.ErrProtocolViolation,\n\t\tDetails: wamp.Dict{\n\t\t\twamp.OptError:   ErrPPTNotSupportedByRouter.Error(),\n\t\t\twamp.OptMessage: ErrPPTNotSupportedByPeer.Error(),\n\t\t},\n\t}\n}\n\nfunc (c *Client) prepareCallResultMessage(msg *wamp.Result) (*wamp.Abort, error) {", 1),
        ("\t\t\tabortMsg := wamp.Abort{\n\t\t\t\tReason: wamp.ErrProtocolViolation,\n\t\t\t\tDetails: wamp.Dict{\n\t\t\t\t\twamp.OptError:   ErrPPTNotSupportedByRouter.Error(),\n\t\t\t\t\twamp.OptMessage: ErrPPTNotSupportedByPeer.Error(),\n\t\t\t\t},\n\t\t\t}\n\t\t\treturn &abortMsg, fmt.Errorf(",
         "\t\t\treturn pptAbort(), fmt.Errorf(", 1)]),
    "r17-checked-helper": ("C17", "refactor", "the checked reads of unpackE2EEPayload moved into a helper", [
        ("\tif len(args) == 0 {\n\t\treturn nil, nil, ErrSerialization\n\t}\n\tbin, ok := args[0].([]byte)\n\tif !ok {\n\t\treturn nil, nil, ErrSerialization\n\t}\n\tvar payloadTyped wamp.PassthruPayload",
         "\tbin, ok := firstBytes(args)\n\tif !ok {\n\t\treturn nil, nil, ErrSerialization\n\t}\n\tvar payloadTyped wamp.PassthruPayload", 1),
        ("func unpackE2EEPayload(", "func firstBytes(args wamp.List) ([]byte, bool) {\n\tif len(args) == 0 {\n\t\treturn nil, false\n\t}\n\tbin, ok := args[0].([]byte)\n\treturn bin, ok\n}\n\nfunc unpackE2EEPayload(", 1)]),
}


def run_one(name):
    prop, kind, desc, edits = MUT[name]
    wt = "/tmp/wt-mut-" + name
    sh("git -C /repo worktree remove --force %s" % wt)
    rc, out = sh("git -C /repo worktree add %s HEAD" % wt)
    if rc != 0:
        return dict(name=name, error="worktree: " + out[-300:])
    try:
        for p in PATCHES:
            # already in /repo once the lead has committed the fix
            rc, _ = sh("git apply --reverse --check %s/fixes/%s.patch" % (VERIF, p), cwd=wt)
            if rc == 0:
                continue
            rc, out = sh("git apply %s/fixes/%s.patch" % (VERIF, p), cwd=wt)
            if rc != 0:
                return dict(name=name, error="patch %s: %s" % (p, out[-300:]))
        path = os.path.join(wt, "client", "client.go")
        src = open(path).read()
        for old, new, cnt in edits:
            if src.count(old) != cnt:
                return dict(name=name, error="edit does not apply (%d occurrences, want %d): %r" % (src.count(old), cnt, old[:60]))
            src = src.replace(old, new)
        open(path, "w").write(src)
        rc, out = sh("gofmt -l client && go build ./... ", cwd=wt)
        if rc != 0 or out.strip():
            return dict(name=name, error="build: " + out[-500:])
        suite = "?"
        for attempt in range(8):
            rc, out = sh("go test -count=1 -timeout 600s ./client/... ./test/...", cwd=wt, timeout=1200)
            if rc == 0:
                suite = "green"
                break
            if "address already in use" in out or "timeout waiting for message" in out:
                time.sleep(10)     # port 8999 taken by someone else's run / the 10 ms join flake
                continue
            suite = "RED: " + out[-400:]
            break
        t0 = time.time()
        rc, out = sh("./check %s quick" % prop, cwd=VERIF, env={"VERIF_REPO": wt}, timeout=7200)
        wall = time.time() - t0
        viol = [l for l in out.splitlines() if l.startswith("VIOLATION") or l.startswith("KNOWN-FINDING")]
        sigs = []
        for l in viol:
            m = re.search(r"replay=(\S+)", l)
            if m and os.path.exists(m.group(1)):
                try:
                    d = json.load(open(m.group(1)))
                    sigs.append((d.get("signature") or d.get("what") or "")[:110] + (" [no input]" if "no-failing-input-found" in l else ""))
                except ValueError:
                    pass
        # the not-repaired CallProgressive feeder defect is reported on every C17 run of the patched tree
        new_sigs = [x for x in sigs if "CallProgressive" not in x]
        return dict(name=name, prop=prop, kind=kind, desc=desc, suite=suite, exit=rc, wall=wall, sigs=new_sigs,
                    baseline=len(sigs) - len(new_sigs), tail=out[-600:])
    finally:
        sh("git -C /repo worktree remove --force %s" % wt)


def main():
    names = sys.argv[1:] or list(MUT)
    for n in names:
        r = run_one(n)
        if "error" in r:
            print("| %s | ERROR %s |" % (n, r["error"]))
            continue
        verdict = "DETECTED" if r["sigs"] else "passes"
        print("| %s | %s | %s | %s | %s (exit %d%s) | %s | %.0f s |" % (
            r["name"], r["prop"], r["desc"], r["suite"][:40].replace("\n", " "), verdict, r["exit"],
            ", baseline finding" if r["baseline"] else "",
            "; ".join(r["sigs"]) or "none beyond the baseline", r["wall"]))
        sys.stdout.flush()


if __name__ == "__main__":
    main()
