"""Shared machinery for every /verif check.

Everything a check needs that is not specific to one property lives here:
locating /repo (or a scratch worktree through VERIF_REPO), the Go toolchain
environment, building the harness binaries from the CURRENT working tree of the
repository with `-tags verif`, building (parts of) the Coq development under a
lock, compiling one Props/Cxx.v file while capturing its `Print Assumptions`
output, writing evidence files that validate against EVIDENCE.schema.json,
known findings, and the VIOLATION / KNOWN-FINDING lines.
"""
import fcntl
import hashlib
import json
import os
import re
import shutil
import subprocess
import sys
import time

VERIF = os.path.dirname(os.path.dirname(os.path.abspath(__file__)))
REPO = os.environ.get("VERIF_REPO", "/repo")
COQ = os.path.join(VERIF, "coq")
BUILD_ROOT = os.path.join(VERIF, "build")
GO_TOOLCHAIN = "/root/go/pkg/mod/golang.org/toolchain@v0.0.1-go1.25.0.linux-amd64/bin"
GOMOD = "github.com/gammazero/nexus/v3"
NPROC = os.cpu_count() or 4

LEVELS = ("exploration", "fault_enumeration", "model_checking", "proof",
          "translation_validation", "other")


def seed():
    try:
        return int(os.environ.get("VERIF_SEED", "1"))
    except ValueError:
        return 1


def repo_key():
    """Build outputs are kept per repository path so that a scratch worktree
    (VERIF_REPO) never tramples the outputs for /repo."""
    if REPO == "/repo":
        return "repo"
    return "alt-" + hashlib.sha1(REPO.encode()).hexdigest()[:10]


def build_dir(*parts):
    d = os.path.join(BUILD_ROOT, repo_key(), *parts)
    os.makedirs(d, exist_ok=True)
    return d


def go_env():
    env = dict(os.environ)
    if os.path.isdir(GO_TOOLCHAIN):
        env["PATH"] = GO_TOOLCHAIN + os.pathsep + env.get("PATH", "")
        env["GOTOOLCHAIN"] = "local"
    env["GOFLAGS"] = "-mod=mod"
    env["GOPROXY"] = "off"
    env["GOSUMDB"] = "off"
    env.pop("GOWORK", None)
    return env


class Lock:
    def __init__(self, name):
        os.makedirs(BUILD_ROOT, exist_ok=True)
        self.path = os.path.join(BUILD_ROOT, "." + name + ".lock")

    def __enter__(self):
        self.f = open(self.path, "w")
        fcntl.flock(self.f, fcntl.LOCK_EX)
        return self

    def __exit__(self, *a):
        fcntl.flock(self.f, fcntl.LOCK_UN)
        self.f.close()


def run(cmd, cwd=None, env=None, timeout=None, input=None):
    """Run a command, return (rc, stdout+stderr)."""
    try:
        p = subprocess.run(cmd, cwd=cwd, env=env, timeout=timeout, input=input,
                           stdout=subprocess.PIPE, stderr=subprocess.STDOUT,
                           text=True, errors="replace")
        return p.returncode, p.stdout
    except subprocess.TimeoutExpired as e:
        out = e.stdout or ""
        if isinstance(out, bytes):
            out = out.decode(errors="replace")
        return 124, out + "\n[timeout after %ss]" % timeout


# --------------------------------------------------------------------------
# Go harness


def harness_modfile():
    """go.mod / go.sum for the harness module, pointing at REPO.  The committed
    /verif/go/go.mod replaces the nexus module by /repo; for a scratch
    worktree an alternative modfile is generated under build/."""
    src = os.path.join(VERIF, "go", "go.mod")
    d = build_dir("gomod")
    mod = os.path.join(d, "go.mod")
    txt = open(src).read()
    txt = re.sub(r"(replace\s+%s\s+=>\s+)\S+" % re.escape(GOMOD), r"\g<1>" + REPO, txt)
    old = open(mod).read() if os.path.exists(mod) else None
    if old != txt:
        with open(mod, "w") as f:
            f.write(txt)
    # go.sum: union of the repository's and the harness's own
    sums = set()
    for p in (os.path.join(REPO, "go.sum"), os.path.join(VERIF, "go", "go.sum")):
        if os.path.exists(p):
            sums.update(l for l in open(p).read().splitlines() if l.strip())
    sumtxt = "\n".join(sorted(sums)) + "\n"
    sump = os.path.join(d, "go.sum")
    if not os.path.exists(sump) or open(sump).read() != sumtxt:
        with open(sump, "w") as f:
            f.write(sumtxt)
    return mod


def go_build(pkg, name=None, tags="verif", race=False, test=False, timeout=900):
    """Build ./cmd/<pkg> (or a test binary of package <pkg>) of the harness
    module against REPO's current working tree.  Returns (path, log); path is
    None when the build failed."""
    name = name or os.path.basename(pkg)
    out = os.path.join(build_dir("bin"), name + ("-race" if race else ""))
    mod = harness_modfile()
    tmp = out + ".new.%d" % os.getpid()
    cmd = ["go", "test", "-c"] if test else ["go", "build"]
    cmd += ["-modfile=" + mod, "-tags", tags, "-o", tmp]
    if race:
        cmd.append("-race")
    cmd.append(pkg)
    with Lock("go-" + repo_key()):
        rc, log = run(cmd, cwd=os.path.join(VERIF, "go"), env=go_env(), timeout=timeout)
        if rc != 0 or not os.path.exists(tmp):
            if os.path.exists(tmp):
                os.remove(tmp)
            return None, log
        # atomic replacement: a check that is executing the previous binary
        # keeps it (no "text file busy" / half-written file for concurrent checks)
        os.replace(tmp, out)
    return out, log


# --------------------------------------------------------------------------
# Coq


def coq_sources():
    res = []
    for root, dirs, files in os.walk(COQ):
        dirs[:] = sorted(d for d in dirs if d not in ("cases", "scratch"))
        for f in sorted(files):
            if f.endswith(".v") and not f.startswith(".") and not f.startswith("Extract"):
                res.append(os.path.relpath(os.path.join(root, f), COQ))
    return res


def coq_prepare():
    """(Re)generate _CoqProject and Makefile.coq when the file list changed."""
    srcs = coq_sources()
    txt = "-Q . Nexus\n-arg -w -arg -notation-overridden,-deprecated-hint-without-locality,-deprecated-instance-without-locality,-deprecated-hint-rewrite-without-locality\n" + "\n".join(srcs) + "\n"
    proj = os.path.join(COQ, "_CoqProject")
    mk = os.path.join(COQ, "Makefile.coq")
    if not os.path.exists(proj) or open(proj).read() != txt or not os.path.exists(mk):
        with open(proj, "w") as f:
            f.write(txt)
        rc, log = run(["coq_makefile", "-f", "_CoqProject", "-o", "Makefile.coq"], cwd=COQ)
        if rc != 0:
            raise RuntimeError("coq_makefile failed:\n" + log)


def coq_make(targets=None, timeout=3000, keep_going=False):
    """Full .vo build (never -vos) of the given targets (paths relative to
    coq/, '.vo' suffix) or of everything.  Returns (ok, log)."""
    with Lock("coq"):
        coq_prepare()
        cmd = ["make", "-f", "Makefile.coq", "-j%d" % NPROC]
        if keep_going:
            cmd.append("-k")
        if targets:
            cmd += list(targets)
        rc, log = run(cmd, cwd=COQ, timeout=timeout)
    return rc == 0, log


def coq_extract(vfile, outdir, timeout=900):
    """Run an extraction file (coq/<Family>/Extract*.v, not part of the .vo
    build) with cwd = outdir so that the .ml/.mli land there.  The files it
    Requires must have been built.  Returns (ok, log)."""
    os.makedirs(outdir, exist_ok=True)
    src = os.path.join(COQ, vfile)
    with Lock("coq"):
        rc, log = run(["coqc", "-Q", COQ, "Nexus", "-w", "-notation-overridden,-extraction",
                       "-o", os.path.join(outdir, os.path.basename(vfile)[:-2] + ".vo"), src], cwd=outdir, timeout=timeout)
    return rc == 0, log


def ocaml_build(srcs, out, cwd, timeout=900):
    """ocamlfind ocamlopt the given sources (order matters) into `out`."""
    tmp = out + ".tmp.%d" % os.getpid()
    cmd = ["ocamlfind", "ocamlopt", "-O2", "-w", "-a", "-package", "str", "-linkpkg", "-o", tmp] + list(srcs)
    rc, log = run(cmd, cwd=cwd, timeout=timeout)
    if rc != 0:  # -O2 needs flambda; retry without
        cmd = [c for c in cmd if c != "-O2"]
        rc, log = run(cmd, cwd=cwd, timeout=timeout)
    if rc == 0 and os.path.exists(tmp):
        os.replace(tmp, out)   # atomic: concurrent checks executing the old binary keep it
    elif os.path.exists(tmp):
        os.remove(tmp)
    return rc == 0, log


def write_if_changed(path, txt):
    """Write a generated file only when its content changed (keeps make incremental)."""
    os.makedirs(os.path.dirname(path), exist_ok=True)
    if os.path.exists(path) and open(path).read() == txt:
        return False
    with open(path, "w") as f:
        f.write(txt)
    return True


_THM = re.compile(r"^\s*(?:Theorem|Lemma|Corollary|Example|Fact|Proposition)\s+([A-Za-z0-9_']+)", re.M)


def coq_props(pid, extra_files=(), timeout=1500):
    """Decide the proof obligations of one property.

    Builds everything Props/<pid>.v depends on, then compiles Props/<pid>.v
    itself afresh with coqc so that its `Print Assumptions` output can be
    captured.  Returns a dict:
      ok, obligations (names), discharged (names), assumptions {thm: text},
      axioms (sorted list of axiom names seen), log, failed (first error text)
    An obligation is a Theorem/Lemma/Example statement in Props/<pid>.v (and
    in extra_files, which are per-run conformance files such as
    gen/GenRegexProofs.v): it is discharged when the file holding it compiled.
    """
    rel = os.path.join("Props", pid + ".v")
    src = os.path.join(COQ, rel)
    res = dict(ok=False, obligations=[], discharged=[], assumptions={}, axioms=[], log="", failed="")
    files = [rel] + list(extra_files)
    for f in files:
        p = os.path.join(COQ, f)
        if os.path.exists(p):
            res["obligations"] += ["%s:%s" % (f, n) for n in _THM.findall(open(p).read())]
    if not os.path.exists(src):
        res["failed"] = "missing " + rel
        return res
    # dependencies (and the extra files) through make
    targets = [f[:-2] + ".vo" for f in files]
    ok, log = coq_make(targets, timeout=timeout, keep_going=True)
    res["log"] = log
    for f in files:
        # discharged = make considers the .vo up to date with ALL its
        # dependencies (a failed rebuild leaves a stale .vo behind)
        if os.path.exists(os.path.join(COQ, f[:-2] + ".vo")) and (ok or _uptodate(f[:-2] + ".vo")):
            res["discharged"] += ["%s:%s" % (f, n) for n in _THM.findall(open(os.path.join(COQ, f)).read())]
    if not ok:
        m = re.search(r"(File \"[^\"]+\", line \d+[^\n]*\n(?:.*\n){0,12})", log)
        res["failed"] = m.group(1) if m else log[-2000:]
        return res
    # recompile the Props file alone to capture Print Assumptions
    axioms = set()
    for f in [rel] + [x for x in extra_files if x.startswith("Props/")]:
        with Lock("coq"):
            rc, out = run(["coqc", "-Q", ".", "Nexus", "-w", "-notation-overridden", f], cwd=COQ, timeout=timeout)
        res["log"] += out
        if rc != 0:
            res["failed"] = out[-2000:]
            res["discharged"] = [o for o in res["discharged"] if not o.startswith(f + ":")]
            return res
        a, ax = parse_assumptions(open(os.path.join(COQ, f)).read(), out)
        res["assumptions"].update(a)
        axioms.update(ax)
    res["axioms"] = sorted(axioms)
    res["ok"] = True
    return res


def coqchk(pid, timeout=2400):
    """Independent re-check (coqchk) of Props/<pid>.vo and everything it
    depends on; returns (ok, summary text with the axioms it lists)."""
    mods = ["Nexus.Props." + pid]
    if os.path.exists(os.path.join(COQ, "Props", "Histories%s.vo" % pid)):
        mods.append("Nexus.Props.Histories" + pid)
    with Lock("coq"):
        rc, out = run(["coqchk", "-silent", "-o", "-Q", ".", "Nexus"] + mods, cwd=COQ, timeout=timeout)
    tail = out[-1500:]
    m = re.search(r"(CONTEXT SUMMARY.*)", out, re.S)
    return rc == 0, (m.group(1) if m else tail)[:3000]


def _uptodate(target):
    with Lock("coq"):
        rc, _ = run(["make", "-f", "Makefile.coq", "-q", target], cwd=COQ, timeout=300)
    return rc == 0


def _fresh(vfile):
    vo = vfile[:-2] + ".vo"
    return os.path.exists(vo) and os.path.getmtime(vo) >= os.path.getmtime(vfile)


def parse_assumptions(src, out):
    """Pair the `Print Assumptions x.` commands of a Props file with the
    blocks coqc printed, in order."""
    names = re.findall(r"Print Assumptions\s+([A-Za-z0-9_'.]+)\s*\.", src)
    blocks = []
    cur = None
    for line in out.splitlines():
        if line.startswith("Closed under the global context"):
            blocks.append(["Closed under the global context"])
            cur = None
        elif line.startswith("Axioms:"):
            cur = ["Axioms:"]
            blocks.append(cur)
        elif cur is not None and (line.startswith(" ") or re.match(r"^[A-Za-z_][A-Za-z0-9_.']*\s*:", line)):
            cur.append(line.rstrip())
        elif cur is not None and line.strip() == "":
            cur = None
    res = {}
    axioms = set()
    for i, n in enumerate(names):
        b = blocks[i] if i < len(blocks) else ["<no output captured>"]
        res[n] = " ".join(x.strip() for x in b)
        for l in b[1:]:
            m = re.match(r"^([A-Za-z_][A-Za-z0-9_.']*)\s*:", l.strip())
            if m:
                axioms.add(m.group(1))
    return res, sorted(axioms)


def hygiene_scan():
    """Textual scan of the whole development for forbidden constructs.
    Returns a list of offending 'file:line: text'."""
    bad = []
    pat = re.compile(r"\b(Admitted|admit|Axiom|Axioms|Parameter|Parameters|Conjecture|Admit Obligations|Unset Guard Checking|Unset Positivity Checking|Unset Universe Checking|bypass_check|type-in-type|impredicative-set)\b")
    for f in coq_sources():
        p = os.path.join(COQ, f)
        depth = 0
        for i, line in enumerate(open(p, errors="replace"), 1):
            code = re.sub(r"\(\*.*?\*\)", "", line)
            if "(*" in code and "*)" not in code:
                code = code.split("(*")[0]
            m = pat.search(code)
            if m:
                bad.append("%s:%d: %s" % (f, i, line.strip()))
    return bad


# --------------------------------------------------------------------------
# Evidence, findings, verdict lines


def write_evidence(pid, tier, level, coverage, wall_s, violations=0, assumptions=None, seed_=None):
    assert level in LEVELS
    ev = {
        "property_id": pid,
        "tier": tier if tier in ("quick", "thorough") else "quick",
        "seed": seed() if seed_ is None else seed_,
        "level": level,
        "coverage": coverage,
        "assumptions": assumptions or [],
        "wall_s": round(float(wall_s), 3),
        "violations": int(violations),
    }
    # a run against another tree (VERIF_REPO: seeded changes, reverted fixes)
    # must not overwrite the evidence of /repo
    evdir = os.path.join(VERIF, "evidence") if os.path.realpath(REPO) == "/repo" else build_dir("evidence")
    os.makedirs(evdir, exist_ok=True)
    p = os.path.join(evdir, pid + ".json")
    tmp = p + ".tmp"
    with open(tmp, "w") as f:
        json.dump(ev, f, indent=1, sort_keys=True, default=str)
        f.write("\n")
    os.replace(tmp, p)
    return p


def known_findings(pid):
    p = os.path.join(VERIF, "known_findings.json")
    if not os.path.exists(p):
        return []
    data = json.load(open(p))
    return [e for e in data.get("findings", []) if e.get("property") == pid and e.get("status") == "known"]


def match_known(pid, signature):
    """A finding entry matches when its 'signature' equals the violation's
    signature string (a specific call site / history shape, never a whole
    property)."""
    for e in known_findings(pid):
        if e.get("signature") == signature:
            return e
    return None


def write_replay(pid, obj, tag=None):
    d = os.path.join(VERIF, "replays")
    os.makedirs(d, exist_ok=True)
    body = json.dumps(obj, indent=1, sort_keys=True, default=str)
    h = hashlib.sha1(body.encode()).hexdigest()[:10]
    p = os.path.join(d, "%s-%s%s.json" % (pid, (tag + "-") if tag else "", h))
    with open(p, "w") as f:
        f.write(body + "\n")
    return p


class Verdict:
    """Collects what a check found and prints the interface lines."""

    def __init__(self, pid):
        self.pid = pid
        self.violations = 0
        self.known = 0
        self.lines = []

    def violation(self, replay_obj, tag=None, no_input=False):
        p = write_replay(self.pid, replay_obj, tag)
        line = "VIOLATION property=%s replay=%s" % (self.pid, p)
        if no_input:
            line += " no-failing-input-found"
        print(line, flush=True)
        self.lines.append(line)
        self.violations += 1
        return p

    def finding(self, signature, replay_obj, what, tag=None):
        """Report a concrete failing input: KNOWN-FINDING if listed, else VIOLATION."""
        e = match_known(self.pid, signature)
        if e is not None:
            print("KNOWN-FINDING: property=%s %s" % (self.pid, e.get("what", what)), flush=True)
            self.known += 1
            return None
        replay_obj = dict(replay_obj)
        replay_obj.setdefault("signature", signature)
        replay_obj.setdefault("what", what)
        return self.violation(replay_obj, tag)

    def exit_code(self):
        return 1 if self.violations else 0


def info(*a):
    print(*a, file=sys.stderr, flush=True)


class Timer:
    def __init__(self):
        self.t0 = time.time()

    def s(self):
        return time.time() - self.t0
