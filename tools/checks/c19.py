"""C19 — URI validation/matching and id generation follow the WAMP rules.

gen():  translator go/cmd/genc19: /repo/wamp/*.go -> coq/gen/GenC19{Regex,Arith,Match}.v
main(): 1. gen
        2. Coq obligations (Props/C19.v and the proof files over the generated terms)
        3. correspondence: go/cmd/c19drive runs the real functions on the sweep
           (exhaustive small strings x 6 modes, pattern pairs, random strings,
           boundary ids, every AsID kind); the lines are judged by
             c19ref  extracted reference rule   -> a disagreement is a concrete
                                                   failing input of the property
             c19gen  extracted generated model  -> a disagreement breaks the tie
           plus a sample replayed inside the kernel by vm_compute
        4. when an obligation or the tie broke: targeted search (distinguishing
           words and offending bytes from the regex diagnostics, boundary ids
           derived from the regenerated constants)
        5. verdict, evidence
"""
import hashlib
import json
import os
import re
import shutil
import subprocess
from concurrent.futures import ThreadPoolExecutor

import common
from common import COQ, VERIF

PID = "C19"
GEN_FILES = ("GenC19Regex.v", "GenC19Arith.v", "GenC19Match.v")
# hand-written files holding lemma statements (obligations); those marked True
# mention generated terms and are therefore re-proved on every run
PROOF_FILES = [
    ("Wamp/RegexProofs.v", False), ("Wamp/RegexEquivProofs.v", False), ("Wamp/UriRuleProofs.v", False),
    ("Wamp/MatchProofs.v", False),
    ("Wamp/C19Uri.v", True), ("Wamp/C19Match.v", True), ("Wamp/C19Ids.v", True), ("Wamp/C19RefProofs.v", True),
]
GEN_DEPS = {"Wamp/C19Uri.v": ("GenC19Regex.v",), "Wamp/C19Match.v": ("GenC19Match.v",),
            "Wamp/C19Ids.v": ("GenC19Arith.v",), "Wamp/C19RefProofs.v": GEN_FILES}
AREA_OF_FILE = {"Wamp/C19Uri.v": "uri", "Wamp/C19Match.v": "match", "Wamp/C19Ids.v": "ids"}
AREA_OF_KIND = {"V": "uri", "P": "match", "W": "match", "N": "ids", "S": "ids", "I": "ids", "U": "ids", "A": "ids", "G": "ids"}
FUNC_OF_KIND = {"V": "URI.ValidURI", "P": "URI.PrefixMatch", "W": "URI.WildcardMatch", "N": "IDGen.Next",
                "S": "SyncIDGen.Next", "I": "Session.IsNewRecvID", "U": "Session.UpdateLastRecvID",
                "A": "AsID", "G": "GlobalID"}
MAXID = 1 << 53

_gen_status = None


# ---------------------------------------------------------------------------
# translator


def gen():
    """Run the translator on common.REPO and refresh coq/gen/GenC19*.v.
    Returns {part: "ok" | "error: ..."}; a part that failed leaves a stub
    that makes every dependent Coq file fail (broken tie)."""
    global _gen_status
    exe, log = common.go_build("./cmd/genc19")
    out = common.build_dir("c19", "genout")
    status = {}
    if exe is None:
        raise RuntimeError("cannot build the C19 translator:\n" + log)
    rc, txt = common.run([exe, "-repo", common.REPO, "-out", out], timeout=120)
    try:
        status = json.loads(txt.strip().splitlines()[-1])
    except Exception:
        raise RuntimeError("C19 translator crashed:\n" + txt)
    for f in GEN_FILES:
        common.write_if_changed(os.path.join(COQ, "gen", f), open(os.path.join(out, f)).read())
    _gen_status = status
    return status


# ---------------------------------------------------------------------------
# runners


class SoftLock:
    """The shared coq lock, but for READ-ONLY steps (extraction, the cases
    file, coqchk): wait a bounded time, then go on without it.  These steps
    only read .vo files that this check built itself under the real lock and
    that nobody else rebuilds (checks build their own targets only)."""

    def __init__(self, name, wait_s=30):
        self.path = os.path.join(common.BUILD_ROOT, "." + name + ".lock")
        self.wait_s = wait_s
        self.held = False

    def __enter__(self):
        import fcntl
        import time
        self.f = open(self.path, "w")
        t0 = time.time()
        while True:
            try:
                fcntl.flock(self.f, fcntl.LOCK_EX | fcntl.LOCK_NB)
                self.held = True
                break
            except OSError:
                if time.time() - t0 > self.wait_s:
                    break
                time.sleep(0.5)
        return self

    def __exit__(self, *a):
        import fcntl
        if self.held:
            fcntl.flock(self.f, fcntl.LOCK_UN)
        self.f.close()


def _hash_files(paths):
    h = hashlib.sha1()
    for p in sorted(paths):
        h.update(p.encode())
        if os.path.exists(p):
            h.update(open(p, "rb").read())
    return h.hexdigest()


def _wamp_sources():
    d = os.path.join(COQ, "Wamp")
    return [os.path.join(d, f) for f in sorted(os.listdir(d)) if f.endswith(".v")]


def build_runner(which):
    """Extract model `which` in ("ref", "gen") and link it with driver.ml.
    Returns (path | None, log)."""
    ocdir = os.path.join(VERIF, "ocaml", "c19")
    deps = _wamp_sources() + [os.path.join(ocdir, "driver.ml"), os.path.join(ocdir, "extract_%s.v" % which)]
    if which == "gen":
        deps += [os.path.join(COQ, "gen", f) for f in GEN_FILES]
    key = _hash_files(deps)
    d = common.build_dir("c19", "x" + which)
    exe = os.path.join(common.build_dir("bin"), "c19" + which)
    stamp = os.path.join(d, "stamp")
    if os.path.exists(exe) and os.path.exists(stamp) and open(stamp).read() == key:
        return exe, "cached"
    model = "Wamp/C19RefModel.vo" if which == "ref" else "Wamp/C19GenModel.vo"
    ok, log = common.coq_make([model], keep_going=True)
    if not ok:
        return None, log
    for f in os.listdir(d):
        os.unlink(os.path.join(d, f))
    shutil.copy(os.path.join(ocdir, "extract_%s.v" % which), os.path.join(d, "extract.v"))
    shutil.copy(os.path.join(ocdir, "driver.ml"), os.path.join(d, "driver.ml"))
    with SoftLock("coq"):
        rc, out = common.run(["coqc", "-Q", COQ, "Nexus", "extract.v"], cwd=d, timeout=600)
    if rc != 0:
        return None, out
    rc, out2 = common.run(["ocamlfind", "ocamlopt", "-O2", "-w", "-a", "model.mli", "model.ml", "driver.ml", "-o", exe],
                          cwd=d, timeout=600)
    if rc != 0:
        return None, out + out2
    with open(stamp, "w") as f:
        f.write(key)
    return exe, out + out2


def setup():
    try:
        build_runner("ref")
        build_runner("gen")
        common.go_build("./cmd/c19drive")
    except Exception as e:  # reported by the check itself
        common.info("C19 setup:", e)


def run_runner(exe, path, extra=()):
    """Returns (mismatch lines [(line, model)], echo [(line, model)], summary dict, raw bad lines)."""
    with open(path) as f:
        p = subprocess.run([exe] + list(extra), stdin=f, stdout=subprocess.PIPE, stderr=subprocess.STDOUT, text=True)
    mism, echo, bad, summ = [], [], [], {}
    for l in p.stdout.splitlines():
        if l.startswith("MISMATCH "):
            a, _, b = l[9:].partition(" || model=")
            mism.append((a, b))
        elif l.startswith("ECHO "):
            a, _, b = l[5:].partition(" || model=")
            echo.append((a, b))
        elif l.startswith("SUMMARY "):
            summ = dict(kv.split("=") for kv in l.split()[1:])
        elif l.strip():
            bad.append(l)
    if p.returncode != 0 or not summ:
        bad.append("runner exit %d" % p.returncode)
    return mism, echo, summ, bad


# ---------------------------------------------------------------------------
# helpers on lines

NIN = {"V": 4, "P": 3, "W": 3, "N": 3, "S": 3, "I": 3, "U": 3, "A": 3, "G": 1}


def inputs_of(line):
    f = line.split()
    return " ".join(f[:NIN[f[0]]])


def unhex(h):
    return b"" if h == "-" else bytes.fromhex(h)


def describe(line):
    """Human-readable decoding of a case line."""
    f = line.split()
    k = f[0]
    d = {"function": FUNC_OF_KIND[k], "line": line}
    if k == "V":
        d.update(strict=f[1] == "1", match={"e": "exact", "p": "prefix", "w": "wildcard", "o": "(other string)"}[f[2]],
                 uri=repr(unhex(f[3]))[1:])
    elif k in "PW":
        d.update(uri=repr(unhex(f[1]))[1:], pattern=repr(unhex(f[2]))[1:])
    elif k in "NS":
        d.update(state_next=int(f[1], 16), calls=int(f[2]))
    elif k in "IU":
        d.update(last=int(f[1], 16), id=int(f[2], 16))
    elif k == "A":
        d.update(kind=f[1], payload_hex=f[2])
    return d


def case_weight(line):
    f = line.split()
    return (len(line), line)


def cases_to_coq(pairs):
    """pairs: [(input line, model output fields)] -> text of coq/cases/C19Cases.v"""
    def nl(h):
        return "[" + "; ".join(str(b) for b in unhex(h)) + "]"

    def ob(x):
        return {"1": "(Some true)", "0": "(Some false)", "X": "None"}[x]

    def bl(x):
        return "true" if x == "1" else "false"

    def val(kind, payload):
        ctor = {"int64": "VInt64", "int": "VInt", "int32": "VInt32", "id": "VID", "uint64": "VUint64", "uint": "VUint",
                "uint32": "VUint32", "float64": "VFloat64", "float32": "VFloat32"}
        if kind == "other":
            return "VOther"
        if kind in ("int64", "int", "int32"):
            return "(%s (%d)%%Z)" % (ctor[kind], int(payload, 16))
        return "(%s %d)" % (ctor[kind], int(payload, 16))

    items = []
    for line, model in pairs:
        f = line.split()
        m = model.split()
        k = f[0]
        if k == "V":
            pol = {"e": "MExact", "o": "MExact", "p": "MPrefix", "w": "MWildcard"}[f[2]]
            items.append("TV %s %s %s %s" % (bl(f[1]), pol, nl(f[3]), bl(m[0])))
        elif k == "P":
            items.append("TP %s %s %s" % (nl(f[1]), nl(f[2]), ob(m[0])))
        elif k == "W":
            items.append("TW %s %s %s" % (nl(f[1]), nl(f[2]), ob(m[0])))
        elif k in "NS":
            items.append("TN %d [%s]" % (int(f[1], 16), "; ".join(str(int(x, 16)) for x in m)))
        elif k == "I":
            items.append("TI %d %d %s" % (int(f[1], 16), int(f[2], 16), bl(m[0])))
        elif k == "U":
            items.append("TU %d %d %d %s" % (int(f[1], 16), int(f[2], 16), int(m[0], 16), bl(m[1])))
        elif k == "A":
            items.append("TA %s %d %s" % (val(f[1], f[2]), int(m[0], 16), bl(m[1])))
    return ("(* written by tools/checks/c19.py on every run: cases of this run's sweep with the outputs the\n"
            "   extracted runner c19gen printed, re-evaluated inside the kernel. *)\n"
            "From Coq Require Import List NArith ZArith.\nFrom Nexus Require Import Wamp.UriRule Wamp.Convert Wamp.C19GenModel.\n"
            "Import ListNotations.\nOpen Scope N_scope.\n\nDefinition cases : list tcase :=\n  [ "
            + ";\n    ".join(items) + " ].\n\n"
            "Example c19_cases_in_kernel : failing_cases cases = [].\nProof. vm_compute. reflexivity. Qed.\n"), len(items)


# ---------------------------------------------------------------------------
# replay


def do_replay(path):
    obj = json.load(open(path))
    line = obj.get("input") or obj.get("line")
    if not line:
        print("replay %s: names no concrete input (%s)" % (path, obj.get("what", obj.get("obligation", "?"))))
        print(json.dumps(obj, indent=1)[:3000])
        return 0
    gen()
    drv, log = common.go_build("./cmd/c19drive")
    if drv is None:
        print("cannot build c19drive against %s:\n%s" % (common.REPO, log))
        return 3
    p = subprocess.run([drv, "replay"], input=inputs_of(line) + "\n", stdout=subprocess.PIPE, stderr=subprocess.STDOUT, text=True)
    impl = p.stdout.strip()
    if p.returncode not in (0, 3) and ("panic:" in impl or "fatal error:" in impl):
        print("input          :", json.dumps(describe(line + " ?")))
        print("implementation : CRASH\n" + impl[-1200:])
        print("rule / model   : every C19 function returns a value (prefix_match_iff, wildcard_match_iff: no panic)")
        print("verdict        : VIOLATION reproduced")
        return 1
    tmp = os.path.join(common.build_dir("c19", "tmp"), "replay.txt")
    with open(tmp, "w") as f:
        f.write(impl + "\n")
    print("input          :", json.dumps(describe(impl if impl and p.returncode == 0 else line)))
    print("implementation :", impl)
    rc = 0
    ref, _ = build_runner("ref")
    if ref:
        mism, echo, summ, bad = run_runner(ref, tmp, ["-echo", "-domain"])
        if mism:
            print("rule (c19ref)  :", mism[0][1], "   <-- the property's rule disagrees with the implementation")
            rc = 1
        elif echo:
            print("rule (c19ref)  :", echo[0][1], "   (agrees)")
        else:
            print("rule (c19ref)  : outside the rule's domain")
    g, _ = build_runner("gen")
    if g:
        mism, echo, summ, bad = run_runner(g, tmp, ["-echo"])
        if mism:
            print("model (c19gen) :", mism[0][1], "   <-- generated model disagrees with the implementation")
        elif echo:
            print("model (c19gen) :", echo[0][1], "   (agrees)")
    else:
        print("model (c19gen) : not built (generated model does not compile)")
    print("verdict        :", "VIOLATION reproduced" if rc else "no violation on this input")
    return rc


def _really_fresh(rel):
    """common.coq_props counts a file as discharged when a .vo newer than its
    .v exists; a file that mentions generated terms must also be newer than
    the generated sources (a failed recompilation leaves the old .vo behind)."""
    vo = os.path.join(COQ, rel[:-2] + ".vo")
    if not os.path.exists(vo):
        return False
    deps = GEN_DEPS.get(rel, GEN_FILES if rel.startswith("Props/") else ())
    m = os.path.getmtime(vo)
    for f in deps:
        for ext in (".v", ".vo"):
            p = os.path.join(COQ, "gen", f[:-2] + ext)
            if not os.path.exists(p) or os.path.getmtime(p) > m:
                return False
    return True


# ---------------------------------------------------------------------------
# main


def main(tier, replay):
    with common.Lock("c19"):
        if replay:
            return do_replay(replay)
        return _main(tier)


def _main(tier):
    t = common.Timer()
    v = common.Verdict(PID)
    thorough = tier == "thorough"
    last = [0.0]

    def phase(name):
        common.info("C19 [%6.1fs +%5.1fs] %s" % (t.s(), t.s() - last[0], name))
        last[0] = t.s()
    notes = []
    broken = {}   # area -> [reasons]  (obligation / tie broken)

    # 1. translator
    status = gen()
    for part, st in status.items():
        if st != "ok":
            area = {"regex": "uri", "arith": "ids", "match": "match"}[part]
            broken.setdefault(area, []).append("translator(%s): %s" % (part, st))
            common.info("C19: translator part %s failed: %s" % (part, st))

    phase("translator")
    # 2. proof obligations
    extra = [f for f, _ in PROOF_FILES]
    r = common.coq_props(PID, extra_files=extra)
    obligations = r["obligations"]
    discharged = [o for o in r["discharged"] if _really_fresh(o.split(":")[0])]
    phase("coq obligations")
    if not r["ok"]:
        common.info("C19: Coq obligations not discharged:\n" + r["failed"][:1500])
        for f, area in AREA_OF_FILE.items():
            if not any(o.startswith(f + ":") for o in discharged):
                broken.setdefault(area, []).append("obligations of %s no longer check" % f)
        if not broken:
            broken.setdefault("all", []).append("Props/C19.v does not compile: " + r["failed"][:400])
    coqchk = None
    if thorough and r["ok"]:
        with SoftLock("coq"):
            rc, out = common.run(["coqchk", "-silent", "-o", "-Q", ".", "Nexus", "Nexus.Props.C19"], cwd=COQ, timeout=1500)
        m = re.search(r"\* Axioms:\s*(.*?)\n\s*\n", out, re.S)
        coqchk = "rc=%d axioms=%s" % (rc, " ".join(m.group(1).split()) if m else "?")
        if rc != 0 or not m or "<none>" not in m.group(1):
            broken.setdefault("all", []).append("coqchk on Props/C19.vo: " + coqchk + " " + out[-300:])
        phase("coqchk")
    hyg = [h for h in common.hygiene_scan() if h.startswith(("Wamp/", "Props/C19.v", "gen/GenC19"))]
    if hyg:
        broken.setdefault("all", []).append("hygiene: " + "; ".join(hyg[:5]))

    # 3. correspondence
    drv, dlog = common.go_build("./cmd/c19drive")
    ref, rlog = build_runner("ref")
    if ref is None:
        raise RuntimeError("cannot build the reference runner c19ref:\n" + rlog[-3000:])
    g, glog = build_runner("gen")
    if g is None:
        notes.append("generated model runner not built")
        if not broken:
            broken.setdefault("all", []).append("generated model does not extract/compile: " + glog[-400:])
    phase("build harness and runners")
    ref_mism, gen_mism, summary = [], [], {}
    crashed = False
    lines_ref = lines_gen = 0
    sweepdir = common.build_dir("c19", "sweep")
    if drv is None:
        broken.setdefault("all", []).append("harness c19drive does not build against the repository: " + dlog[-600:])
    else:
        for f in os.listdir(sweepdir):
            os.unlink(os.path.join(sweepdir, f))
        # boundary ids derived from the regenerated constants
        extras = set()
        try:
            atxt = open(os.path.join(COQ, "gen", "GenC19Arith.v")).read()
            consts = {m.group(1): int(m.group(2)) for m in re.finditer(r"Definition gen_(MaxID|deltaID) : N := (\d+)\.", atxt)}
            mx, dl = consts.get("MaxID", MAXID), consts.get("deltaID", 500)
            for c in (mx, dl, mx - dl, MAXID - dl, mx - 500):
                if 0 <= c < 1 << 64 and c not in (MAXID, 500, MAXID - 500):
                    extras.add(c)
        except OSError:
            pass
        maxlen = 6 if thorough else 5
        nrand = 60000 if thorough else 4000
        shards = common.NPROC
        cmd = [drv, "sweep", "-maxlen", str(maxlen), "-pairlen", "4" if thorough else "3", "-rand", str(nrand),
               "-seed", str(common.seed()), "-shards", str(shards), "-out", os.path.join(sweepdir, "s"),
               "-extra", ",".join("%x" % e for e in sorted(extras))]
        rc, out = common.run(cmd, timeout=1500)
        if rc != 0:
            if rc == 3:
                broken.setdefault("all", []).append("harness cannot drive the implementation: " + out.strip()[-400:])
            elif "panic:" in out or "fatal error:" in out:
                # the code under test crashes the harness process (e.g. a MustCompile that panics at
                # package initialisation): reproduce on a single trivial input
                probe = "V 0 e 61"
                pr = subprocess.run([drv, "replay"], input=probe + "\n", stdout=subprocess.PIPE, stderr=subprocess.STDOUT, text=True)
                msg = (pr.stdout if pr.returncode not in (0, 3) else out).strip()
                m = re.search(r"(panic:[^\n]*|fatal error:[^\n]*)", msg)
                v.finding("C19:crash:" + (m.group(1) if m else "panic")[:120],
                          {"property": PID, "input": probe, "decoded": describe(probe + " ?"),
                           "implementation_output": msg[-1500:],
                           "replay": "./check C19 --replay <this file>"},
                          "the wamp package panics when its C19 functions are run (%s)" % (m.group(1) if m else "panic"), tag="crash")
                crashed = True
            else:
                raise RuntimeError("c19drive sweep failed:\n" + out[-3000:])
        else:
            summary = json.loads(out.strip().splitlines()[-1])
            files = [os.path.join(sweepdir, "s.%d" % i) for i in range(shards)]
            # corpus first: recorded interesting inputs, results recomputed now
            cdir = os.path.join(VERIF, "corpus", PID)
            corpus = []
            if os.path.isdir(cdir):
                for fn in sorted(os.listdir(cdir)):
                    corpus += [l.strip() for l in open(os.path.join(cdir, fn)) if l.strip() and not l.startswith("#")]
            if corpus:
                pr = subprocess.run([drv, "replay"], input="\n".join(corpus) + "\n", stdout=subprocess.PIPE,
                                    stderr=subprocess.PIPE, text=True)
                if pr.returncode != 0:
                    raise RuntimeError("c19drive replay of the corpus failed: " + pr.stderr[-500:])
                cf = os.path.join(sweepdir, "corpus")
                with open(cf, "w") as f:
                    f.write(pr.stdout)
                files.insert(0, cf)
                summary["corpus_lines"] = len(corpus)
            phase("sweep of the implementation")
            with ThreadPoolExecutor(max_workers=len(files)) as ex:
                rres = list(ex.map(lambda p: run_runner(ref, p, ["-domain"]), files))
                gres = list(ex.map(lambda p: run_runner(g, p, ["-skipG"]), files)) if g else []
            for mism, _, summ, bad in rres:
                if bad:
                    raise RuntimeError("c19ref: " + "; ".join(bad[:3]))
                ref_mism += mism
                lines_ref += int(summ["lines"]) - int(summ["skipped"])
            for mism, _, summ, bad in gres:
                if bad:
                    raise RuntimeError("c19gen: " + "; ".join(bad[:3]))
                gen_mism += mism
                lines_gen += int(summ["lines"]) - int(summ["skipped"])

    phase("model runs")
    # 4. targeted search when something broke around ValidURI: the regex
    #    diagnostics give distinguishing words and offending bytes
    targeted = []
    if drv and g and ("uri" in broken or "all" in broken or any(l.startswith("V") for l, _ in gen_mism)):
        rc, out = common.run([g, "diag"], timeout=300)
        cands = set()
        for l in out.splitlines():
            m = re.match(r"D (\d) (\w) respects=(\d) offenders=(\S+) bisim=(\d) diff=(\S+)", l)
            if not m:
                continue
            s, p, resp, off, bis, diff = m.groups()
            if resp == "0" or bis == "0":
                notes.append("regex diagnostics: " + l)
            if diff != "none":
                cands.add(("V", s, p, diff))
            if off != "-":
                for b in sorted(set(unhex(off)))[:64]:
                    for w in (bytes([b]), b"a" + bytes([b]), bytes([b]) + b".a", b"a." + bytes([b])):
                        cands.add(("V", s, p, w.hex()))
        if cands:
            tf = os.path.join(common.build_dir("c19", "tmp"), "targeted.in")
            pr = subprocess.run([drv, "replay"], input="\n".join(" ".join(c) for c in sorted(cands)) + "\n",
                                stdout=subprocess.PIPE, stderr=subprocess.STDOUT, text=True)
            with open(tf, "w") as f:
                f.write(pr.stdout)
            mism, _, summ, bad = run_runner(ref, tf, ["-domain"])
            targeted = mism
            ref_mism += mism

    # 5. a sample replayed inside the kernel
    kernel_cases = 0
    kernel_ok = None
    if drv and g and summary and not gen_mism:
        want = 1000 if thorough else 120
        sample = []
        for i in range(common.NPROC):
            p = os.path.join(sweepdir, "s.%d" % i)
            with open(p) as f:
                ls = f.read().splitlines()
            ls = [l for l in ls if not l.startswith("G")]
            step = max(1, len(ls) // max(1, want // common.NPROC))
            sample += ls[(common.seed() + i) % step::step]
            by = {}
            for l in ls:
                if l[0] != "V" and by.setdefault(l[0], 0) < 2:
                    by[l[0]] += 1
                    sample.append(l)
        sf = os.path.join(common.build_dir("c19", "tmp"), "sample.txt")
        with open(sf, "w") as f:
            f.write("\n".join(sample) + "\n")
        _, echo, _, bad = run_runner(g, sf, ["-echo"])
        txt, kernel_cases = cases_to_coq([(inputs_of(l), m) for l, m in echo])
        cdir = os.path.join(COQ, "cases")
        os.makedirs(cdir, exist_ok=True)
        with open(os.path.join(cdir, "C19Cases.v"), "w") as f:
            f.write(txt)
        with SoftLock("coq"):
            rc, out = common.run(["coqc", "-Q", ".", "Nexus", "cases/C19Cases.v"], cwd=COQ, timeout=1200)
        kernel_ok = rc == 0
        if not kernel_ok:
            broken.setdefault("all", []).append("in-kernel replay of the sample failed (extraction and vm_compute disagree): " + out[-400:])

    phase("in-kernel sample")
    # 6. verdict
    by_kind = {}
    ref_mism = sorted(set(ref_mism))
    for line, model in ref_mism:
        by_kind.setdefault(line.split()[0], []).append((line, model))
    found_areas = set()
    for k in sorted(by_kind):
        line, model = min(by_kind[k], key=lambda lm: case_weight(lm[0]))
        found_areas.add(AREA_OF_KIND[k])
        d = describe(line)
        what = "%s disagrees with the WAMP rule on a concrete input (implementation: %s, rule: %s)" % (
            FUNC_OF_KIND[k], " ".join(line.split()[NIN[k]:]), model)
        sig = "C19:%s:%s" % (FUNC_OF_KIND[k], inputs_of(line))
        v.finding(sig, {"property": PID, "input": inputs_of(line), "implementation_line": line, "rule_says": model,
                        "decoded": d, "disagreeing_inputs_of_this_kind": len(by_kind[k]),
                        "other_examples": [l for l, _ in sorted(by_kind[k], key=lambda lm: case_weight(lm[0]))[1:6]],
                        "broken": broken.get(AREA_OF_KIND[k], []) + broken.get("all", []),
                        "replay": "./check C19 --replay <this file>"}, what, tag=k)
    # tie: generated model vs implementation, where the rule itself is not violated
    gby = {}
    for line, model in gen_mism:
        gby.setdefault(line.split()[0], []).append((line, model))
    for k in sorted(gby):
        if k in by_kind:
            continue
        line, model = min(gby[k], key=lambda lm: case_weight(lm[0]))
        v.violation({"property": PID, "what": "correspondence broken: generated model of %s and implementation disagree "
                     "while the rule agrees with the implementation (translator or model unfaithful)" % FUNC_OF_KIND[k],
                     "input": inputs_of(line), "implementation_line": line, "model_says": model, "decoded": describe(line),
                     "correspondence": "c19gen vs c19drive"}, tag="tie-" + k, no_input=True)
        found_areas.add(AREA_OF_KIND[k])
    model_cex = {}
    if g and "ids" in broken and "ids" not in found_areas:
        # model-level counterexamples for GlobalID at the ends of the oracle's range
        qf = os.path.join(common.build_dir("c19", "tmp"), "gquery.txt")
        with open(qf, "w") as f:
            f.write("".join("g %x\n" % x for x in (0, 1, MAXID - 2, MAXID - 1)))
        mism, _, _, _ = run_runner(g, qf)
        for line, model in mism:
            r_, val = int(line.split()[1], 16), int(model, 16)
            if not (1 <= val <= MAXID):
                model_cex["GlobalID with secureInt63n returning %d" % r_] = val
    for area, reasons in sorted(broken.items()):
        if crashed or area in found_areas or (area == "all" and found_areas):
            continue
        v.violation({"property": PID, "what": "no longer shown: " + "; ".join(reasons),
                     "obligation": reasons, "area": area,
                     "model_level_counterexample_not_forceable_on_the_real_code": model_cex if area == "ids" else {},
                     "searched": {"sweep_lines_vs_rule": lines_ref, "targeted_candidates": len(targeted),
                                  "exhaustive_strings_up_to": summary.get("maxlen")},
                     "coq_error": r["failed"][:1500]}, tag="obligation-" + area, no_input=True)

    # 7. evidence
    nontr = sum(summary.get("nontrivial_by_kind", {}).values()) if summary else 0
    samples = []
    for k, ls in sorted(summary.get("samples", {}).items()):
        samples += [describe(l) for l in ls[:3]]
    trusted = [
        "Coq 8.16.1 kernel incl. vm_compute (coqc); no axioms: " + "; ".join(
            "%s: %s" % (n, a) for n, a in sorted(r["assumptions"].items())),
        "translator go/cmd/genc19 (Go syntax reading, constant folding, RE2-subset parser; fails on unknown forms)",
        "Go regexp implements the textbook semantics for the RE2 subset used (byte/rune views proved equivalent: valid_uri_rune_view); UTF-8 decoding turns each non-ASCII rune or invalid byte into >=1 bytes >= 0x80",
        "secureInt63n(n) returns 0 <= r < n (math/big + crypto/rand; shape checked by the translator); uniformity not modelled",
        "amd64: int/uint are 64-bit, float->int64 conversion yields -2^63 when out of range (checked differentially by the A lines)",
        "extraction (ExtrOcamlBasic), OCaml 4.13.1, ocaml/c19/driver.ml, go/cmd/c19drive (reflect+unsafe access to IDGen.next / Session.lastRecvID after a layout check); bounded by the in-kernel replay of a sample",
    ]
    cov = {
        "obligations": len(obligations),
        "discharged": len(discharged),
        "obligation_names": obligations,
        "not_discharged": [o for o in obligations if o not in discharged],
        "per_run_obligations_over_generated_terms": [o for o in obligations if any(o.startswith(f + ":") for f, gen_dep in PROOF_FILES if gen_dep) or o.startswith("Props/")],
        "checker_cmd": "make -f Makefile.coq (coqc, full .vo) for coq/Wamp/*.v coq/gen/GenC19*.v; coqc -Q . Nexus Props/C19.v; coqc cases/C19Cases.v",
        "trusted_base": trusted,
        "axioms": r["axioms"],
        "coqchk": coqchk,
        "translator_status": status,
        "evaluations": int(summary.get("lines", 0)) + int(summary.get("corpus_lines", 0)),
        "corpus_lines": int(summary.get("corpus_lines", 0)),
        "evaluations_vs_rule": lines_ref,
        "evaluations_vs_generated_model": lines_gen,
        "evaluations_in_kernel": kernel_cases,
        "in_kernel_ok": kernel_ok,
        "distinct_nontrivial": int(nontr),
        "rule": "every line is a distinct input (exhaustive parts by construction, random parts de-duplicated; GlobalID samples are draws, counted as evaluations only when distinct is not claimed). Non-trivial: ValidURI: >= 2 components or accepted; PrefixMatch: non-empty prefix; WildcardMatch: pattern with >= 2 components; IsNewRecvID/UpdateLastRecvID: last != 0 and id in [1,2^53]; IDGen: all; AsID: accepted kind with non-zero payload. Counted by go/cmd/c19drive while generating.",
        "by_kind": summary.get("by_kind", {}),
        "nontrivial_by_kind": summary.get("nontrivial_by_kind", {}),
        "samples": samples,
        "exhaustive": bool(summary) and summary.get("exhaustive_strings") == summary.get("exhaustive_strings_expected"),
        "exhaustive_space": "all %s strings of length <= %s over the alphabet %s (hex) x 6 modes; all pattern/URI pairs of length <= %s over {a,b,.}" % (
            summary.get("exhaustive_strings"), summary.get("maxlen"), summary.get("alphabet"), summary.get("pairlen")) if summary else "",
        "input_distribution": {"random_strings": summary.get("rand"), "seed": summary.get("seed"),
                               "extra_boundaries": sorted(extras) if drv else []},
        "mismatches_vs_rule": len(ref_mism),
        "mismatches_vs_generated_model": len(gen_mism),
        "broken": broken,
        "notes": notes,
    }
    if "G" in summary.get("by_kind", {}):
        cov["distinct_nontrivial"] = int(nontr) - int(summary["nontrivial_by_kind"].get("G", 0))
    assumptions = [
        "the match argument of ValidURI is abstracted to its policy: \"wildcard\", \"prefix\", anything else = exact (translator rejects comparisons that would distinguish other strings)",
        "Session.lastRecvID only ever holds 0 or a value accepted by IsNewRecvID (last_recv_invariant); is_new_iff itself covers every 64-bit last",
        "crypto/rand uniformity is not modelled (range only)",
    ]
    common.write_evidence(PID, tier, "proof", cov, t.s(), v.violations, assumptions)
    common.info("C19 %s: obligations %d/%d, %d lines vs rule, %d vs generated model, %d in kernel, %d violations, %.1fs" % (
        tier, len(discharged), len(obligations), lines_ref, lines_gen, kernel_cases, v.violations, t.s()))
    return v.exit_code()
