"""C16 — Client calls return their own reply, once, and honour cancellation.

./check C16 [quick|thorough] [--replay path]

1. translator: go/cmd/genclient on REPO/client/client.go -> coq/gen/GenClient.v
2. proof obligations: Props/C16.v (theorems over the protocol model, all label
   sequences) + Client/ClientConformC16.v (the generated skeleton still has
   the shape the theorems rest on)
3. correspondence: the real client.Client against a scripted router in
   testing/synctest bubbles, G goroutines, every reply order / delay pattern of
   a generated schedule (replies coinciding with timeouts and cancellations,
   progressive results, invocation / interrupt orders, GOODBYE / ABORT / peer
   close); monitors = the C16 predicates on what was observed; the Coq model
   must explain every burst (vm_compute, Client/ClientCases.v)
4. verdict / evidence
"""
import glob
import json
import os
import random
import sys

sys.path.insert(0, os.path.dirname(os.path.dirname(os.path.abspath(__file__))))
sys.path.insert(0, os.path.dirname(os.path.abspath(__file__)))
import common  # noqa: E402
import clientlib as cl  # noqa: E402

PID = "C16"
EXTRA = ["Client/ClientConformC16.v"]


def gen():
    cl.gen()


def _corpus():
    out = []
    for p in sorted(glob.glob(os.path.join(common.VERIF, "corpus", PID, "*.json"))):
        try:
            d = json.load(open(p))
        except ValueError:
            continue
        s = d.get("sched", d)
        if "bursts" in s:
            s = dict(s)
            s["id"] = "corpus:" + os.path.basename(p)
            out.append(s)
    return out


def _truncate(sched, upto):
    """Keep the bursts up to and including `upto` (the epilogue of the harness
    closes the client)."""
    s = dict(sched)
    s["bursts"] = sched["bursts"][:upto + 1]
    s["id"] = sched.get("id", "") + "-cut%d" % upto
    return s


def _replay(path):
    d = json.load(open(path))
    if d.get("kind") != "schedule":
        # an obligation / correspondence that no longer checks, without a failing input
        print("replay: %s" % d.get("what", "obligation without failing input"))
        ok, _ = cl.gen()
        r = common.coq_props(PID, extra_files=EXTRA)
        print("model : obligations %d discharged %d  %s" % (len(r["obligations"]), len(r["discharged"]),
                                                          ("FAILED: " + r["failed"][:600]) if not r["ok"] else "all proved"))
        print("verdict: %s" % ("obligations hold again" if r["ok"] else "still broken"))
        return 0 if r["ok"] else 1
    sched = d["sched"]
    exe = cl.build_harness()
    tries = d.get("attempts", 24)
    hit = None
    res = None
    for i in range(tries):
        res = cl.run_schedules(exe, [sched], procs_of=lambda _: (1, 2, 16, 4)[i % 4], workers=1, tag="replay16")[0]
        sigs = [s for s, _ in cl.monitor_c16(sched, res)]
        if res["status"] in ("hang", "crash", "leak") or sigs:
            hit = (res, sigs)
            break
    print("schedule %s (%d bursts), seed-independent; signature recorded: %s" % (sched.get("id"), len(sched["bursts"]), d.get("signature")))
    res = hit[0] if hit else res
    print("implementation: status=%s %s (GOMAXPROCS=%s)" % (res["status"], res.get("why") or "", res.get("gomaxprocs")))
    for o in res.get("obs", []):
        if o["e"] in ("ret", "sent", "event", "inv", "prog", "done", "closeret", "rmsg"):
            print("   impl  b%-2d t=%-6d %s" % (o["b"], o["t"], json.dumps({k: v for k, v in o.items() if k not in ("b", "t")})))
    if res["status"] == "ok":
        try:
            cfg, terms, readable = cl.build_case(sched, res)
            fl, err = cl.run_cases([(0, cfg, terms)], "replay16", shards=1)
            if fl:
                k = fl[0][1]
                print("model : does NOT explain burst %d; it admits: %s" % (k, cl.predict((0, cfg, terms), k, "replay16")))
                print("        observed: %s" % readable[k]["observed"])
            else:
                print("model : explains every burst" + (" (%s)" % err if err else ""))
        except cl.Unmodelled as e:
            print("model : observation outside the model's alphabet: %s" % e)
    mon = cl.monitor_c16(sched, res)
    for s, w in mon:
        print("monitor: %s -- %s" % (s, w))
    bad = bool(mon) or res["status"] in ("hang", "crash", "leak")
    print("verdict: %s" % ("VIOLATION reproduced" if bad else "not reproduced in %d attempts" % tries))
    return 1 if bad else 0


def main(tier, replay):
    if replay:
        return _replay(replay)
    t = common.Timer()
    v = common.Verdict(PID)
    seed = common.seed()
    ok_gen, gen_log = cl.gen()
    r = common.coq_props(PID, extra_files=EXTRA)
    trusted = ["coqc 8.16.1 kernel (vm_compute used for conformance, cases and witnesses)",
               "go/cmd/genclient (go/parser reading of client.go)",
               "go/cmd/clientdrive + testing/synctest (virtual clock, quiescence = durably blocked)"]
    for k, a in sorted(r["assumptions"].items()):
        trusted.append("Print Assumptions %s: %s" % (k, a))
    for ax in r["axioms"]:
        trusted.append("axiom: " + ax)

    n = 300 if tier == "quick" else 40000
    rng = random.Random(seed * 7919 + 16)
    corpus = _corpus()
    scheds = corpus + [cl.gen_c16(rng, "s%d" % i) for i in range(n)]
    exe = cl.build_harness()
    results = cl.run_schedules(exe, scheds, tag="c16")

    status = {}
    findings = {}     # signature -> (replay object, what)
    deferred = 0      # Close()/run hangs: C17's subject; their observations are still judged here
    cases = []
    case_meta = {}
    unmodelled = 0
    shapes = set()
    for i, (s, res) in enumerate(zip(scheds, results)):
        st = res["status"]
        status[st] = status.get(st, 0) + 1
        if st in ("harness_error", "wall_timeout"):
            raise RuntimeError("harness problem on schedule %s: %s" % (s.get("id"), res.get("why")))
        if st == "skipped":
            continue
        if cl.is_stuck(res):
            # the wall-clock watchdog: the client froze (a lock never released); the schedule is C16's
            # finding when one of its API calls is among the frozen, C17's otherwise
            begun = set(o_["o"] for o_ in res.get("obs", []) if o_["e"] == "start")
            back = set(o_["o"] for o_ in res.get("obs", []) if o_["e"] in ("ret", "closeret"))
            if begun - back:
                sig = "C16 API call never returned: " + cl.hang_signature(res)
                findings.setdefault(sig, ({"kind": "schedule", "sched": s, "observed": cl.summarize(res), "what": (res.get("stacks") or "")[:6000]},
                                          "the client froze with op(s) %s not returned: %s" % (sorted(begun - back), (res.get("why") or "").split(" | ")[0])))
            else:
                deferred += 1
            continue
        for sig, what in cl.monitor_c16(s, res):
            findings.setdefault(sig, ({"kind": "schedule", "sched": s, "observed": cl.summarize(res)}, what))
        if st == "crash":
            sig = "C16 client crashed: " + cl.crash_signature(res)
            findings.setdefault(sig, ({"kind": "schedule", "sched": s, "observed": cl.summarize(res)},
                                      "the client process died while serving a C16 schedule"))
            continue
        if st in ("hang", "leak"):
            if "never returned" in (res.get("why") or "").split(" | ")[0] and "op " in (res.get("why") or "").split(" | ")[0]:
                sig = "C16 API call never returned: " + cl.hang_signature(res)
                findings.setdefault(sig, ({"kind": "schedule", "sched": s, "observed": cl.summarize(res), "attempts": 40},
                                          "an API call neither returned its reply nor an error"))
            elif ".Call.func" in (res.get("why") or "") or ".CallProgressive.func1" in (res.get("why") or ""):
                # the goroutine that runs the progress handler outlives the call
                sig = "C16 progress-handler goroutine left after the call returned: " + cl.hang_signature(res)
                findings.setdefault(sig, ({"kind": "schedule", "sched": s, "observed": cl.summarize(res)},
                                          "Call / CallProgressive returned without releasing its progress goroutine"))
            else:
                deferred += 1
            continue
        try:
            cfg, terms, readable = cl.build_case(s, res)
        except cl.Unmodelled:
            unmodelled += 1
            continue
        cases.append((i, cfg, terms))
        case_meta[i] = readable
        shapes.add(json.dumps([[sorted(l.get("k") + ":" + (l.get("op") or (l.get("m") or {}).get("t") or l.get("r") or "") for l in b["labels"]),
                                b.get("adv", 0) > 0, bool(b.get("prearm"))] for b in s["bursts"]]))

    failing, err = cl.run_cases(cases, "c16")
    if err:
        raise RuntimeError("in-kernel correspondence could not be evaluated:\n" + err)
    corr_broken = []
    # examine the smallest disagreeing schedules in detail (each costs a coqc run and re-runs)
    for (i, k) in sorted(failing, key=lambda ik: len(json.dumps(scheds[ik[0]])))[:3]:
        s = scheds[i]
        cut = _truncate(s, min(len(s["bursts"]) - 1, max(b["burst"] for b in case_meta[i][:k + 1])))
        model = cl.predict([c for c in cases if c[0] == i][0], k, "c16")
        corr_broken.append((i, k))
        # a mismatch the monitors did not reject: targeted re-runs of the cut schedule
        found = False
        more = cl.run_schedules(exe, [cut] * 12, tag="c16x")
        for res2 in more:
            for sig, what in cl.monitor_c16(cut, res2):
                findings.setdefault(sig, ({"kind": "schedule", "sched": cut, "observed": cl.summarize(res2)}, what))
                found = True
        if not found:
            sig = "C16 model/implementation disagree: burst %d of %s" % (k, s.get("id"))
            findings.setdefault("C16 model/implementation disagree", (
                {"kind": "schedule", "sched": cut, "observed_burst": case_meta[i][k], "model_admits": model,
                 "what": "correspondence broken: the protocol model does not explain what the client did; no monitor rejected it",
                 "no_input": True}, sig))

    if not r["ok"]:
        # a proof obligation no longer checks (regenerated terms changed)
        what = "proof obligation no longer checks: " + (r["failed"][:800] or "see log")
        if not ok_gen:
            what = "translator stopped (broken tie): " + gen_log.strip().splitlines()[-1]
        if not findings:
            v.violation({"kind": "obligation", "what": what,
                         "undischarged": sorted(set(r["obligations"]) - set(r["discharged"]))}, tag="obligation", no_input=True)
        else:
            common.info("C16: " + what)

    for sig, (obj, what) in sorted(findings.items()):
        if obj.get("no_input"):
            obj = dict(obj)
            obj.pop("no_input")
            obj["signature"] = sig
            v.violation(obj, tag="corr", no_input=True)
        else:
            v.finding(sig, obj, what, tag="sched")

    ops = {}
    for s in scheds:
        for b in s["bursts"]:
            for l in b["labels"]:
                key = l["k"] + (":" + l["op"] if l["k"] == "api" else "") + (":" + l["m"]["t"] if l["k"] == "msg" else "")
                ops[key] = ops.get(key, 0) + 1
    coincide = sum(1 for s in scheds for b in s["bursts"] if b.get("adv", 0) > 0 and b["labels"])
    coverage = {
        "obligations": len(r["obligations"]),
        "discharged": len(r["discharged"]),
        "obligation_names": r["obligations"],
        "checker_cmd": "coqc -Q coq Nexus coq/Props/C16.v (after make of its dependencies and of Client/ClientConformC16.v over the regenerated coq/gen/GenClient.v)",
        "trusted_base": trusted,
        "evaluations": len(scheds),
        "distinct_nontrivial": len(shapes),
        "rule": "schedules from seed %d (G=2..8 concurrent API goroutines, every reply order/delay, replies coinciding with "
                "response timeouts / cancellations / context deadlines in virtual time with both timer orders, duplicates, unknown ids, "
                "progressive results, invocation/interrupt orders, GOODBYE/ABORT/peer close); one synctest bubble each, GOMAXPROCS in {1,2,16}; "
                "distinct = distinct burst-shape sequences (label kinds, timing, timer order) among the schedules that ran to the end "
                "and were compared with the model; non-trivial = at least one API call and one router message" % seed,
        "samples": [scheds[i] for i in range(min(2, len(scheds)))],
        "traces_validated_against_impl": len(cases) - len(failing),
        "model_cases": len(cases),
        "model_mismatches": len(failing),
        "status_counts": status,
        "deferred_to_C17": deferred,
        "unmodelled_observations": unmodelled,
        "labels_by_kind": ops,
        "bursts_released_at_a_timer_instant": coincide,
        "corpus": len(corpus),
        "exhaustive": False,
        "repo": common.REPO,
    }
    assumptions = [
        "the theorems are about the protocol model Client/ClientModel.v; the model is tied to the source by "
        "Client/ClientConformC16.v over the regenerated skeleton and by the sampled correspondence runs",
        "the Go scheduler is sampled (synctest bubbles, GOMAXPROCS 1/2/16), not enumerated",
        "the router end keeps draining the client's send channel (as the nexus router and the network transports do)",
        "user handlers follow the documented protocol (a result on the final chunk, OmitResult on progress chunks) and honour their context",
    ]
    common.write_evidence(PID, tier, "proof", coverage, t.s(), v.violations, assumptions)
    common.info("C16: %d schedules, %s, %d compared with the model (%d mismatches), %d obligations (%d discharged), %.1fs" % (
        len(scheds), status, len(cases), len(failing), len(r["obligations"]), len(r["discharged"]), t.s()))
    return v.exit_code()
