"""C01: decided on the router-core model (coq/Router, Props/C01.v) + correspondence harness (go/drive)."""
import router_check


def main(tier, replay=None):
    return router_check.main("C01", tier, replay)


def gen():
    err = router_check.gen()
    if err:
        raise RuntimeError(err)


def setup():
    """router-core runners shared by C01 C02 C03 C05 C10 C11 C12 C13 C18 C20"""
    import router_build
    router_build.build_model()
    router_build.build_harness()
