"""C06 -- Router.Close and RemoveRealm are safe at any moment.

Decision procedure (docs/C06.md):
  1. gen(): shared with C07 (go/cmd/genskel -> coq/gen/GenSkeleton.v).
  2. Coq: Props/C06.v -- the close protocol as processes of Conc/Machine
     (Conc/Shutdown.v: closer, K attach goroutines and their handlers, realm,
     dealer, broker, meta-session handler, metaProcedureHandler, call timers,
     router goroutine) for arbitrary K, and the per-run obligation
     skeleton_conforms: the regenerated shutdown sequences (realm.close,
     dealer.close, broker.close, Router.Close, RemoveRealm, handleSession, the
     handler exit path, the onLeave closure, meta session end, call timers,
     peer Close) equal, by order, what Shutdown.v transcribes.
  3. Dynamic: go/cmd/concdrive inserts Close / RemoveRealm at EVERY position of
     generated histories and releases it inside bursts; oracles: returns, no
     panic then or hours of virtual time later, every client told, late attach
     refused, no goroutine left, other realms unaffected.  Workers are child
     processes: a panic is an exit status attributed to the exact history.
  4. Verdict as for C07.
"""
import json
import os
import sys

import common
from checks import concshared as cs

PID = "C06"
OBLIGATION_FILES = ["Conc/SkelObligationsC06.v"]
OBLIGATIONS = ["skeleton_conforms", "closable_senders_covered", "lock_sections_ranked", "attribution_closed",
               "invocation_drops_cancel_timer", "peer_close_bounds_pending_write", "no_blocking_send_to_client"]

WHAT = {
    "panic:send-on-closed-channel@router.(*dealer).syncCall.func1":
        "a call-timeout goroutine sends on d.actionChan after dealer.close() closed it "
        "(Close/RemoveRealm with an armed call timer)",
    "panic:send-on-closed-channel@router.(*broker).trySend":
        "at realm shutdown a session handler closes its peer while the broker still holds the session: "
        "a publication racing the shutdown is sent on the closed channel",
    "panic:send-on-closed-channel@router.(*dealer).syncYield":
        "at realm shutdown a session handler closes its peer while the dealer still holds its pending call: "
        "a RESULT (e.g. the retry for a stalled caller) is sent on the closed channel",
    "panic:send-on-closed-channel@router.(*router).AttachClient":
        "AttachClient sends WELCOME on a peer that the just-started session handler already closed",
}


MAX_LINES = 6   # VIOLATION lines per run; more distinct signatures are only counted


def gen():
    cs.gen()


def _what(sig, f):
    return WHAT.get(sig) or ("%s: %s" % (f.get("oracle", "?"), (f.get("detail") or "")[:300]))


def main(tier, replay):
    t = common.Timer()
    if replay:
        return _replay(replay)
    v = common.Verdict(PID)
    assumptions = [
        "the theorems are about the close-protocol model Conc/Shutdown.v (processes of Conc/Machine.v); it is tied "
        "to the source by the translator's inventory and the order-conformance obligation skeleton_conforms",
        "translator go/cmd/genskel: reading of Go syntax, channel-role classification by expression and type, "
        "call graph incl. calls through func values / inventory interfaces, goroutine-kind attribution",
        "the Go scheduler, runtime and testing/synctest (durably blocked = quiescent) are sampled, not modelled",
        "peer Close() of a remote transport is modelled as a non-blocking close (it waits for the writer goroutine, "
        "i.e. for network progress); router/auth and wamp packages are outside the inventory",
        "abstractions of Conc/Shutdown.v: broker/dealer tables reduced to the set of referenced sessions, "
        "non-blocking closures run as short step sequences, clients never drain, no yield-retry loop",
    ]
    gen_ok, gen_msg = cs.gen()
    rep = cs.skeleton_report() if gen_ok else dict(ok=False, error=gen_msg, obligations={})
    r = common.coq_props(PID, extra_files=OBLIGATION_FILES)
    broken = []
    if not gen_ok:
        broken.append("translator: " + gen_msg[:600])
    if rep.get("ok"):
        for o in OBLIGATIONS:
            if not rep["obligations"].get(o, False):
                broken.append("obligation %s = false" % o)
    elif gen_ok:
        broken.append("skeleton report: " + rep.get("error", "")[:600])
    if not r["ok"] and not broken:
        broken.append("Props/C06.v or its per-run obligations do not compile: " + r["failed"][:800])

    quick = tier != "thorough"
    budget = 60 if quick else 1080
    if os.environ.get("VERIF_DRIVE_BUDGET"):      # self-test runs on a loaded machine
        budget = int(os.environ["VERIF_DRIVE_BUDGET"])
    summary, dlog = cs.drive(PID, tier, budget)
    targeted = None
    if broken:
        focus = cs.focus_functions(rep, ["close", "onLeave", "handleSession", "syncCall"]) if rep.get("ok") else []
        for fn, _ in rep.get("bad_client_sends") or []:
            focus.append(fn.split(".")[-1])
        if rep.get("unbounded_peer_closes"):
            focus += ["rawSocketPeer", "writerDone", "SetWriteDeadline"]
        for fn, _ in rep.get("bad_invocation_drops") or []:
            focus.append(fn.split(".")[-1])
            focus.append("timerCancel")
        common.info("C06: %s -> targeted search around %s" % ("; ".join(broken)[:300], ",".join(focus)))
        targeted, tlog = cs.drive(PID, "thorough" if quick else tier, 40 if quick else 480,
                                  focus=focus, tag="-targeted", corpus=False, shrink=not quick)
    harness_error = None
    if summary is None:
        harness_error = dlog
    failures = []
    for sm in (summary, targeted):
        if sm:
            failures += sm.get("failures", [])
    seen = set()
    new_failures = 0
    suppressed = 0
    for f in failures:
        sig = f.get("signature", "?")
        if f.get("oracle") == "harness-error" or f.get("oracle") == "harness-timeout":
            harness_error = harness_error or ("%s: %s" % (sig, (f.get("detail") or "")[:500]))
            continue
        if sig in seen:
            continue
        seen.add(sig)
        if v.violations >= MAX_LINES and common.match_known(PID, sig) is None:
            suppressed += 1      # further distinct signatures are kept in the evidence only
            continue
        before = v.violations
        v.finding(sig, dict(property=PID, history=f.get("history"), oracle=f.get("oracle"),
                            detail=f.get("detail"), stderr_tail=f.get("stderr_tail"),
                            broken=broken, replay_cmd="./check C06 --replay <this file>"),
                  _what(sig, f), tag="hist")
        new_failures += v.violations - before
    if broken and new_failures == 0:
        # the property is no longer shown, and no history outside the known findings fails
        v.violation(dict(property=PID, broken=broken,
                         skeleton_report={k: rep.get(k) for k in ("obligations", "nonconforming", "detail", "bad_invocation_drops", "unbounded_peer_closes", "bad_client_sends")},
                         coq_failed=r["failed"][:1500],
                         searched=dict(main=_counts(summary), targeted=_counts(targeted)),
                         what="a per-run obligation of C06 or the translator tie is broken; the targeted "
                              "close histories found no failing input"),
                    tag="obligation", no_input=True)
    if harness_error and summary is None:
        # the machinery itself failed: not a verdict about the code
        common.info("C06: harness error:\n" + harness_error[-2000:])
        _evidence(tier, t, v, r, rep, summary, targeted, assumptions, broken)
        return 3

    _evidence(tier, t, v, r, rep, summary, targeted, assumptions, broken)
    return v.exit_code()


def _counts(sm):
    if not sm:
        return None
    return dict(evaluations=sm.get("evaluations"), distinct_nontrivial=sm.get("distinct_nontrivial"),
                signatures=sm.get("signatures"), wall_s=sm.get("wall_s"))


def _evidence(tier, t, v, r, rep, summary, targeted, assumptions, broken):
    sm = summary or {}
    cov = dict(
        obligations=len(r["obligations"]),
        discharged=len(r["discharged"]) if r["ok"] else len([o for o in r["discharged"]]),
        obligation_names=r["obligations"],
        undischarged=[o for o in r["obligations"] if o not in r["discharged"]],
        checker_cmd="coqc -Q coq Nexus coq/Props/C06.v (Coq 8.16.1; dependencies by make -f Makefile.coq)",
        trusted_base=["Coq 8.16.1 kernel incl. vm_compute", "go/cmd/genskel translator",
                      "testing/synctest + go/cmd/concdrive harness"]
                     + ["Print Assumptions %s: %s" % (k, val) for k, val in sorted(r["assumptions"].items())],
        per_run_obligations=rep.get("obligations"),
        inventory=rep.get("size"),
        retry_total_ms=rep.get("retry_total_ms"),
        broken=broken,
        evaluations=int(sm.get("evaluations", 0)),
        distinct_nontrivial=int(sm.get("distinct_nontrivial", 0)),
        rule=sm.get("rule", ""),
        samples=sm.get("samples", [])[:4],
        distribution=sm.get("distribution"),
        signatures=sm.get("signatures"),
        targeted_search=_counts(targeted),
        known_findings=v.known,
    )
    if not r["ok"]:
        cov["coq_failed"] = r["failed"][:1200]
    if cov["discharged"] == 0:
        # nothing was proved on this run (the property file does not compile against the
        # regenerated inventory): report that under other keys so that the file still
        # validates through the schema's exploration-style fallback
        cov["obligations_total"] = cov.pop("obligations")
        cov["discharged_count"] = cov.pop("discharged")
        cov["explanation"] = "no proof obligation was discharged on this run; see coq_failed / broken"
    common.write_evidence(PID, tier, "proof", cov, t.s(), v.violations, assumptions)


def _replay(path):
    obj = json.load(open(path))
    print("== C06 replay of %s" % path)
    print("-- recorded: signature=%s oracle=%s" % (obj.get("signature"), obj.get("oracle")))
    if obj.get("broken"):
        print("-- obligations broken when recorded: %s" % "; ".join(obj["broken"]))
    if "history" not in obj or not obj.get("history"):
        print("-- no history recorded (broken obligation without failing input); re-evaluating the obligations")
        gen_ok, msg = cs.gen()
        rep = cs.skeleton_report() if gen_ok else dict(ok=False, error=msg, obligations={})
        print(json.dumps({k: rep.get(k) for k in ("obligations", "nonconforming", "uncovered_senders", "detail", "error")}, indent=1))
        bad = (not rep.get("ok")) or any(not rep["obligations"].get(o, False) for o in OBLIGATIONS)
        print("VERDICT: %s" % ("still broken" if bad else "obligations hold now"))
        return 1 if bad else 0
    print("-- model (Conc/Shutdown.v): Close/RemoveRealm returns, no send on / close of a closed channel ever, "
          "every attached client is told or its transport closed, a later attach is refused, every process ends")
    rc, out = cs.replay(path)
    print("-- implementation (go/cmd/concdrive, real router in a synctest bubble):")
    print(out[-6000:])
    print("VERDICT: %s" % ("history passes" if rc == 0 else "history FAILS (oracle above)"))
    return 0 if rc == 0 else 1


if __name__ == "__main__":
    sys.exit(main(sys.argv[1] if len(sys.argv) > 1 else "quick", None))
