"""Shared machinery of the C16 / C17 checks (client/client.go).

* schedule generators (all randomness from the seed handed in),
* running the Go harness `clientdrive` (one synctest bubble per schedule,
  worker processes; a dead worker = a crash of the client, a worker leaving
  with status 3 = a hang or leak it reported itself),
* turning (schedule, observations) into a Coq case for Client/ClientCases.v
  and evaluating `failing` by vm_compute,
* the monitors: the C16 / C17 predicates evaluated directly on what the
  implementation was observed to do.
"""
import json
import os
import random
import re
import subprocess
import sys
import time
from concurrent.futures import ThreadPoolExecutor

sys.path.insert(0, os.path.dirname(os.path.dirname(os.path.abspath(__file__))))
import common  # noqa: E402

RT = 5000  # ResponseTimeout used by generated schedules (virtual ms)

# --------------------------------------------------------------------------
# translator


def gen():
    """Run go/cmd/genclient on REPO/client/client.go -> coq/gen/GenClient.v."""
    exe, log = common.go_build("./cmd/genclient")
    if exe is None:
        raise RuntimeError("genclient does not build:\n" + log)
    rc, out = common.run([exe, os.path.join(common.REPO, "client", "client.go")], timeout=120)
    path = os.path.join(common.COQ, "gen", "GenClient.v")
    if rc != 0:
        # A construct the translator depends on is not understood: the tie is
        # broken.  Leave a file that makes the conformance obligations fail
        # and keeps the reason.
        reason = out.strip().splitlines()[-1] if out.strip() else "translator failed"
        txt = ("(* genclient FAILED: %s *)\nFrom Nexus Require Import Client.ClientSkeleton.\n"
               "Definition gen_ok : bool := false.\nDefinition gen_sites : list site := nil.\n"
               "Definition gen_funcs : list gfunc := nil.\n" % reason.replace("*)", "* )"))
        common.write_if_changed(path, txt)
        return False, out
    common.write_if_changed(path, out)
    return True, ""


# --------------------------------------------------------------------------
# harness


def build_harness():
    exe, log = common.go_build("./cmd/clientdrive", test=True)
    if exe is None:
        raise RuntimeError("clientdrive does not build against %s:\n%s" % (common.REPO, log[-3000:]))
    return exe


def _run_worker(exe, inpath, lo, hi, procs, outpath, timeout):
    env = dict(os.environ, DRIVE_IN=inpath, DRIVE_OUT=outpath, DRIVE_FROM=str(lo), DRIVE_TO=str(hi),
               DRIVE_GOMAXPROCS=str(procs))
    try:
        p = subprocess.run([exe, "-test.run", "^TestDrive$", "-test.timeout", "%ds" % timeout],
                           env=env, stdout=subprocess.PIPE, stderr=subprocess.STDOUT, text=True,
                           errors="replace", timeout=timeout + 30)
        return p.returncode, p.stdout
    except subprocess.TimeoutExpired as e:
        out = e.stdout or ""
        if isinstance(out, bytes):
            out = out.decode(errors="replace")
        return 124, out


MAX_STUCK = 3      # stuck runs (wall-clock watchdog) after which the remaining schedules are skipped


def run_schedules(exe, scheds, procs_of=None, workers=None, tag="run", per_timeout=120, max_stuck=MAX_STUCK):
    """Run every schedule once.  Returns a list of result dicts aligned with
    scheds.  A result has status ok | hang | leak | crash | harness_error |
    wall_timeout | skipped; crash results carry the tail of the worker's output.

    Every run is bounded in wall-clock time: the harness's own watchdog
    (DRIVE_WATCHDOG_MS, default 15 s without progress) reports a frozen
    bubble as `hang` and leaves; the worker process as a whole is killed
    after per_timeout (`wall_timeout`).  Each such run costs real time, so
    after max_stuck of them the schedules not yet run are `skipped`: the
    check stays bounded even when every schedule freezes the client."""
    workers = workers or common.NPROC
    stuck = [0]
    d = common.build_dir("clientdrive", tag)
    inpath = os.path.join(d, "in.jsonl")
    with open(inpath, "w") as f:
        for s in scheds:
            f.write(json.dumps(s) + "\n")
    n = len(scheds)
    results = [None] * n
    # contiguous chunks, one worker each; a chunk is resumed after a crash
    chunk = max(1, (n + workers - 1) // workers)
    ranges = [(lo, min(n, lo + chunk)) for lo in range(0, n, chunk)]

    def work(rg):
        lo, hi = rg
        wi = lo // chunk
        cur = lo
        guard = 0
        while cur < hi and guard < (hi - lo) + 2:
            guard += 1
            if stuck[0] >= max_stuck:
                break
            outpath = os.path.join(d, "out-%d-%d.jsonl" % (wi, cur))
            if os.path.exists(outpath):
                os.remove(outpath)
            procs = procs_of(cur) if procs_of else (1, 2, 16)[wi % 3]
            rc, out = _run_worker(exe, inpath, cur, hi, procs, outpath, per_timeout)
            begun = None
            if os.path.exists(outpath):
                for line in open(outpath):
                    try:
                        r = json.loads(line)
                    except ValueError:
                        continue
                    if "begin" in r:
                        begun = r["begin"]
                    else:
                        results[r["idx"]] = r
            if rc == 0:
                break
            # the worker died or left early while running schedule `begun`
            if begun is None:
                begun = cur
            if results[begun] is not None and is_stuck(results[begun]):
                stuck[0] += 1
            if results[begun] is None:
                status = "wall_timeout" if rc == 124 else "crash"
                if rc == 124 or "test timed out" in out:
                    stuck[0] += 1
                results[begun] = {"id": scheds[begun].get("id"), "idx": begun, "status": status,
                                  "why": _crash_reason(out), "obs": [], "stacks": out[-6000:],
                                  "gomaxprocs": procs, "rc": rc}
            cur = begun + 1
        return None

    with ThreadPoolExecutor(max_workers=workers) as ex:
        list(ex.map(work, ranges))
    for i in range(n):
        if results[i] is None:
            results[i] = {"id": scheds[i].get("id"), "idx": i, "status": "skipped" if stuck[0] >= max_stuck else "harness_error",
                          "why": "not run: %d earlier runs froze" % stuck[0] if stuck[0] >= max_stuck else "no result produced", "obs": []}
        elif results[i]["status"] == "wall_timeout":
            # the worker had to be killed from outside: the same finding as the watchdog's
            results[i]["status"] = "hang"
            results[i]["why"] = "the worker process did not finish within %d s of wall-clock time | %s" % (
                per_timeout, stuck_frames(results[i].get("stacks") or ""))
    return results


def is_stuck(res):
    return res.get("status") == "hang" and (res.get("why") or "").startswith(("no progress for", "the worker process did not finish"))


def stuck_frames(text):
    fr = sorted(set(re.findall(r"nexus/v3/client\.([A-Za-z0-9_.()*]+)\(", text)))
    return ";".join(fr[:6]) or "?"


_PANIC = re.compile(r"^(panic: .*|fatal error: .*)$", re.M)
_FRAME = re.compile(r"nexus/v3/client\.([A-Za-z0-9_.()*]+)\(.*\n\s+\S+/client/client\.go:(\d+)")


def _crash_reason(out):
    m = _PANIC.search(out)
    what = m.group(1) if m else "worker died"
    what = re.sub(r"0x[0-9a-f]+", "0x..", what)
    what = re.sub(r"\[recovered.*", "", what).strip()
    f = _FRAME.search(out[m.start():] if m else out)
    where = ("client.%s" % f.group(1)) if f else "?"
    return "%s @ %s" % (what, where)


def crash_signature(res):
    """Stable signature of a crash: panic text + innermost client function."""
    return "crash: " + (res.get("why") or "?")


def hang_signature(res):
    why = res.get("why") or ""
    tail = why.split(" | ", 1)[1] if " | " in why else why
    kinds = []
    head = why.split(" | ", 1)[0]
    if "never returned" in head and "op " in head:
        kinds.append("api-never-returns")
    if "Close never returned" in head:
        kinds.append("close-never-returns")
    if "Done never signalled" in head:
        kinds.append("done-never-signalled")
    if head.startswith(("no progress for", "the worker process did not finish")):
        kinds.append("client-frozen")
    return "%s: %s: %s" % (res.get("status"), ",".join(kinds) or "goroutines-left", tail)


# --------------------------------------------------------------------------
# Coq terms


def cq_N(n):
    return "%d" % int(n)


def cq_Z(z):
    z = int(z)
    return "(%d)%%Z" % z


def cq_nat(n):
    return "%d%%nat" % int(n)


def cq_bool(b):
    return "true" if b else "false"


def cq_str(s):
    assert re.match(r"^[A-Za-z0-9_. -]*$", s), s
    return '"%s"%%string' % s


def cq_list(xs):
    return "[" + "; ".join(xs) + "]"


def cq_opt(x):
    return "None" if x is None else "(Some %s)" % x


def cq_value(v):
    ty = v.get("ty", "nil")
    if ty in ("nil", ""):
        return "VNil"
    if ty == "bool":
        return "(VBool %s)" % cq_bool(v.get("b", False))
    if ty in ("int", "uint", "goint", "id"):
        return "(VInt %s)" % cq_Z(v.get("u") or v.get("i", 0))
    if ty == "float":
        return "(VFloat %s)" % cq_Z(int(v.get("f", 0)))
    if ty == "str":
        return "(VStr %s)" % cq_str(v.get("s", ""))
    if ty == "bytes":
        dec = v.get("dec", "garbage")
        if dec == "null":
            return "(VBytes DecNull)"
        if dec == "valid":
            return "(VBytes (DecOk %s))" % cq_Z(v.get("i", 0))
        return "(VBytes DecFail)"
    if ty == "payload":
        return "(VPayload false %s)" % cq_Z(v.get("i", 0))
    if ty == "nilpayload":
        return "(VPayload true 0%Z)"
    return "VOther"


def cq_dict(d):
    if not d:
        return "[]"
    return cq_list("(%s, %s)" % (cq_str(k), cq_value(v)) for k, v in sorted(d.items()))


def msg_args(m):
    if m.get("args") is not None:
        return [cq_value(a) for a in m["args"]]
    if m.get("tag", 0) != 0 and not m.get("noargs"):
        return ["(VInt %s)" % cq_Z(m["tag"])]
    return []


def msg_atag(m):
    a = m.get("args")
    if a is not None:
        if a and a[0].get("ty") in ("int", "uint", "goint", "id"):
            return a[0].get("i", 0)
        return -1
    if m.get("tag", 0) != 0 and not m.get("noargs"):
        return m["tag"]
    return -1


def cq_rmsg(m, req):
    t = m["t"]
    d = cq_dict(m.get("details"))
    a = cq_list(msg_args(m))
    if t == "subscribed":
        return "(RSubscribed %s %s)" % (cq_N(req), cq_N(m.get("sub", 0)))
    if t == "unsubscribed":
        return "(RUnsubscribed %s)" % cq_N(req)
    if t == "registered":
        return "(RRegistered %s %s)" % (cq_N(req), cq_N(m.get("reg", 0)))
    if t == "unregistered":
        return "(RUnregistered %s)" % cq_N(req)
    if t == "published":
        return "(RPublished %s)" % cq_N(req)
    if t == "result":
        return "(RResult %s %s %s)" % (cq_N(req), d, a)
    if t == "error":
        return "(RError %s %s)" % (cq_N(req), cq_Z(msg_atag(m)))
    if t == "event":
        return "(REvent %s %s %s %s)" % (cq_N(m.get("sub", 0)), cq_N(m.get("pub", 0)), d, a)
    if t == "invocation":
        return "(RInvocation %s %s %s %s)" % (cq_N(req), cq_N(m.get("reg", 0)), d, a)
    if t == "interrupt":
        return "(RInterrupt %s)" % cq_N(req)
    if t == "goodbye":
        return "RGoodbye"
    if t == "abort":
        return "RAbort"
    return "ROther"


MODES = {"kill": "MKill", "killnowait": "MKillNoWait", "skip": "MSkip", "": "MKillNoWait"}


def cq_cfg(cfg):
    return "{| cfg_rt := %s; cfg_mode := %s; cfg_ppt := %s; cfg_progcall := %s |}" % (
        cq_N(cfg.get("rt_ms", RT)), MODES[cfg.get("cancel_mode", "")], cq_bool(cfg.get("ppt", False)),
        cq_bool(not cfg.get("no_progcall", False)))


def num_of(uri):
    m = re.search(r"\.n(\d+)$", uri or "")
    return int(m.group(1)) if m else 0


def op_is_bad(label):
    """A Call / acknowledged Publish whose user options fail the local PPT
    validation: nothing is sent."""
    opts = label.get("opts") or {}
    sch = opts.get("ppt_scheme")
    return bool(sch) and sch.get("ty") == "str" and sch.get("s", "") != ""


def cq_op(label, t_start):
    op = label["op"]
    n = cq_N(label.get("name", 0))
    dl = None
    if label.get("ctx") == "deadline":
        dl = cq_N(t_start + label.get("deadline_ms", 0))
    if op_is_bad(label):
        return "OpBadCall"
    if op in ("subscribe", "subscribechan"):
        return "(OpSubscribe %s)" % n
    if op == "unsubscribe":
        return "(OpUnsubscribe %s)" % n
    if op == "register":
        return "(OpRegister %s)" % n
    if op == "unregister":
        return "(OpUnregister %s)" % n
    if op == "publish":
        return "(OpPublish %s %s)" % (n, cq_bool(label.get("ack", False)))
    if op == "call":
        return "(OpCall %s %s %s)" % (n, cq_bool(label.get("prog", False)), cq_opt(dl))
    if op == "callprog":
        return "(OpCallProg %s %s %s %s)" % (n, cq_bool(label.get("prog", False)),
                                            cq_bool(label.get("chunks", 1) > 1), cq_opt(dl))
    raise ValueError(op)


HRES = {"ok": "(HOk %s)", "omit": "HOmit", "err": "HErr", "canceled": "HCanceled"}

LOCAL = {"ppt_serializer_invalid": 1, "serr": 2, "ppt_scheme_invalid": 3, "ppt_unsupported": 4,
         "progcall_unsupported": 5}

INVERR_TXT = [
    ("client has no handler", "IENoHandler"),
    ("ppt scheme provided is invalid", "IEScheme"),
    ("ppt serializer provided is invalid", "(IEUnpack 1%nat)"),
    ("can not serialize/deserialize", "(IEUnpack 2%nat)"),
]


class Unmodelled(Exception):
    """The observation is outside what the model's output alphabet covers."""


def cq_out(o, sched_ops, op_req):
    e = o["e"]
    if e == "sent":
        typ = o["typ"]
        req = cq_N(o.get("req", 0))
        if typ == "SUBSCRIBE":
            return "OSend (CSubscribe %s %s)" % (req, cq_N(num_of(o.get("uri"))))
        if typ == "UNSUBSCRIBE":
            return "OSend (CUnsubscribe %s %s)" % (req, cq_N(o.get("sub", 0)))
        if typ == "REGISTER":
            return "OSend (CRegister %s %s)" % (req, cq_N(num_of(o.get("uri"))))
        if typ == "UNREGISTER":
            return "OSend (CUnregister %s %s)" % (req, cq_N(o.get("reg", 0)))
        if typ == "PUBLISH":
            return "OSend (CPublish %s %s %s)" % (req, cq_N(num_of(o.get("uri"))), cq_bool(o.get("prog", False)))
        if typ == "CALL":
            return "OSend (CCall %s %s %s %s)" % (req, cq_N(num_of(o.get("uri"))), cq_bool(o.get("prog", False)),
                                                  cq_bool(o.get("mode") == "recvprog"))
        if typ == "CANCEL":
            m = o.get("mode", "")
            if m not in ("kill", "killnowait", "skip"):
                raise Unmodelled("CANCEL mode %r" % m)
            return "OSend (CCancel %s %s)" % (req, MODES[m])
        if typ == "YIELD":
            return "OSend (CYield %s %s %s)" % (req, cq_Z(o.get("tag", -1)), cq_bool(o.get("prog", False)))
        if typ == "ERROR":
            uri = o.get("uri", "")
            if uri == "wamp.error.canceled":
                return "OSend (CErrorInv %s IECanceled)" % req
            if uri == "x.app.error":
                return "OSend (CErrorInv %s IEApp)" % req
            for frag, code in INVERR_TXT:
                if frag in o.get("txt", ""):
                    return "OSend (CErrorInv %s %s)" % (req, code)
            raise Unmodelled("ERROR %s %s" % (uri, o.get("txt")))
        if typ == "GOODBYE":
            return "OSend CGoodbye"
        if typ == "ABORT":
            return "OSend CAbort"
        raise Unmodelled("sent " + typ)
    if e == "ret":
        k = o["o"]
        lab = sched_ops.get(k, {})
        rid = op_req.get(k, 0)
        r = o["r"]
        if r == "ok":
            kind = lab.get("op")
            if kind in ("subscribe", "subscribechan"):
                rr = "(RetSub %s)" % cq_N(o.get("sub", 0))
            elif kind == "register":
                rr = "(RetReg %s)" % cq_N(o.get("reg", 0))
            elif kind in ("call", "callprog"):
                rr = "(RetResult %s %s %s %s)" % (cq_N(o.get("req", 0)), cq_Z(o.get("tag", -1)), cq_nat(o.get("n", 0)),
                                                 cq_bool(o.get("prog", False)))
            else:
                rr = "RetOk"
        elif r == "timeout":
            rr = "RetTimeout"
        elif r == "notconn":
            rr = "RetNotConn"
        elif r == "ctx_canceled":
            rr = "(RetCtx false)"
        elif r == "ctx_deadline":
            rr = "(RetCtx true)"
        elif r == "rpcerr":
            rr = "(RetRpcErr %s %s)" % (cq_N(o.get("req", 0)), cq_Z(o.get("tag", -1)))
        elif r == "err_reply":
            rr = "(RetErrReply %s)" % cq_Z(o.get("tag", -1))
        elif r == "unexpected":
            rr = "RetUnexpected"
        elif r == "notsub":
            rr = "RetNotSub"
        elif r == "notreg":
            rr = "RetNotReg"
        elif r in LOCAL:
            rr = "(RetLocal %s)" % cq_nat(LOCAL[r])
        else:
            raise Unmodelled("return %s %s" % (r, o.get("txt")))
        if op_is_bad(lab):
            rid = 0
        return "OReturn %s %s %s" % (cq_nat(k), cq_N(rid), rr)
    if e == "event":
        return "OEvent %s %s %s %s %s" % (cq_nat(o["o"]), cq_N(o.get("sub", 0)), cq_N(o.get("pub", 0)),
                                         cq_Z(o.get("tag", -1)), cq_nat(o.get("n", 0)))
    if e == "inv":
        return "OHandler %s %s %s %s %s %s %s" % (cq_nat(o["o"]), cq_N(o.get("req", 0)), cq_N(o.get("reg", 0)),
                                                  cq_Z(o.get("tag", -1)), cq_nat(o.get("n", 0)),
                                                  cq_bool(o.get("prog", False)), cq_bool(o.get("ctx", False)))
    if e == "prog":
        return "OProgress %s %s %s %s" % (cq_nat(o["o"]), cq_N(o.get("req", 0)), cq_Z(o.get("tag", -1)), cq_nat(o.get("n", 0)))
    if e == "sprogret":
        return "OSProgRet %s %s" % (cq_N(o.get("req", 0)), cq_bool(o.get("r") == "ok"))
    if e == "setmode":
        return "OSetMode %s" % cq_bool(o.get("r") == "ok")
    if e == "done":
        return "ODone"
    if e == "closeret":
        return "OCloseRet %s %s" % (cq_nat(o["o"]), cq_bool(o.get("r") == "already_closed"))
    if e == "cclosed":
        return "OPeerClosed"
    return None


def build_case(sched, res):
    """-> (cfg term, [burst terms], readable trace) for Client/ClientCases.v.
    Raises Unmodelled when an observation cannot be expressed."""
    ops = {}
    for b in sched["bursts"]:
        for l in b["labels"]:
            if l["k"] == "api":
                ops[l["o"]] = l
    obs = res["obs"]
    op_req = {}
    for o in obs:
        if o["e"] == "sent" and o.get("xop") and o["xop"] not in op_req and o["typ"] in (
                "SUBSCRIBE", "UNSUBSCRIBE", "REGISTER", "UNREGISTER", "PUBLISH", "CALL"):
            op_req[o["xop"]] = o.get("req", 0)
    nb = len(sched["bursts"])
    by_burst = {}
    for o in obs:
        by_burst.setdefault(o["b"], []).append(o)
    terms = []
    readable = []
    now = 0
    for bi, b in enumerate(sched["bursts"]):
        now += b.get("adv", 0)
        here = by_burst.get(bi, [])
        times = sorted(set(o["t"] for o in here if o["t"] < now))
        groups = [(t, [o for o in here if o["t"] == t], False) for t in times]
        groups.append((now, [o for o in here if o["t"] >= now], True))
        for (t, os_, main) in groups:
            msgs, others, outs = [], [], []
            if main:
                rm = {o.get("n", 0): o for o in os_ if o["e"] == "rmsg"}
                for li, l in enumerate(b["labels"]):
                    k = l["k"]
                    if k == "api":
                        rid = op_req.get(l["o"], 0)
                        if op_is_bad(l):
                            rid = 0
                        others.append("ApiStart %s %s %s" % (cq_nat(l["o"]), cq_op(l, now), cq_N(rid)))
                    elif k == "msg":
                        if li in rm:
                            msgs.append(cq_rmsg(l["m"], rm[li].get("req", 0)))
                    elif k == "cancel":
                        others.append("CtxCancel %s" % cq_nat(l["o"]))
                    elif k == "hret":
                        r = HRES[l.get("r", "ok")]
                        if "%s" in r:
                            r = r % cq_Z(l.get("tag", 0))
                        others.append("HandlerReturn %s %s" % (cq_N(l["inv"]), r))
                    elif k == "sprog":
                        others.append("SendProg %s %s" % (cq_N(l["inv"]), cq_Z(l.get("tag", 0))))
                    elif k == "chunk":
                        others.append("ChunkSend %s %s" % (cq_nat(l["o"]), cq_bool(not l.get("final", False))))
                    elif k == "chunkerr":
                        others.append("ChunkErr %s" % cq_nat(l["o"]))
                    elif k == "close":
                        others.append("CloseStart %s" % cq_nat(l["o"]))
                    elif k == "end":
                        others.append("TransportEnd")
                    elif k in ("stall", "unstall"):
                        pass    # the router end's reading is not part of the model
                    elif k == "setmode":
                        m = l.get("mode", "")
                        others.append("SetMode %s" % ("MRDefault" if m == "" else
                                                      "(MRSet %s)" % MODES[m] if m in ("kill", "killnowait", "skip") else "MRInvalid"))
            for o in os_:
                if o["e"] == "invctx":
                    others.append("HandlerReturn %s HCanceled" % cq_N(o.get("req", 0)))
                elif o["e"] == "feederr":
                    others.append("ChunkErr %s" % cq_nat(o["o"]))
                else:
                    x = cq_out(o, ops, op_req)
                    if x is not None:
                        outs.append(x)
            terms.append("{| b_time := %s; b_msgs := %s; b_others := %s; b_obs := %s |}" % (
                cq_N(t), cq_list(msgs), cq_list(others), cq_list(outs)))
            readable.append({"t": t, "burst": bi, "msgs": msgs, "labels": others, "observed": outs})
    return cq_cfg(sched["cfg"]), terms, readable


CASES_HEAD = """From Coq Require Import List NArith ZArith Bool String.
From Nexus Require Import Client.ClientModel Client.ClientCases.
Import ListNotations.
Open Scope N_scope.
"""


def run_cases(cases, tag, timeout=1500, shards=None):
    """cases: list of (index, cfg term, burst terms).  Returns (failing
    [(index, burst)], error text).  Evaluated by vm_compute in shards."""
    if not cases:
        return [], ""
    shards = shards or min(common.NPROC, max(1, len(cases) // 12))
    d = os.path.join(common.COQ, "cases")
    os.makedirs(d, exist_ok=True)
    # the model must be compiled first (coq_props has normally just done it)
    def fresh(v):
        vo = os.path.join(common.COQ, v[:-2] + ".vo")
        src = os.path.join(common.COQ, v)
        return os.path.exists(vo) and os.path.getmtime(vo) >= os.path.getmtime(src)
    if not (fresh("Client/ClientModel.v") and fresh("Client/ClientCases.v")
            and os.path.getmtime(os.path.join(common.COQ, "Client/ClientCases.vo"))
            >= os.path.getmtime(os.path.join(common.COQ, "Client/ClientModel.vo"))):
        ok, log = common.coq_make(["Client/ClientCases.vo"])
        if not ok:
            return [], "Client/ClientCases.v does not compile:\n" + log[-3000:]
    parts = [cases[i::shards] for i in range(shards)]

    def one(ix):
        part = parts[ix]
        if not part:
            return [], ""
        name = "cases_%s_%s_%d" % (tag, common.repo_key().replace("-", "_"), ix)
        path = os.path.join(d, name + ".v")
        with open(path, "w") as f:
            f.write(CASES_HEAD)
            for (i, cfg, bursts) in part:
                f.write("Definition c%d : case := {| k_name := %d%%nat; k_cfg := %s; k_bursts := [\n  %s ] |}.\n" % (
                    i, i, cfg, ";\n  ".join(bursts)))
            f.write("Definition all_cases := %s.\n" % cq_list("c%d" % i for (i, _, _) in part))
            f.write("Eval vm_compute in (failing checked all_cases).\n")
        rc, out = common.run(["coqc", "-Q", common.COQ, "Nexus", path], cwd=d, timeout=timeout)
        if rc != 0:
            return [], out[-3000:]
        m = re.search(r"=\s*(\[.*?\])\s*:\s*list", out, re.S)
        if not m:
            return [], "cannot parse coqc output:\n" + out[-2000:]
        pairs = re.findall(r"\((\d+)%?n?a?t?,\s*(\d+)%?n?a?t?\)", m.group(1))
        return [(int(a), int(b)) for a, b in pairs], ""

    failing, errs = [], []
    with ThreadPoolExecutor(max_workers=shards) as ex:
        for fl, err in ex.map(one, range(shards)):
            failing += fl
            if err:
                errs.append(err)
    return sorted(failing), "\n".join(errs)


def predict(case, k, tag="predict"):
    """What the model admits for burst k of one case (diagnostics in replays)."""
    (i, cfg, bursts) = case
    d = os.path.join(common.COQ, "cases")
    os.makedirs(d, exist_ok=True)
    path = os.path.join(d, "predict_%s_%s.v" % (tag, common.repo_key().replace("-", "_")))
    with open(path, "w") as f:
        f.write(CASES_HEAD)
        f.write("Definition bs := [\n  %s ].\n" % ";\n  ".join(bursts))
        f.write("Eval vm_compute in (predict_at checked %d%%nat [init %s] bs).\n" % (k, cfg))
    rc, out = common.run(["coqc", "-Q", common.COQ, "Nexus", path], cwd=d, timeout=600)
    m = re.search(r"=\s*(.*?)\s*:\s*list \(list out\)", out, re.S)
    return re.sub(r"\s+", " ", m.group(1)) if m else out[-1500:]


# --------------------------------------------------------------------------
# generators


def V(ty, **kw):
    d = {"ty": ty}
    d.update(kw)
    return d


class Builder:
    """Builds one schedule while tracking virtual time and what is pending."""

    def __init__(self, rng, sid, cfg):
        self.rng = rng
        self.s = {"id": sid, "cfg": cfg, "bursts": []}
        self.now = 0
        self.rt = cfg.get("rt_ms", RT)
        self.nop = 0
        self.pending = {}   # op -> info (kind, name, deadline, ...)
        self.subs = {}      # topic -> sub id (as announced)
        self.regs = {}      # proc -> reg id
        self.nextsub = 100
        self.nextreg = 200
        self.nextinv = 0
        self.nexttag = 0
        self.invs = {}      # inv request id -> info
        self.closed = False
        self.ended = False
        self.last_adv0 = False
        self.feeders = set()   # callprog ops whose feeder still waits for chunks

    def tag(self):
        self.nexttag += 1
        return self.nexttag

    def burst(self, labels, adv=0, prearm=False):
        b = {"adv": adv, "labels": labels}
        if prearm and adv > 0 and self.s["bursts"] and self.s["bursts"][-1]["adv"] == 0:
            b["prearm"] = True
        self.now += adv
        self.s["bursts"].append(b)
        return b

    def api(self, op, name=0, **kw):
        self.nop += 1
        l = {"k": "api", "o": self.nop, "op": op, "name": name}
        l.update(kw)
        info = {"kind": op, "name": name, "start": self.now, "label": l}
        if op not in ("call", "callprog"):
            info["deadline"] = self.now + self.rt
        self.pending[self.nop] = info
        return l

    def msg(self, t, **kw):
        m = {"t": t}
        m.update(kw)
        return {"k": "msg", "m": m}

    def reply_ok(self, o):
        info = self.pending[o]
        k = info["kind"]
        ref = {"op": o}
        if k in ("subscribe", "subscribechan"):
            if "sub" not in info:
                self.nextsub += 1
                info["sub"] = self.nextsub
            return self.msg("subscribed", req=ref, sub=info["sub"])
        if k == "unsubscribe":
            return self.msg("unsubscribed", req=ref)
        if k == "register":
            if "reg" not in info:
                self.nextreg += 1
                info["reg"] = self.nextreg
            return self.msg("registered", req=ref, reg=info["reg"])
        if k == "unregister":
            return self.msg("unregistered", req=ref)
        if k == "publish":
            return self.msg("published", req=ref, pub=7)
        return self.msg("result", req=ref, tag=self.tag())

    def reply_err(self, o):
        return self.msg("error", req={"op": o}, tag=self.tag(), errtype=0, uri="x.err")

    def done(self, o, ok):
        """Bookkeeping once op o has (surely) returned."""
        info = self.pending.pop(o, None)
        if not info or not ok:
            return
        if info["kind"] in ("subscribe", "subscribechan") and "sub" in info:
            self.subs[info["name"]] = (info["sub"], o)
        if info["kind"] == "register" and "reg" in info:
            self.regs[info["name"]] = (info["reg"], o)
        if info["kind"] == "unsubscribe":
            self.subs.pop(info["name"], None)
        if info["kind"] == "unregister":
            self.regs.pop(info["name"], None)


def finish(b, polite=True):
    """Explicit end of every schedule: Close, then GOODBYE from the router (or
    silence, so that Close has to give up after 2 x ResponseTimeout)."""
    if b.closed:
        return
    # The feeder goroutine of a CallProgressive outlives the call; let every
    # feeder finish first (a feeder that sends after Close is the subject of
    # a directed C17 script, not of every schedule).
    for o in sorted(b.feeders):
        b.burst([{"k": "chunkerr", "o": o}])
    b.feeders.clear()
    b.nop += 1
    b.burst([{"k": "close", "o": b.nop}])
    if b.ended:
        return
    if polite:
        b.burst([b.msg("goodbye")])
    else:
        b.burst([], adv=2 * b.rt)
    b.closed = True


def gen_c16(rng, sid):
    """One schedule for C16: G goroutines, every reply order / delay pattern,
    replies coinciding with timeouts and cancellations, progressive results,
    invocation / interrupt orders."""
    cfg = {"rt_ms": RT, "ppt": rng.random() < 0.3,
           "cancel_mode": rng.choice(["", "kill", "killnowait", "skip"])}
    b = Builder(rng, sid, cfg)
    G = rng.randint(2, 8)
    kinds = ["subscribe", "register", "call", "call", "publish", "subscribechan", "register", "callprog", "subscribechan"]
    # phase 1: start G operations, all at once or in two waves
    labels = []
    for g in range(G):
        k = rng.choice(kinds)
        if k == "call":
            ctx = rng.choice(["bg", "cancel", "cancel", "deadline"])
            kw = {"prog": rng.random() < 0.5, "ctx": ctx}
            if ctx == "deadline":
                kw["deadline_ms"] = rng.choice([1000, RT, 7000])
            labels.append(b.api("call", rng.randint(1, 4), **kw))
        elif k == "callprog":
            labels.append(b.api("callprog", rng.randint(1, 4), prog=rng.random() < 0.5, ctx="cancel",
                                chunks=rng.randint(1, 3)))
        elif k == "publish":
            labels.append(b.api("publish", rng.randint(1, 4), ack=rng.random() < 0.8))
        else:
            labels.append(b.api(k, rng.randint(1, 5)))
    cut = rng.randint(1, len(labels))
    b.burst(labels[:cut])
    if labels[cut:]:
        b.burst(labels[cut:], adv=rng.choice([0, 0, 1000]))
    for l in labels:
        if l["op"] == "publish" and not l.get("ack"):
            b.pending.pop(l["o"], None)
    for o, info in b.pending.items():
        if info["kind"] == "callprog":
            info["left"] = info["label"].get("chunks", 1) - 1
            if info["left"] > 0:
                b.feeders.add(o)
        if info["kind"] == "call" and info["label"].get("ctx") == "deadline":
            info["ctxdl"] = info["start"] + info["label"]["deadline_ms"]

    # the application reconfigures the cancel mode between its calls: the CANCEL of a later
    # cancellation carries the LAST accepted setting ("" = killnowait, an invalid one changes nothing)
    setmodes = ["", "kill", "skip", "killnowait", "bogus"]
    if rng.random() < 0.6:
        for _ in range(rng.randint(1, 3)):
            b.burst([{"k": "setmode", "mode": rng.choice(setmodes)}])

    # phase 2: answer / time out / cancel, in a random order
    steps = 0
    while b.pending and steps < 30:
        steps += 1
        if rng.random() < 0.08:
            b.burst([{"k": "setmode", "mode": rng.choice(setmodes)}])
        o = rng.choice(sorted(b.pending))
        info = b.pending[o]
        k = info["kind"]
        dl = info.get("deadline")
        if dl is not None and dl < b.now:
            b.done(o, False)   # already timed out
            continue
        if "ctxdl" in info and info["ctxdl"] < b.now and not info.get("cancelled"):
            info["cancelled"] = True
            info["deadline"] = info["ctxdl"] + b.rt
            continue
        fate = rng.random()
        if info.get("cancelled"):
            # waiting for the ERROR that answers CANCEL
            if fate < 0.45:
                b.burst([b.reply_err(o)])
                b.done(o, False)
            elif fate < 0.6:
                if rng.random() < 0.5 and info["deadline"] - b.now > 1500:
                    # results that keep coming after the CANCEL: discarded, and the
                    # response timer keeps running from the CANCEL
                    for _ in range(rng.randint(1, 3)):
                        step = rng.choice([500, 1000])
                        if info["deadline"] - b.now <= step:
                            break
                        b.burst([b.msg("result", req={"op": o}, tag=b.tag(), details={"progress": V("bool", b=True)})
                                 if rng.random() < 0.6 else b.reply_ok(o)], adv=step)
                else:
                    b.burst([b.reply_ok(o)])                  # a RESULT: discarded
            elif fate < 0.8 and info["deadline"] > b.now:
                b.burst([b.reply_err(o)], adv=info["deadline"] - b.now, prearm=rng.random() < 0.5)
                b.done(o, False)                              # ERROR coincides with the timer
            else:
                if info["deadline"] > b.now:
                    b.burst([], adv=info["deadline"] - b.now)
                b.done(o, False)
            continue
        if k in ("call", "callprog"):
            if info.get("left", 0) > 0 and fate < 0.5:
                info["left"] -= 1
                final = info["left"] == 0
                if rng.random() < 0.1:
                    b.burst([{"k": "chunkerr", "o": o}])
                    info["left"] = 0
                    final = True
                else:
                    b.burst([{"k": "chunk", "o": o, "final": final}])
                if final:
                    b.feeders.discard(o)
                continue
            if fate < 0.25 and info["label"].get("prog"):
                n = rng.randint(1, 3)
                b.burst([b.msg("result", req={"op": o}, tag=b.tag(), details={"progress": V("bool", b=True)})
                         for _ in range(n)])
            elif fate < 0.4:
                # progressive results immediately followed by the final one
                ms = [b.msg("result", req={"op": o}, tag=b.tag(), details={"progress": V("bool", b=True)})
                      for _ in range(rng.randint(0, 2))]
                b.burst(ms + [b.reply_ok(o)])
                b.done(o, True)
            elif fate < 0.5:
                if info["label"].get("prog") and rng.random() < 0.5:
                    # progressive results with the ERROR right behind them
                    b.burst([b.msg("result", req={"op": o}, tag=b.tag(), details={"progress": V("bool", b=True)})
                             for _ in range(rng.randint(2, 4))] + [b.reply_err(o)])
                else:
                    b.burst([b.reply_err(o)])
                b.done(o, False)
            elif fate < 0.75 and info["label"].get("ctx") in ("cancel",):
                # cancel: alone, or coinciding with the reply
                c = {"k": "cancel", "o": o}
                how = rng.random()
                if how < 0.15 and info["label"].get("prog"):
                    # a progressive result, the cancellation and the ERROR in one burst
                    b.burst([b.msg("result", req={"op": o}, tag=b.tag(), details={"progress": V("bool", b=True)}),
                             c, b.reply_err(o)])
                    b.done(o, False)
                elif how < 0.4:
                    b.burst([c])
                    info["cancelled"] = True
                    info["deadline"] = b.now + b.rt
                elif how < 0.7:
                    labs = [c, b.reply_ok(o)]
                    rng.shuffle(labs)
                    b.burst(labs)
                    info["cancelled"] = True      # maybe; the reply may have won
                    info["deadline"] = b.now + b.rt
                    info["maybe_done"] = True
                else:
                    labs = [c, b.reply_err(o)]
                    rng.shuffle(labs)
                    b.burst(labs)
                    b.done(o, False)
            elif fate < 0.85 and "ctxdl" in info and info["ctxdl"] >= b.now:
                # reply coinciding with the context deadline
                b.burst([rng.choice([b.reply_ok, b.reply_err])(o)], adv=info["ctxdl"] - b.now,
                        prearm=rng.random() < 0.5)
                info["cancelled"] = True
                info["deadline"] = b.now + b.rt
                info["maybe_done"] = True
            else:
                b.burst([b.reply_ok(o)])
                b.done(o, True)
            continue
        # timed operations
        if fate < 0.35:
            b.burst([b.reply_ok(o)], adv=rng.choice([0, 0, 10, 1000]) if dl - b.now > 1000 else 0)
            b.done(o, True)
        elif fate < 0.45:
            b.burst([b.reply_err(o)])
            b.done(o, False)
        elif fate < 0.75:
            # reply coinciding with the response timeout
            b.burst([rng.choice([b.reply_ok, b.reply_ok, b.reply_err])(o)], adv=dl - b.now,
                    prearm=rng.random() < 0.6)
            b.done(o, False)
            info["maybe"] = True
        elif fate < 0.85:
            # duplicate replies / replies in a burst with someone else's
            other = rng.choice(sorted(b.pending))
            labs = [b.reply_ok(o), b.reply_ok(o)]
            if other != o and b.pending[other]["kind"] not in ("call", "callprog"):
                labs.insert(rng.randint(0, 2), b.reply_ok(other))
                b.burst(labs)
                b.done(other, True)
            else:
                b.burst(labs)
            b.done(o, True)
        elif fate < 0.92:
            b.burst([b.msg("subscribed", req={"lit": 900 + o}, sub=5)])   # unknown request id
        else:
            b.burst([], adv=dl - b.now + rng.choice([0, 1]))               # plain timeout
            b.done(o, False)

    # phase 3: events and invocations for what got installed
    for _ in range(rng.randint(0, 4)):
        r = rng.random()
        if b.subs and r < 0.45:
            topic = rng.choice(sorted(b.subs))
            sub, o = b.subs[topic]
            n = rng.randint(1, 3)
            b.burst([b.msg("event", sub=sub, pub=b.tag(), tag=b.tag()) for _ in range(n)])
            if rng.random() < 0.3:
                b.burst([b.api("unsubscribe", topic), b.msg("event", sub=sub, pub=b.tag(), tag=b.tag())])
                uo = b.nop
                b.burst([b.reply_ok(uo)])
                b.done(uo, True)
        elif b.regs and r < 0.9:
            gen_invocation(b)
        else:
            b.burst([b.msg("event", sub=999, pub=b.tag(), tag=b.tag())])   # unknown subscription
    # a fresh subscribe with the EVENT right behind SUBSCRIBED (handler window)
    if rng.random() < 0.3:
        lab = b.api("subscribe", 9)
        o = b.nop
        b.burst([lab])
        m = b.reply_ok(o)
        b.burst([m, b.msg("event", sub=b.pending[o]["sub"], pub=b.tag(), tag=b.tag())])
        b.done(o, True)

    # phase 4: the end
    r = rng.random()
    if r < 0.5:
        finish(b, polite=True)
    elif r < 0.65:
        finish(b, polite=False)
    elif r < 0.85:
        b.burst([{"k": "end"}])
        b.ended = True
        finish(b)
    else:
        b.burst([b.msg(rng.choice(["goodbye", "abort"]), uri="wamp.close.system_shutdown")])
        b.ended = True
        finish(b)
    return b.s


def gen_invocation(b):
    rng = b.rng
    proc = rng.choice(sorted(b.regs))
    reg, ro = b.regs[proc]
    b.nextinv += rng.choice([1, 1, 2])
    iid = b.nextinv
    shape = rng.random()
    det = {}
    if rng.random() < 0.35:
        # every numeric kind a decoder can hand the client (AsInt64 takes them all)
        ms = rng.choice([1000, 3000, 3000, 2 ** 62])
        kind = rng.choice(["int", "uint", "goint", "float"]) if ms < 10 ** 6 else rng.choice(["int", "uint"])
        det["timeout"] = V("float", f=float(ms)) if kind == "float" else V(kind, i=ms)
        if rng.random() < 0.05:
            det["timeout"] = V("uint", u=2 ** 63 + 5)      # wraps negative: no deadline
    if rng.random() < 0.4:
        det["receive_progress"] = V("bool", b=True)
    inv = lambda progress=False: b.msg("invocation", req={"lit": iid}, reg=reg, tag=b.tag(),
                                       details=dict(det, **({"progress": V("bool", b=True)} if progress else {})))
    hret = lambda r: {"k": "hret", "inv": iid, "r": r, "tag": b.tag()}
    intr = b.msg("interrupt", req={"lit": iid})
    tmo = det.get("timeout")
    tmo_ms = int(tmo.get("f") or tmo.get("i") or 0) if tmo else 0
    if tmo and 0 < tmo_ms < 10 ** 6 and rng.random() < 0.45:
        shape = 0.85          # let the invocation's own timeout strike
    if shape < 0.3:
        b.burst([inv()])
        if det.get("receive_progress") and rng.random() < 0.5:
            b.burst([{"k": "sprog", "inv": iid, "tag": b.tag()}])
        b.burst([hret(rng.choice(["ok", "ok", "err", "canceled"]))])
    elif shape < 0.45:
        # interrupt while running, alone or coinciding with the handler's return
        b.burst([inv()])
        if rng.random() < 0.5:
            b.burst([intr])
        else:
            labs = [intr, hret("ok")]
            rng.shuffle(labs)
            b.burst(labs)
        b.burst([intr])                                # a second INTERRUPT: nothing left to cancel
    elif shape < 0.55:
        b.burst([inv(), intr])                         # INTERRUPT right behind INVOCATION
    elif shape < 0.7:
        # progressive invocation: chunks, in bursts
        n = rng.randint(2, 4)
        chunks = [inv(progress=(i < n - 1)) for i in range(n)]
        if rng.random() < 0.5:
            b.burst(chunks[:2])
            rest = chunks[2:]
        else:
            b.burst(chunks[:1])
            rest = chunks[1:]
        bad = rng.random() < 0.25
        for i in range(n):
            last = i == n - 1
            if bad and i == 1:
                b.burst([hret("err")])
                b.burst(rest)                          # in-flight chunks after the error: ignored
                rest = []
                break
            b.burst([hret("ok" if last else "omit")])
            if rest:
                b.burst([rest.pop(0)])
    elif shape < 0.8:
        # duplicate / stale ids
        b.burst([inv()])
        b.burst([inv()])                               # same id while the handler runs: queued, never run
        b.burst([hret("ok")])
        b.burst([inv()])                               # same id after the end: stale
        if iid > 1:
            b.burst([b.msg("invocation", req={"lit": iid - 1}, reg=reg, tag=b.tag())])   # older id: stale
    elif shape < 0.9 and 0 < tmo_ms < 10 ** 6:
        b.burst([inv()])
        if rng.random() < 0.5:
            b.burst([], adv=tmo_ms)                    # the invocation's own timeout
        else:
            b.burst([hret("ok")], adv=tmo_ms, prearm=rng.random() < 0.5)
    elif shape < 0.95:
        b.burst([inv()])                               # the handler is still running when the client closes
    else:
        b.burst([b.msg("invocation", req={"lit": iid}, reg=777, tag=b.tag())])   # unknown registration


# --------------------------------------------------------------------------
# monitors: the C16 / C17 predicates on what the implementation did


class Trace:
    """Schedule + observations, indexed for the monitors."""

    def __init__(self, sched, res):
        self.s = sched
        self.r = res
        # what happens in the harness's own epilogue (everything is released,
        # the client is closed) is not judged by the monitors
        self.obs = [o for o in res.get("obs", []) if o.get("b", 0) < len(sched["bursts"])]
        self.rt = sched["cfg"].get("rt_ms", RT)
        self.mode = sched["cfg"].get("cancel_mode", "") or "killnowait"
        self.ops = {}
        self.times = []
        now = 0
        for bi, b in enumerate(sched["bursts"]):
            now += b.get("adv", 0)
            self.times.append(now)
            for l in b["labels"]:
                if l["k"] == "api":
                    self.ops[l["o"]] = dict(l, burst=bi, t=now)
        self.op_req = {}
        for o in self.obs:
            if o["e"] == "sent" and o.get("xop") and o["xop"] not in self.op_req and o["typ"] in (
                    "SUBSCRIBE", "UNSUBSCRIBE", "REGISTER", "UNREGISTER", "PUBLISH", "CALL"):
                self.op_req[o["xop"]] = o.get("req", 0)
        # router messages actually sent: (position in obs, burst, time, label message, resolved request id)
        self.sent = []
        for pos, o in enumerate(self.obs):
            if o["e"] == "rmsg" and 0 <= o["b"] < len(sched["bursts"]):
                labs = sched["bursts"][o["b"]]["labels"]
                li = o.get("n", 0)
                if li < len(labs) and labs[li]["k"] == "msg":
                    self.sent.append((pos, o["b"], o["t"], labs[li]["m"], o.get("req", 0)))
        self.rets = {}
        for pos, o in enumerate(self.obs):
            if o["e"] == "ret":
                self.rets.setdefault(o["o"], []).append((pos, o))
        self.end_t = None   # when the connection ended (router's doing or Close)
        for pos, o in enumerate(self.obs):
            if o["e"] == "done":
                self.end_t = o["t"]
                break

    def mode_at(self, pos):
        """The cancel mode configured when log entry `pos` was written: the last
        accepted SetCallCancelMode before it ("" = killnowait), else the initial one."""
        m = self.mode
        for o in self.obs[:pos]:
            if o["e"] == "setmode" and o.get("r") == "ok":
                m = o.get("mode") or "killnowait"
        return m

    def msgs_for(self, req, kinds=None):
        return [x for x in self.sent if x[4] == req and req != 0 and (kinds is None or x[3]["t"] in kinds)]


def eff_timeout(v):
    """wamp.AsInt64 of a timeout detail (None when it is not numeric)."""
    ty = (v or {}).get("ty")
    if ty in ("int", "goint", "id"):
        return int(v.get("i", 0))
    if ty == "uint":
        z = int(v.get("u") or v.get("i", 0))
        return z - 2 ** 64 if z >= 2 ** 63 else z
    if ty == "float":
        return int(v.get("f", 0))
    return None


def is_progressive(m):
    d = (m.get("details") or {}).get("progress")
    return bool(d) and d.get("ty") == "bool" and d.get("b") is True


def monitor_c16(sched, res):
    """-> list of (signature, what).  The C16 predicates on the observed run."""
    T = Trace(sched, res)
    bad = []

    def v(sig, what):
        bad.append(("C16 " + sig, what))

    FINAL = {"subscribe": "subscribed", "subscribechan": "subscribed", "unsubscribe": "unsubscribed", "register": "registered",
             "unregister": "unregistered", "publish": "published", "call": "result", "callprog": "result"}
    cancel_t = {}
    for bi, b in enumerate(sched["bursts"]):
        for l in b["labels"]:
            if l["k"] == "cancel":
                cancel_t.setdefault(l["o"], T.times[bi])
    for o, lab in T.ops.items():
        if lab.get("ctx") == "deadline":
            cancel_t.setdefault(o, lab["t"] + lab.get("deadline_ms", 0))
    cancels_sent = {}
    for pos, ob in enumerate(T.obs):
        if ob["e"] == "sent" and ob["typ"] == "CANCEL":
            cancels_sent.setdefault(ob.get("req", 0), []).append((pos, ob))

    t_last = T.times[-1] if T.times else 0
    for o, lab in T.ops.items():
        kind = lab["op"]
        rets = T.rets.get(o, [])
        if len(rets) > 1:
            v("api returned twice", "op %d (%s) returned %d times" % (o, kind, len(rets)))
        # "... or an error when the reply does not come within the response timeout":
        # once virtual time has passed the deadline the call must have returned
        req0 = T.op_req.get(o, 0)
        if req0:
            if kind in ("call", "callprog"):
                ct0 = cancel_t.get(o)
                mine0 = [c for c in cancels_sent.get(req0, []) if ct0 is not None and c[1]["t"] >= ct0 and c[1].get("mode") == T.mode_at(c[0])]
                dl0 = mine0[0][1]["t"] + T.rt if mine0 else None
            else:
                dl0 = lab["t"] + T.rt
            if dl0 is not None and dl0 <= t_last and (not rets or rets[0][1]["t"] > dl0):
                v("call outlived its response timeout",
                  "op %d (%s): %s at %d, response timeout %d, still not returned at %d%s" % (
                      o, kind, "CANCEL sent" if kind in ("call", "callprog") else "started", dl0 - T.rt, T.rt,
                      rets[0][1]["t"] if rets else t_last, "" if rets else " (end of the schedule)"))
        if not rets:
            continue   # the harness reports an API call that never returns as a hang
        pos, r = rets[0]
        req = T.op_req.get(o, 0)
        rr = r["r"]
        mine = T.msgs_for(req)
        before = [x for x in mine if x[0] < pos]
        if rr == "ok":
            want = FINAL[kind]
            if kind == "publish" and not lab.get("ack"):
                pass
            else:
                cands = [x for x in before if x[3]["t"] == want]
                if not cands:
                    v("returned without its own reply", "op %d (%s, request %d) returned success but no %s with its request id had been sent"
                      % (o, kind, req, want.upper()))
                elif kind in ("subscribe", "subscribechan") and r.get("sub") not in [x[3].get("sub") for x in cands]:
                    v("returned another request's reply", "op %d subscribe: subscription id %s is not the one of its SUBSCRIBED" % (o, r.get("sub")))
                elif kind == "register" and r.get("reg") not in [x[3].get("reg") for x in cands]:
                    v("returned another request's reply", "op %d register: registration id %s is not the one of its REGISTERED" % (o, r.get("reg")))
                elif kind in ("call", "callprog"):
                    tags = [msg_atag(x[3]) for x in cands if not (is_progressive(x[3]) and lab.get("prog"))
                            and not (x[3].get("details") or {}).get("ppt_scheme")]
                    ppt = [x for x in cands if (x[3].get("details") or {}).get("ppt_scheme")]
                    if r.get("req") != req:
                        v("returned another request's reply", "op %d call: RESULT carries request %s, own is %d" % (o, r.get("req"), req))
                    elif r.get("tag") not in tags and not ppt:
                        v("returned another request's reply", "op %d call: result payload %s is none of its final RESULTs %s" % (o, r.get("tag"), tags))
        elif rr in ("rpcerr", "err_reply"):
            errs = [x for x in before if x[3]["t"] == "error"]
            if rr == "rpcerr" and r.get("req") != req:
                v("returned another request's reply", "op %d: ERROR carries request %s, own is %d" % (o, r.get("req"), req))
            elif r.get("tag") not in [msg_atag(x[3]) for x in errs]:
                v("returned another request's reply", "op %d (%s): error payload %s is none of its ERRORs" % (o, kind, r.get("tag")))
        elif rr == "timeout":
            ct = cancel_t.get(o)
            cancelled = ct is not None and any(c[1]["t"] == ct or True for c in cancels_sent.get(req, [])) and req in cancels_sent
            if kind in ("call", "callprog"):
                if not cancelled:
                    v("call timed out without cancellation", "op %d: Call returned ErrReplyTimeout but its context was never cancelled" % o)
                else:
                    # (a CallProgressive feeder may have sent a CANCEL of its own earlier)
                    at = [c for c in cancels_sent[req] if ct is None or c[1]["t"] >= ct] or cancels_sent[req]
                    t_c = at[0][1]["t"]
                    if r["t"] != t_c + T.rt:
                        v("timeout at the wrong instant", "op %d: timed out at %d, CANCEL sent at %d, response timeout %d" % (o, r["t"], t_c, T.rt))
                    early = [x for x in before if x[3]["t"] == "error" and t_c <= x[2] < t_c + T.rt and x[0] > at[0][0]]
                    if early:
                        v("reply in time but timed out", "op %d: the ERROR answering its CANCEL was sent at %d, before the timeout at %d" % (o, early[0][2], r["t"]))
            else:
                dl = lab["t"] + T.rt
                if r["t"] != dl:
                    v("timeout at the wrong instant", "op %d (%s): started %d, timed out at %d, response timeout %d" % (o, kind, lab["t"], r["t"], T.rt))
                early = [x for x in before if x[2] < dl and x[3]["t"] in (FINAL[kind], "error")]
                if early:
                    v("reply in time but timed out", "op %d (%s, request %d): its %s was sent at %d, before the timeout at %d"
                      % (o, kind, req, early[0][3]["t"].upper(), early[0][2], dl))
        elif rr == "notconn":
            if T.end_t is None or T.end_t > r["t"]:
                v("ErrNotConn on a live connection", "op %d (%s) returned ErrNotConn at %d, connection ended %s" % (o, kind, r["t"], T.end_t))
        elif rr in ("ctx_canceled", "ctx_deadline"):
            ct = cancel_t.get(o)
            if ct is None or ct > r["t"]:
                v("context error without cancellation", "op %d returned %s at %d but its context was live" % (o, rr, r["t"]))
        # cancellation: CANCEL with the configured mode, then the context's error (or the timeout)
        if kind in ("call", "callprog") and o in cancel_t and req:
            ct = cancel_t[o]
            if r["t"] > ct or (r["t"] == ct and rr in ("ctx_canceled", "ctx_deadline", "timeout")):
                mine_c = [c for c in cancels_sent.get(req, []) if c[1]["t"] >= ct]
                own = [c for c in mine_c if c[1].get("mode") == T.mode_at(c[0])]
                if not mine_c:
                    v("cancelled call sent no CANCEL", "op %d: context cancelled at %d, no CANCEL for request %d" % (o, ct, req))
                elif not own:
                    v("CANCEL with the wrong mode", "op %d: CANCEL mode %r, configured %r (last accepted SetCallCancelMode)" % (
                        o, mine_c[0][1].get("mode"), T.mode_at(mine_c[0][0])))
                if rr not in ("ctx_canceled", "ctx_deadline", "timeout", "notconn") and r["t"] > ct:
                    v("cancelled call returned a reply", "op %d: context cancelled at %d, Call returned %s at %d" % (o, ct, rr, r["t"]))
        # progress: in order, before the return
        if lab.get("prog") and kind in ("call", "callprog"):
            progs = [(p, x) for p, x in enumerate(T.obs) if x["e"] == "prog" and x["o"] == o]
            if any(p > pos for p, _ in progs):
                v("progress handler ran after Call returned", "op %d: progress callback logged after the return" % o)
            want = [msg_atag(x[3]) for x in mine if x[3]["t"] == "result" and is_progressive(x[3])]
            got = [x.get("tag") for _, x in progs]
            it = iter(want)
            if not all(any(g == w for w in it) for g in got):
                v("progressive results out of order", "op %d: handler saw %s, router sent %s" % (o, got, want))

    # configuration calls: "" and the three modes are accepted, anything else refused
    for ob in T.obs:
        if ob["e"] == "setmode":
            want = "ok" if ob.get("mode", "") in ("", "kill", "killnowait", "skip") else "error"
            if ob.get("r") != want:
                v("SetCallCancelMode answered wrongly", "SetCallCancelMode(%r) returned %s" % (ob.get("mode", ""), ob.get("r")))

    # events: one at a time, in arrival order
    depth = 0
    for ob in T.obs:
        if ob["e"] == "event":
            depth += 1
            if depth > 1:
                v("event handlers overlapped", "two event handlers were running at once")
                break
        elif ob["e"] == "evx":
            depth -= 1
    sent_ev = [x[3].get("pub") for x in T.sent if x[3]["t"] == "event"]
    got_ev = [ob.get("pub") for ob in T.obs if ob["e"] == "event"]
    it = iter(sent_ev)
    if not all(any(g == w for w in it) for g in got_ev):
        v("events out of order", "handlers saw publications %s, router sent %s" % (got_ev, sent_ev))

    # invocations
    invs = {}
    for x in T.sent:
        if x[3]["t"] == "invocation":
            invs.setdefault(x[4], []).append(x)
    finals = {}
    for pos, ob in enumerate(T.obs):
        if ob["e"] == "sent" and ((ob["typ"] == "YIELD" and not ob.get("prog")) or
                                  (ob["typ"] == "ERROR" and ob.get("uri") in ("wamp.error.canceled", "x.app.error"))):
            finals.setdefault(ob.get("req", 0), []).append((pos, ob))
    for req, chunks in invs.items():
        calls = [(p, ob) for p, ob in enumerate(T.obs) if ob["e"] == "inv" and ob.get("req") == req]
        regs = set(x[3].get("reg") for x in chunks)
        fin = finals.get(req, [])
        if len(regs) == 1:
            # one run per (registration, request): at most one final reply ...
            if len(fin) > 1:
                v("more than one YIELD/ERROR for an invocation", "request %d answered %d times" % (req, len(fin)))
            progressive = any(is_progressive(x[3]) for x in chunks)
            if not progressive and len(calls) > 1:
                v("handler ran more than once for an invocation", "request %d: %d handler calls for a non-progressive invocation repeated %d times"
                  % (req, len(calls), len(chunks)))
            # ... and chunks reach the handler in order
            want = [msg_atag(x[3]) for x in chunks]
            got = [ob.get("tag") for _, ob in calls]
            it = iter(want)
            if not all(any(g == w for w in it) for g in got):
                v("invocation chunks out of order", "request %d: handler saw %s, router sent %s" % (req, got, want))
            # (log order across goroutines means something only across bursts)
            if fin and any(ob["b"] > fin[0][1]["b"] for p, ob in calls):
                late = [ob for p, ob in calls if ob["b"] > fin[0][1]["b"]]
                if not all(ob.get("ctx") for ob in late):
                    v("handler started after the invocation was answered", "request %d" % req)
        for pos, ob in fin:
            if ob.get("req") != req:
                v("reply with a foreign request id", "request %d" % req)
    # a handler that returned a result / an interrupt while running => exactly one final reply
    for pos, ob in enumerate(T.obs):
        if ob["e"] == "invret" and ob.get("r") in ("ok", "err") and (T.end_t is None or T.end_t > ob["t"]):
            req = ob.get("req")
            if not finals.get(req):
                v("invocation never answered", "request %d: handler returned %s, no YIELD/ERROR was sent" % (req, ob.get("r")))
    running = {}
    for pos, ob in enumerate(T.obs):
        if ob["e"] == "inv":
            running[ob.get("req")] = ob
        elif ob["e"] in ("invret", "invctx"):
            running.pop(ob.get("req"), None)
        elif ob["e"] == "rmsg" and ob.get("typ") == "interrupt" and ob.get("req") in running:
            req = ob.get("req")
            b = ob["b"]
            # (the handler returning on its own at the same instant is a fair race)
            if not any(x["e"] in ("invctx", "invret") and x.get("req") == req and x["b"] == b for x in T.obs[pos:]):
                v("INTERRUPT did not cancel the handler's context", "request %d, burst %d" % (req, b))
            running.pop(req, None)
    # the handler's context is cancelled only on INTERRUPT, on the invocation's
    # own timeout, once the invocation is answered, or when the client stops
    inv_t = {}
    for x in T.sent:
        if x[3]["t"] == "invocation" and x[4] not in inv_t:
            to = ((x[3].get("details") or {}).get("timeout") or {})
            inv_t[x[4]] = (x[2], eff_timeout(to))
    for pos, ob in enumerate(T.obs):
        if ob["e"] == "invctx" or (ob["e"] == "inv" and ob.get("ctx")):
            req = ob.get("req")
            why = any(x[3]["t"] == "interrupt" and x[4] == req and x[0] < pos for x in T.sent)
            t0, to = inv_t.get(req, (None, None))
            if to is not None and to > 0 and ob["t"] >= t0 + to:
                why = True
            if any(p < pos or o2["b"] == ob["b"] for p, o2 in finals.get(req, [])):
                why = True
            if T.end_t is not None and T.end_t <= ob["t"]:
                why = True
            if not why:
                v("handler context cancelled without INTERRUPT or timeout",
                  "request %s at t=%d (invocation at %s, timeout option %s)" % (req, ob["t"], t0, to))
    # ... and it IS cancelled at exactly the invocation's timeout (whatever numeric
    # kind the decoder delivered) when the handler is still running then
    for req, (t0, to) in inv_t.items():
        if not to or to <= 0 or to > 10 ** 7 or t0 is None:
            continue
        dl = t0 + to
        starts = [(p, ob) for p, ob in enumerate(T.obs) if ob["e"] == "inv" and ob.get("req") == req]
        if not starts or starts[0][1]["t"] != t0:
            continue
        if not any(tt >= dl for tt in T.times):
            continue
        ended = [ob for ob in T.obs if ob["e"] in ("invret", "invctx") and ob.get("req") == req and ob["t"] <= dl]
        intr = any(x[3]["t"] == "interrupt" and x[4] == req and x[2] <= dl for x in T.sent)
        if intr or (T.end_t is not None and T.end_t <= dl):
            continue
        early = [ob for ob in ended if ob["t"] < dl or ob["e"] == "invret"]
        if early:
            continue
        if not any(ob["e"] == "invctx" and ob["t"] == dl for ob in ended):
            v("handler context not cancelled at the invocation's timeout",
              "request %s: INVOCATION at %d with timeout %s (%s) -> deadline %d; the running handler's context was not cancelled then"
              % (req, t0, to, [x[3]["details"]["timeout"]["ty"] for x in T.sent if x[3]["t"] == "invocation" and x[4] == req][0], dl))
    return bad


def monitor_c17(sched, res):
    """The C17 predicates that are not already the harness's hang / leak /
    crash oracles: liveness probes planted by the script must be answered."""
    bad = []
    T = Trace(sched, res)
    joined = [o for o in res.get("obs", []) if o["e"] == "join"]
    if sched.get("expect_join"):
        got = joined[0]["r"] if joined else "?"
        if got != sched["expect_join"]:
            bad.append(("C17 NewClient %s on a %s answer to HELLO" % ("succeeded" if got == "ok" else "failed", sched["cfg"]["join"]["reply"]),
                        "expected %s, got %s (%s)" % (sched["expect_join"], got, joined[0].get("txt") if joined else "")))
    if joined and joined[0]["r"] == "error":
        return bad     # no client: the bursts were not run
    # Done is signalled in the very burst in which the router says GOODBYE /
    # ABORT or the transport ends
    done_b = None
    for ob in T.obs:
        if ob["e"] == "done":
            done_b = ob["b"]
            break
    for bi, b in enumerate(sched["bursts"]):
        if sched.get("late_done_ok"):
            break
        ends = [l for l in b["labels"] if l["k"] == "end" or (l["k"] == "msg" and l["m"]["t"] in ("goodbye", "abort"))]
        if ends and (done_b is None or done_b > bi):
            what = ends[0]["k"] if ends[0]["k"] == "end" else ends[0]["m"]["t"].upper()
            bad.append(("C17 Done not signalled on " + what, "burst %d: the router said %s, Done() was %s" % (
                bi, what, "never closed" if done_b is None else "closed only in burst %d" % done_b)))
            break
        if ends:
            break
    for probe in sched.get("probes", []):
        kind = probe["k"]
        if kind == "event":
            if not any(ob["e"] == "event" and ob.get("pub") == probe["pub"] for ob in T.obs):
                bad.append(("C17 client stopped processing messages",
                            "the EVENT (publication %d) sent after the hostile message never reached its handler" % probe["pub"]))
        elif kind == "ret_at":
            rets = T.rets.get(probe["o"], [])
            got = (rets[0][1]["r"], rets[0][1]["t"]) if rets else ("not returned before the end of the script", None)
            if got != (probe["r"], probe["t"]):
                bad.append(("C17 cancelled call did not return %s one response timeout after its CANCEL" % probe["r"],
                            "op %d: CANCEL at %d, response timeout %d: must return %s at exactly %d; observed %s at %s" % (
                                probe["o"], probe["t"] - T.rt, T.rt, probe["r"], probe["t"], got[0], got[1])))
        elif kind == "close_at":
            got = [ob for ob in T.obs if ob["e"] == "closeret" and ob.get("o") == probe["o"]]
            if not got or got[0]["t"] != probe["t"] or got[0].get("r") != "ok":
                bad.append(("C17 Close did not return when its bound (2 x ResponseTimeout, or the router's earlier GOODBYE / end) was reached",
                            "Close() must return at virtual time %d; observed %s" % (
                                probe["t"], ("return at %d (%s)" % (got[0]["t"], got[0].get("r"))) if got else "no return before the end of the script")))
        elif kind == "ret_in":
            rets = T.rets.get(probe["o"], [])
            got = rets[0][1]["r"] if rets else None
            if got not in probe["r"]:
                bad.append(("C17 API call issued around the end of the transport did not return an error",
                            "op %d (%s): the router end had stopped reading, then the connection ended: expected %s, observed %s" % (
                                probe["o"], T.ops.get(probe["o"], {}).get("op"), " or ".join(probe["r"]),
                                got or "no return before the end of the script")))
        elif kind == "ret":
            rets = T.rets.get(probe["o"], [])
            if not rets:
                continue
            if rets[0][1]["r"] != probe["r"]:
                bad.append(("C17 API call after the hostile message got %s" % rets[0][1]["r"],
                            "op %d was answered in time by the script, expected %s" % (probe["o"], probe["r"])))
    return bad


def summarize(res):
    return {"status": res.get("status"), "why": res.get("why"), "gomaxprocs": res.get("gomaxprocs"),
            "obs": res.get("obs", [])[:200], "stacks": (res.get("stacks") or "")[:4000]}


# --------------------------------------------------------------------------
# C17: hostile and timing scripts


def inventory_keys():
    """The option / detail keys client.go reads on router-controlled data,
    from the generated site inventory (coq/gen/GenClient.v) and the constant
    table of wamp/options.go."""
    consts = {}
    opt = os.path.join(common.REPO, "wamp", "options.go")
    if os.path.exists(opt):
        for m in re.finditer(r'^\s*(Opt\w+)\s*=\s*"([^"]*)"', open(opt).read(), re.M):
            consts[m.group(1)] = m.group(2)
    keys = []
    path = os.path.join(common.COQ, "gen", "GenClient.v")
    if os.path.exists(path):
        for m in re.finditer(r'mk_site "[^"]*" \d+ \w+ "([^"]*)"', open(path).read()):
            for c in re.findall(r"wamp\.(Opt\w+)", m.group(1)):
                k = consts.get(c)
                if k and k not in keys:
                    keys.append(k)
    for k in ("ppt_scheme", "ppt_serializer", "timeout", "receive_progress", "progress", "reason"):
        if k not in keys:
            keys.append(k)
    return keys


VALUES = [
    V("nil"), V("bool", b=True), V("bool", b=False), V("int", i=5), V("int", i=-1), V("uint", i=7),
    V("float", f=2.5), V("str", s=""), V("str", s="x_a"), V("str", s="wamp"), V("str", s="mqtt"),
    V("str", s="bogus"), V("str", s="native"), V("str", s="json"), V("str", s="cbor"), V("str", s="msgpack"),
    V("bytes", dec="garbage"), V("list", l=[]), V("dict", d={}), V("map", d={}), V("payload", i=3), V("nilpayload"),
    V("int", i=2 ** 62),
]

SERIALIZERS = [None, V("str", s="native"), V("str", s="json"), V("str", s="cbor"), V("str", s="msgpack"),
               V("str", s="bogus"), V("int", i=5), V("nil"), V("bool", b=True), V("bytes", dec="garbage"), V("list", l=[])]


def arg_variants(ser):
    s = ser.get("s") if ser and ser.get("ty") == "str" and ser.get("s") in ("json", "cbor", "msgpack") else "json"
    return [
        ("noargs", None, True),
        ("garbage", [V("bytes", dec="garbage")], False),
        ("null", [V("bytes", dec="null", ser=s)], False),
        ("valid", [V("bytes", dec="valid", ser=s, i=41)], False),
        ("int", [V("int", i=42)], False),
        ("str", [V("str", s="x")], False),
        ("payload", [V("payload", i=43)], False),
        ("nilpayload", [V("nilpayload")], False),
        ("dict", [V("dict", d={})], False),
    ]


class Hostile:
    """setup -> hostile burst(s) -> liveness probes -> close"""

    def __init__(self, sid, family, ppt=True, cancel_mode=""):
        cfg = {"rt_ms": RT, "ppt": ppt, "cancel_mode": cancel_mode}
        self.b = Builder(random.Random(0), sid, cfg)
        self.b.s["family"] = family
        self.b.s["probes"] = []
        b = self.b
        self.sub_o = 1
        self.reg_o = 2
        self.call_o = 3
        b.burst([b.api("subscribe", 1), b.api("register", 1), b.api("call", 2, ctx="cancel", prog=True)])
        b.burst([b.msg("subscribed", req={"op": 1}, sub=11), b.msg("registered", req={"op": 2}, reg=21)])
        b.pending.pop(1, None)
        b.pending.pop(2, None)
        self.sub, self.reg = 11, 21
        self.inv = 0

    def hostile(self, labels, adv=0, prearm=False):
        self.b.burst(labels, adv=adv, prearm=prearm)

    def finish(self, probes=True, close=True, answer_call=True):
        b = self.b
        if probes:
            pub = 9000 + len(b.s["bursts"])
            lab = b.api("subscribe", 2)
            o4 = b.nop
            b.burst([b.msg("event", sub=self.sub, pub=pub, tag=77), lab])
            b.burst([b.msg("subscribed", req={"op": o4}, sub=12)])
            b.s["probes"] += [{"k": "event", "pub": pub}, {"k": "ret", "o": o4, "r": "ok"}]
            if answer_call:
                b.burst([b.msg("result", req={"op": self.call_o}, tag=78)])
        if close:
            finish(b, polite=True)
        return b.s


def known_crashers():
    """The inputs already known to kill the unrepaired client: always run."""
    out = []
    specs = [
        ("ppt-noargs-json", "event", {"ppt_scheme": V("str", s="x_a"), "ppt_serializer": V("str", s="json")}, None, True),
        ("ppt-null-json", "event", {"ppt_scheme": V("str", s="x_a"), "ppt_serializer": V("str", s="json")}, [V("bytes", dec="null", ser="json")], False),
        ("ppt-serializer-int", "event", {"ppt_scheme": V("str", s="x_a"), "ppt_serializer": V("int", i=5)}, [V("int", i=1)], False),
        ("ppt-native-notpayload", "event", {"ppt_scheme": V("str", s="mqtt")}, [V("int", i=1)], False),
        ("ppt-native-nilpayload", "event", {"ppt_scheme": V("str", s="mqtt")}, [V("nilpayload")], False),
        ("ppt-json-notbytes", "event", {"ppt_scheme": V("str", s="x_a"), "ppt_serializer": V("str", s="cbor")}, [V("str", s="x")], False),
        ("e2ee-noserializer", "event", {"ppt_scheme": V("str", s="wamp")}, [V("int", i=1)], False),
        ("e2ee-noargs", "event", {"ppt_scheme": V("str", s="wamp"), "ppt_serializer": V("str", s="cbor")}, None, True),
        ("e2ee-notbytes", "invocation", {"ppt_scheme": V("str", s="wamp"), "ppt_serializer": V("str", s="cbor")}, [V("dict", d={})], False),
        ("ppt-result-noargs", "result", {"ppt_scheme": V("str", s="x_a"), "ppt_serializer": V("str", s="msgpack")}, None, True),
    ]
    for name, kind, det, args, noargs in specs:
        h = Hostile("known:" + name, "known")
        h.hostile([hostile_msg(h, kind, det, args, noargs)])
        out.append(h.finish(answer_call=(kind != "result")))
    return out


def hostile_msg(h, kind, details, args, noargs):
    b = h.b
    kw = {"details": details}
    if args is not None:
        kw["args"] = args
    elif noargs:
        kw["noargs"] = True
    if kind == "event":
        return b.msg("event", sub=h.sub, pub=8000 + len(b.s["bursts"]), **kw)
    if kind == "invocation":
        h.inv += 1
        return b.msg("invocation", req={"lit": h.inv}, reg=h.reg, **kw)
    if kind == "result":
        return b.msg("result", req={"op": h.call_o}, **kw)
    if kind == "error":
        return b.msg("error", req={"op": h.call_o}, **kw)
    if kind == "interrupt":
        return b.msg("interrupt", req={"lit": max(h.inv, 1)}, **kw)
    raise ValueError(kind)


def gen_c17(rng, tier, keys):
    scripts = list(known_crashers())
    # F1a: the PPT matrix
    matrix = []
    for scheme in ("x_a", "wamp", "mqtt"):
        for ser in SERIALIZERS:
            for (aname, args, noargs) in arg_variants(ser):
                for kind in ("event", "invocation", "result"):
                    matrix.append((scheme, ser, aname, args, noargs, kind))
    if tier == "quick":
        rng.shuffle(matrix)
        matrix = matrix[:150]
    for n, (scheme, ser, aname, args, noargs, kind) in enumerate(matrix):
        det = {"ppt_scheme": V("str", s=scheme)}
        if ser is not None:
            det["ppt_serializer"] = ser
        h = Hostile("ppt:%s:%s:%s:%s" % (scheme, (ser or {}).get("s", (ser or {}).get("ty", "absent")), aname, kind), "ppt-matrix")
        h.hostile([hostile_msg(h, kind, det, args, noargs)])
        if kind == "invocation":
            h.hostile([{"k": "hret", "inv": h.inv, "r": "ok", "tag": 5}])
        scripts.append(h.finish(answer_call=(kind != "result")))
    # F1b: type confusion on every key the client reads x every value type x every message that carries it
    conf = []
    for key in keys:
        for val in VALUES:
            for kind in ("event", "invocation", "result", "error", "interrupt"):
                conf.append((key, val, kind))
    if tier == "quick":
        rng.shuffle(conf)
        conf = conf[:120]
    for (key, val, kind) in conf:
        h = Hostile("conf:%s:%s:%s" % (key, val.get("s", val["ty"]), kind), "type-confusion")
        if kind == "interrupt":
            h.hostile([hostile_msg(h, "invocation", {}, [V("int", i=1)], False)])
        h.hostile([hostile_msg(h, kind, {key: val}, [V("int", i=9)], False)])
        if kind in ("invocation", "interrupt"):
            h.hostile([{"k": "hret", "inv": h.inv, "r": "ok", "tag": 5}])
        scripts.append(h.finish(answer_call=(kind not in ("result", "error"))))
    # F2: every message type, unknown / zero / huge ids; client->router types echoed back
    kinds = ["subscribed", "unsubscribed", "registered", "unregistered", "published", "result", "error", "event",
             "invocation", "interrupt", "welcome", "challenge", "hello", "authenticate", "subscribe", "unsubscribe",
             "publish", "register", "unregister", "call", "cancel", "yield"]
    for kind in kinds:
        for ident in (0, 424242, 2 ** 53, 2 ** 53 + 1):
            h = Hostile("unk:%s:%d" % (kind, ident), "unknown-ids")
            m = h.b.msg(kind, req={"lit": ident}, sub=ident, reg=ident, pub=1, tag=3)
            h.hostile([m, m])
            scripts.append(h.finish())
    # F3: duplicates and replies of the wrong type for a live request id
    for kind in ("subscribed", "registered", "published", "unsubscribed", "unregistered", "result", "error"):
        h = Hostile("dup:%s" % kind, "duplicates")
        lab = h.b.api("subscribe", 3)
        o = h.b.nop
        h.hostile([lab])
        m = h.b.msg(kind, req={"op": o}, sub=13, reg=23, pub=1, tag=3)
        h.hostile([m, m, m])
        h.hostile([h.b.msg(kind, req={"op": h.call_o}, sub=14, reg=24, pub=1, tag=4)] * 2)
        scripts.append(h.finish(answer_call=False))
    # F4: GOODBYE / ABORT / abrupt close at every position of the base script
    base = Hostile("base", "end-positions").finish()
    nb = len(base["bursts"])
    for pos in range(nb):
        for how in ("end", "goodbye", "abort"):
            s = json.loads(json.dumps(base))
            s["id"] = "endpos:%d:%s" % (pos, how)
            s["probes"] = []
            lab = {"k": "end"} if how == "end" else {"k": "msg", "m": {"t": how, "uri": "wamp.close.system_shutdown"}}
            s["bursts"] = s["bursts"][:pos] + [{"adv": 0, "labels": [lab]}] + s["bursts"][pos:]
            scripts.append(s)
            s2 = json.loads(json.dumps(base))
            s2["id"] = "endin:%d:%s" % (pos, how)
            s2["probes"] = []
            s2["bursts"][pos]["labels"] = s2["bursts"][pos]["labels"] + [lab]
            scripts.append(s2)
    # F5: timing -- replies exactly at the response timeout / at the cancellation timeout / at the context deadline
    reps = 6 if tier == "quick" else 120
    for rep in range(reps):
        for kind in ("subscribe", "register", "publish", "unsubscribe", "unregister"):
            for prearm in (True, False):
                h = Hostile("time:%s:%s:%d" % (kind, "pre" if prearm else "post", rep), "timing")
                b = h.b
                if kind == "unsubscribe":
                    lab = b.api("unsubscribe", 1)
                elif kind == "unregister":
                    lab = b.api("unregister", 1)
                elif kind == "publish":
                    lab = b.api("publish", 5, ack=True)
                else:
                    lab = b.api(kind, 5)
                o = b.nop
                h.hostile([lab])
                h.hostile([b.reply_ok(o)], adv=RT, prearm=prearm)
                h.hostile([b.reply_ok(o)])          # once more, late
                scripts.append(h.finish(probes=(kind not in ("unsubscribe",))))
        for prearm in (True, False):
            h = Hostile("time:cancel:%s:%d" % ("pre" if prearm else "post", rep), "timing", cancel_mode="kill")
            b = h.b
            h.hostile([{"k": "cancel", "o": h.call_o}])
            h.hostile([b.msg("error", req={"op": h.call_o}, tag=5)], adv=RT, prearm=prearm)
            h.hostile([b.msg("result", req={"op": h.call_o}, tag=6)])
            scripts.append(h.finish(answer_call=False))
            h = Hostile("time:deadline:%s:%d" % ("pre" if prearm else "post", rep), "timing")
            b = h.b
            lab = b.api("call", 7, ctx="deadline", deadline_ms=1000)
            o = b.nop
            h.hostile([lab])
            h.hostile([b.msg("result", req={"op": o}, tag=8)], adv=1000, prearm=prearm)
            h.hostile([b.msg("error", req={"op": o}, tag=9)], adv=RT, prearm=prearm)
            scripts.append(h.finish())
            # Close() racing with a reply and with the peer's end
            h = Hostile("time:close:%s:%d" % ("pre" if prearm else "post", rep), "timing")
            b = h.b
            b.nop += 1
            labs = [{"k": "close", "o": b.nop}, b.msg("result", req={"op": h.call_o}, tag=5), b.msg("goodbye")]
            if prearm:
                labs.reverse()
            h.hostile(labs)
            b.closed = True
            scripts.append(h.finish(probes=False, close=False))
    # results that keep coming after the CANCEL, never an ERROR: the call returns ErrReplyTimeout
    # exactly one response timeout after the CANCEL (the timer is not restarted by what is discarded)
    for mode in ("kill", "skip", ""):
        for final in (False, True):
            h = Hostile("time:cancel-stream:%s:%s" % (mode or "default", "final" if final else "progressive"), "timing", cancel_mode=mode)
            b = h.b
            h.hostile([{"k": "cancel", "o": h.call_o}])
            t_cancel = b.now
            stream = lambda: b.msg("result", req={"op": h.call_o}, tag=b.tag(),
                                   **({} if final else {"details": {"progress": V("bool", b=True)}}))
            h.hostile([stream()], adv=2000)
            h.hostile([stream()], adv=2000)
            h.hostile([], adv=RT - 4000)                      # here the response timer of the CANCEL is due
            for _ in range(4):
                h.hostile([stream()], adv=1500)
            b.s["probes"].append({"k": "ret_at", "o": h.call_o, "r": "timeout", "t": t_cancel + RT})
            scripts.append(h.finish(answer_call=False))
    h = Hostile("time:deadline-stream", "timing")
    b = h.b
    lab = b.api("callprog", 7, ctx="deadline", deadline_ms=1000, prog=True, chunks=1)
    o = b.nop
    h.hostile([lab])
    h.hostile([b.msg("result", req={"op": o}, tag=b.tag(), details={"progress": V("bool", b=True)})], adv=1000)
    for _ in range(4):
        h.hostile([b.msg("result", req={"op": o}, tag=b.tag(), details={"progress": V("bool", b=True)})], adv=1500)
    b.s["probes"].append({"k": "ret_at", "o": o, "r": "timeout", "t": 1000 + RT})
    scripts.append(h.finish())
    # F8: the router end stops reading (busy session handler / transport writer gone) while a
    # reply of an invocation is pending, then the connection ends without INTERRUPT: the goroutine
    # that sends the reply must leave, Close() must return, nothing may be left
    for r in ("ok", "err", "canceled"):
        for how in ("end", "goodbye", "abort"):
            h = Hostile("stall:yield-pending:%s:%s" % (r, how), "stall")
            b = h.b
            h.hostile([hostile_msg(h, "invocation", {}, [V("int", i=9)], False)])
            h.hostile([{"k": "stall"}])
            h.hostile([{"k": "hret", "inv": h.inv, "r": r, "tag": 5}])
            h.hostile([{"k": "end"} if how == "end" else b.msg(how, uri="wamp.close.system_shutdown")])
            b.ended = True
            scripts.append(h.finish(probes=False))
    # F9: an API call issued around the death of the transport returns. The router end has stopped
    # reading (its writer / session handler is gone), Done() is not closed yet; then the connection
    # ends: every call blocked handing its request (or its CANCEL) to the peer returns an error,
    # run() is not held up by a reply of its own, Close() returns, nothing is left, nothing panics.
    api_kinds = [("subscribe", {}), ("register", {}), ("unsubscribe", {}), ("unregister", {}),
                 ("publish", {"ack": True}), ("publish", {"ack": False}), ("call", {"ctx": "cancel"}),
                 ("call", {"ctx": "cancel", "prog": True}), ("callprog", {"ctx": "cancel", "chunks": 2, "prog": True})]
    for how in ("end", "goodbye", "abort"):
        for kind, kw in api_kinds:
            h = Hostile("stall:api-around-end:%s%s%s:%s" % (kind, "-ack" if kw.get("ack") else "", "-prog" if kw.get("prog") else "", how), "stall")
            b = h.b
            h.hostile([{"k": "stall"}])
            lab = b.api(kind, 1 if kind in ("unsubscribe", "unregister") else 5, **kw)
            o = b.nop
            h.hostile([lab])
            h.hostile([{"k": "end"} if how == "end" else b.msg(how, uri="wamp.close.system_shutdown")])
            b.ended = True
            b.s["probes"].append({"k": "ret_in", "o": o, "r": ["notconn"]})
            scripts.append(h.finish(probes=False))
        # the pending Call's CANCEL cannot be handed over either
        h = Hostile("stall:cancel-around-end:%s" % how, "stall")
        b = h.b
        h.hostile([{"k": "stall"}])
        h.hostile([{"k": "cancel", "o": h.call_o}])
        h.hostile([{"k": "end"} if how == "end" else b.msg(how, uri="wamp.close.system_shutdown")])
        b.ended = True
        b.s["probes"].append({"k": "ret_in", "o": h.call_o, "r": ["notconn", "ctx_canceled"]})
        scripts.append(h.finish(probes=False))
        # run()'s own ERROR for an INVOCATION it cannot serve must not hold run() up
        for det, reg in (({}, 777), ({"ppt_scheme": V("str", s="bogus")}, 21), ({"ppt_scheme": V("str", s="x_a"), "ppt_serializer": V("int", i=5)}, 21)):
            h = Hostile("stall:run-reply-around-end:%s:%d" % (how, len(det)), "stall")
            b = h.b
            h.hostile([{"k": "stall"}])
            h.hostile([b.msg("invocation", req={"lit": 1}, reg=reg, tag=3, details=det)])
            h.hostile([{"k": "end"} if how == "end" else b.msg(how, uri="wamp.close.system_shutdown")])
            b.ended = True
            scripts.append(h.finish(probes=False))
    # a reply for the NEXT request id sent ahead, by a router that has stopped reading: run() finds
    # the entry (expectReply precedes the send) while the caller is still handing its request over
    for how in ("end", "goodbye"):
        h = Hostile("stall:reply-ahead-of-request:%s" % how, "stall")
        b = h.b
        h.hostile([{"k": "stall"}])
        lab = b.api("subscribe", 5)
        o = b.nop
        h.hostile([lab])
        h.hostile([b.msg("subscribed", req={"lit": 4}, sub=55)])
        h.hostile([{"k": "end"} if how == "end" else b.msg(how, uri="wamp.close.system_shutdown")])
        b.ended = True
        # run() is behind a caller that is behind a peer that does not read: it is Close()
        # (EndRecv) that releases them -- Done and the return come then, not at the end of the
        # transport (docs/C17.md, limits); what is demanded here is that Close() returns and
        # nothing is left
        b.s["late_done_ok"] = True
        scripts.append(h.finish(probes=False))
    # the same race without a stalled reader: the call and the end of the transport in one burst
    for kind, kw in api_kinds:
        for first in (0, 1):
            h = Hostile("stall:api-with-end:%s%s%s:%d" % (kind, "-ack" if kw.get("ack") else "", "-prog" if kw.get("prog") else "", first), "stall")
            b = h.b
            lab = b.api(kind, 1 if kind in ("unsubscribe", "unregister") else 5, **dict(kw, **({"chunks": 1} if kind == "callprog" else {})))
            o = b.nop
            labs = [lab, {"k": "end"}]
            if first:
                labs.reverse()
            h.hostile(labs)
            b.ended = True
            scripts.append(h.finish(probes=False))
    # a CallProgressive with a progress handler that ends by cancellation / disconnect leaves no goroutine
    for how in ("cancel", "end"):
        h = Hostile("dir:callprog-progress-%s" % how, "directed")
        b = h.b
        lab = b.api("callprog", 7, ctx="cancel", prog=True, chunks=1)
        o = b.nop
        h.hostile([lab])
        h.hostile([b.msg("result", req={"op": o}, tag=b.tag(), details={"progress": V("bool", b=True)})])
        if how == "cancel":
            h.hostile([{"k": "cancel", "o": o}])
            h.hostile([b.msg("error", req={"op": o}, tag=b.tag())])
            scripts.append(h.finish())
        else:
            h.hostile([{"k": "end"}])
            b.ended = True
            scripts.append(h.finish(probes=False))
    # F10: the silent router at Close: Close() returns exactly 2 x ResponseTimeout after it was
    # called unless the router says GOODBYE / the transport ends earlier -- whether the GOODBYE was
    # taken and left unanswered, not even taken, answered late, or the transport closed late
    def closing(name, family="close-silent", stall=False):
        h = Hostile("close:" + name, family)
        b = h.b
        if stall:
            h.hostile([{"k": "stall"}])
        b.nop += 1
        h.hostile([{"k": "close", "o": b.nop}])
        b.closed = True
        return h, b, b.nop, b.now
    h, b, co, t0 = closing("goodbye-taken-unanswered")
    h.hostile([], adv=2 * RT)
    h.hostile([], adv=3000)
    b.s["probes"].append({"k": "close_at", "o": co, "t": t0 + 2 * RT})
    scripts.append(h.finish(probes=False, close=False))
    h, b, co, t0 = closing("goodbye-not-taken", family="stall", stall=True)
    h.hostile([], adv=2 * RT)
    h.hostile([], adv=3000)
    b.s["probes"].append({"k": "close_at", "o": co, "t": t0 + 2 * RT})
    scripts.append(h.finish(probes=False, close=False))
    for what in ("goodbye", "abort", "end"):
        lab = lambda: {"k": "end"} if what == "end" else b.msg(what, uri="wamp.close.system_shutdown")
        for d_ms in (1000, 2 * RT - 1):
            h, b, co, t0 = closing("%s-late-%d" % (what, d_ms))
            h.hostile([lab()], adv=d_ms)
            h.hostile([], adv=2 * RT)
            b.s["probes"].append({"k": "close_at", "o": co, "t": t0 + d_ms})
            scripts.append(h.finish(probes=False, close=False))
        for prearm in (True, False):
            h, b, co, t0 = closing("%s-at-the-deadline-%s" % (what, "pre" if prearm else "post"))
            h.hostile([lab()], adv=2 * RT, prearm=prearm)
            h.hostile([], adv=1000)
            b.s["probes"].append({"k": "close_at", "o": co, "t": t0 + 2 * RT})
            scripts.append(h.finish(probes=False, close=False))
        h, b, co, t0 = closing("%s-after-the-deadline" % what)
        h.hostile([lab()], adv=2 * RT + 1000)
        b.s["probes"].append({"k": "close_at", "o": co, "t": t0 + 2 * RT})
        scripts.append(h.finish(probes=False, close=False))
    # F6: directed
    h = Hostile("dir:ppt-result-unsupported-then-close", "directed", ppt=False)
    h.hostile([h.b.msg("result", req={"op": h.call_o}, details={"ppt_scheme": V("str", s="x_a")}, tag=5)])
    scripts.append(h.finish(probes=False))
    h = Hostile("dir:orphan-awaiting-entry", "directed")
    b = h.b
    lab = b.api("call", 8, opts={"ppt_scheme": V("str", s="bogus")})
    h.hostile([lab])
    h.hostile([b.msg("error", req={"lit": k}, tag=5) for k in range(1, 9)])
    scripts.append(h.finish())
    h = Hostile("dir:orphan-publish-entry", "directed")
    b = h.b
    lab = b.api("publish", 8, ack=True, opts={"ppt_scheme": V("str", s="bogus")})
    h.hostile([lab])
    h.hostile([b.msg("published", req={"lit": k}, pub=1) for k in range(1, 9)])
    scripts.append(h.finish())
    h = Hostile("dir:feeder-after-close", "directed")
    b = h.b
    lab = b.api("callprog", 9, ctx="cancel", chunks=3)
    o = b.nop
    h.hostile([lab])
    b.nop += 1
    h.hostile([{"k": "close", "o": b.nop}])
    h.hostile([b.msg("goodbye")])
    h.hostile([{"k": "chunk", "o": o, "final": False}])
    b.closed = True
    scripts.append(h.finish(probes=False, close=False))
    # F7: the join itself -- whatever answers HELLO, NewClient returns (a client or an
    # error) and leaves nothing behind
    roles = {"roles": V("dict", d={"broker": V("dict", d={}), "dealer": V("dict", d={})})}
    joins = [("abort", {}), ("abort", {"message": V("int", i=5)}), ("goodbye", {}), ("challenge", {}), ("result", {}),
             ("close", {}), ("none", {}), ("nil_details", {}), ("welcome", {}), ("welcome", {"roles": V("int", i=5)}),
             ("welcome", {"roles": V("dict", d={})}), ("welcome", {"roles": V("dict", d={"dealer": V("int", i=1)})}),
             ("welcome", {"roles": V("dict", d={"dealer": V("dict", d={"features": V("list", l=[])})})}),
             ("welcome", {"roles": V("map", d={"broker": V("map", d={"features": V("map", d={"x": V("str", s="y")})})})}),
             ("welcome", roles)]
    for n, (reply, det) in enumerate(joins):
        has_role = reply == "welcome" and det.get("roles", {}).get("ty") in ("dict", "map") and bool(det["roles"].get("d"))
        sj = {"id": "join:%d:%s" % (n, reply), "family": "join", "probes": [], "expect_join": "ok" if has_role else "error",
              "cfg": {"rt_ms": RT, "ppt": False, "cancel_mode": "", "join": {"reply": reply, "details": det}},
              "bursts": []}
        bj = Builder(random.Random(0), sj["id"], sj["cfg"])
        bj.s = sj
        bj.burst([bj.api("subscribe", 1)])
        bj.burst([bj.reply_ok(1)])
        finish(bj)
        scripts.append(sj)
    # many messages at once (queue pressure), then the probes
    h = Hostile("dir:burst-of-64", "directed")
    h.hostile([h.b.msg("event", sub=h.sub, pub=7000 + i, tag=i + 1) for i in range(60)])
    scripts.append(h.finish())
    return scripts
