"""Shared machinery of the C06 and C07 checks (goroutine / channel discipline).

  * gen(): run the translator go/cmd/genskel on the repository under test and
    write coq/gen/GenSkeleton.v (cached by a hash of the translated sources).
  * skeleton_report(): compile Conc/SkelReport.v and parse what it prints: the
    truth value of every per-run obligation and the offending sites.
  * drive(): build and run the dynamic harness go/cmd/concdrive (synctest
    bubbles around the real router, workers as child processes).
"""
import hashlib
import json
import os
import re
import shutil
import time

import common

GEN_V = os.path.join(common.COQ, "gen", "GenSkeleton.v")
SRC_DIRS = ("router", "transport")

STUB = """(* GENERATED stub: the translator go/cmd/genskel FAILED on this tree:
%s
   An empty inventory satisfies no conformance obligation. *)
From Coq Require Import String List NArith Bool.
From Nexus Require Import Conc.SkelTypes.
Import ListNotations.
Definition gen_funcs : list func := [].
Definition gen_entries : list (string * gkind) := [].
Definition gen_dispatch : list (string * string) := [].
Definition gen_meta_inbound : list (string * string) := [].
Definition gen_submitters : list string := [].
Definition gen_send_result_deadline_ms : N := 0%%N.
Definition gen_yield_retry_delay_ms : N := 0%%N.
Definition gen_yield_retry_keeps_invocation : option bool := Some false.
Definition gen_invocation_drops : list (string * string * bool) := [("translator failed", "", false)].
Definition gen_peer_close_bounds_write : list (string * string * option bool) := [("translator failed", "", Some false)].
Definition gen_yield_stops_timer_before_retry : option bool := Some false.
Definition gen_cancel_waits_only_if_interrupt_sent : option bool := Some false.
Definition gen_queue_makes : list (string * string * string) := [].
"""

_state = {"gen": None}


def _sources_hash():
    h = hashlib.sha1()
    for d in SRC_DIRS:
        p = os.path.join(common.REPO, d)
        for f in sorted(os.listdir(p)):
            if f.endswith(".go") and not f.endswith("_test.go"):
                h.update(f.encode())
                h.update(open(os.path.join(p, f), "rb").read())
    src = os.path.join(common.VERIF, "go", "cmd", "genskel", "main.go")
    h.update(open(src, "rb").read())
    return h.hexdigest()[:16]


def gen():
    """Regenerate coq/gen/GenSkeleton.v from common.REPO.  Returns (ok, message).
    The translator is deterministic, so its output is cached per source hash."""
    if _state["gen"] is not None:
        return _state["gen"]
    cache = os.path.join(common.build_dir("genskel"), _sources_hash() + ".v")
    if os.path.exists(cache):
        common.write_if_changed(GEN_V, open(cache).read())
        _state["gen"] = (True, "cached")
        return _state["gen"]
    binp, log = common.go_build("./cmd/genskel")
    if binp is None:
        msg = "genskel does not build:\n" + log[-2000:]
        common.write_if_changed(GEN_V, STUB % msg.replace("*)", "* )"))
        _state["gen"] = (False, msg)
        return _state["gen"]
    tmp = cache + ".tmp"
    rc, out = common.run([binp, "-repo", common.REPO, "-out", tmp], env=common.go_env(), timeout=300)
    if rc != 0 or not os.path.exists(tmp):
        msg = "genskel failed (rc=%s):\n%s" % (rc, out.strip()[-3000:])
        common.write_if_changed(GEN_V, STUB % msg.replace("*)", "* )"))
        _state["gen"] = (False, msg)
        return _state["gen"]
    os.replace(tmp, cache)
    common.write_if_changed(GEN_V, open(cache).read())
    _state["gen"] = (True, "translated")
    return _state["gen"]


# --------------------------------------------------------------------------
# the report printed by Conc/SkelReport.v


def _blocks(out):
    """Split coqc output into the '= value : type' blocks, in order."""
    res = []
    cur = None
    for line in out.splitlines():
        if line.startswith("     = "):
            cur = [line[7:]]
            res.append(cur)
        elif cur is not None and line.startswith("     : "):
            cur = None
        elif cur is not None:
            cur.append(line.strip())
    return [" ".join(b) for b in res]


def skeleton_report():
    """Returns dict(ok, error, obligations {name: bool}, bad_client_sends,
    bad_edges, bad_peer_closes, nonconforming [names], detail (text), size,
    retry_total_ms)."""
    rep = dict(ok=False, error="", obligations={}, bad_client_sends=[], bad_edges=[],
               bad_peer_closes=[], nonconforming=[], uncovered_senders=[], detail="", size=None,
               retry_total_ms=None, yield_resume_table={}, yield_keep=None)
    ok, log = common.coq_make(["Conc/Skeleton.vo", "Conc/Stall.vo", "gen/GenSkeleton.vo"], keep_going=True)
    if not ok:
        rep["error"] = "Conc/Skeleton or gen/GenSkeleton does not compile:\n" + log[-2500:]
        return rep
    with common.Lock("coq"):
        rc, out = common.run(["coqc", "-Q", ".", "Nexus", "-w", "-notation-overridden",
                              "Conc/SkelReport.v"], cwd=common.COQ, timeout=600)
    if rc != 0:
        rep["error"] = "Conc/SkelReport.v does not compile:\n" + out[-2500:]
        return rep
    bl = _blocks(out)
    if len(bl) < 9:
        rep["error"] = "unexpected report output:\n" + out[-1500:]
        return rep
    rep["obligations"] = {m.group(1): m.group(2) == "true"
                          for m in re.finditer(r'\(\s*"([a-z_]+)",\s*(true|false)\s*\)', bl[0])}
    rep["bad_client_sends"] = re.findall(r'\(\s*"([^"]+)",\s*(\d+)(?:%N)?\s*\)', bl[1])
    rep["bad_edges"] = re.findall(r'\(\s*"([^"]+)",\s*(K[A-Za-z]+),\s*(\d+)(?:%N)?\s*\)', bl[2])
    rep["bad_peer_closes"] = re.findall(r'\(\s*"([^"]+)",\s*(\d+)(?:%N)?\s*\)', bl[3])
    rep["nonconforming"] = re.findall(r'"([^"]+)"', bl[4])
    rep["detail"] = bl[5][:6000]
    rep["uncovered_senders"] = re.findall(r'\(\s*"([^"]+)",\s*(\d+)(?:%N)?\s*\)', bl[6])
    bl = bl[:6] + bl[7:]
    m = re.findall(r"(\d+)", bl[6])
    rep["size"] = dict(functions=int(m[0]), operations=int(m[1]), entry_points=int(m[2])) if len(m) == 3 else None
    m = re.search(r"(\d+)", bl[7])
    rep["retry_total_ms"] = int(m.group(1)) if m else None
    # Conc/YieldRetry.v: resume instant (us) -> (instant the retries end, Delivered | Cancelled)
    rep["yield_resume_table"] = {
        int(t): (int(u), w.lower())
        for t, u, w in re.findall(r"\(\s*(\d+)(?:%N)?,\s*\(\s*(\d+)(?:%N)?,\s*(Delivered|Cancelled|Lost|OutOfFuel)\s*\)\s*\)", out)}
    # Conc/CancelModel.v: (mode, room) -> (INTERRUPT queued, caller answered at once)
    rep["cancel_table"] = {
        (m_.lower(), room == "true"): (iq == "true", ans == "true")
        for m_, room, iq, ans in re.findall(
            r"\(\s*(Skip|Kill|KillNoWait),\s*(true|false),\s*\(\s*(true|false),\s*(true|false)\s*\)\s*\)", out)}
    try:
        g = open(GEN_V).read()
        rep["readings"] = {n: (re.search(n + r" : option bool := (Some true|Some false|None)\.", g) or [None, None])[1]
                           for n in ("gen_yield_retry_keeps_invocation", "gen_yield_stops_timer_before_retry",
                                     "gen_cancel_waits_only_if_interrupt_sent")}
    except OSError:
        pass
    try:
        m = re.search(r"gen_yield_retry_keeps_invocation : option bool := (Some true|Some false|None)\.", open(GEN_V).read())
        rep["yield_keep"] = m.group(1) if m else None
    except OSError:
        pass
    rep["bad_invocation_drops"] = re.findall(r'\(\s*"(router\.[^"]+)",\s*"([A-Za-z_]+\.go:\d+)"\s*\)', bl[-1]) if bl else []
    rep["unbounded_peer_closes"] = re.findall(r'\(\s*"(transport\.[^"]+)",\s*"([A-Za-z_]+\.go:\d+)"\s*\)', bl[-2]) if len(bl) > 1 else []
    rep["ok"] = True
    return rep


def focus_functions(rep, names):
    """Router function names to aim the dynamic search at, from the report."""
    fs = set()
    for f, _line in rep.get("bad_client_sends", []):
        fs.add(f)
    for f, _k, _line in rep.get("bad_edges", []):
        fs.add(f)
    for f, _line in rep.get("bad_peer_closes", []):
        fs.add(f)
    for f, _line in rep.get("uncovered_senders", []):
        fs.add(f)
    for n in rep.get("nonconforming", []):
        m = re.search(r"\(([^)]+)\)", n)
        fs.add(m.group(1) if m else n)
    short = set()
    for f in fs:
        f = f.split("$")[0]
        short.add(f.split(".")[-1])
    return sorted(short | set(names))


# --------------------------------------------------------------------------
# the dynamic harness


def build_drive():
    binp, log = common.go_build("./cmd/concdrive", name="concdrive", test=True)
    if binp is None and "VerifTableSizes" in log:
        # a tree without router/verif_hooks.go: everything but the table inspection
        return common.go_build("./cmd/concdrive", name="concdrive", test=True, tags="verif,nohooks")
    return binp, log


def drive(prop, tier, budget_s, n=None, focus=None, skip=None, corpus=True, shrink=True, tag=""):
    """Run one batch of the harness.  Returns (summary dict | None, log)."""
    binp, log = build_drive()
    if binp is None:
        return None, "concdrive does not build:\n" + log[-3000:]
    outp = os.path.join(common.build_dir("concdrive"), "%s-%s%s.json" % (prop, tier, tag))
    if os.path.exists(outp):
        os.remove(outp)
    cmd = [binp, "-test.run", "^TestDrive$", "-test.timeout", "0", "-mode=batch", "-prop=" + prop,
           "-tier=" + tier, "-seed=%d" % common.seed(), "-jobs=%d" % min(16, common.NPROC),
           "-budget=%ds" % int(budget_s), "-out=" + outp, "-shrink=%s" % ("true" if shrink else "false")]
    if n:
        cmd.append("-n=%d" % n)
    if focus:
        cmd.append("-focus=" + ",".join(focus))
    if skip:
        cmd.append("-skip=" + ",".join(skip))
    cdir = os.path.join(common.VERIF, "corpus", prop)
    if corpus and os.path.isdir(cdir):
        cmd.append("-corpus=" + cdir)
    rc, out = common.run(cmd, env=common.go_env(), timeout=int(budget_s * 2.5) + 240)
    if not os.path.exists(outp):
        return None, "concdrive produced no summary (rc=%s):\n%s" % (rc, out[-3000:])
    try:
        return json.load(open(outp)), out
    except ValueError as e:
        return None, "concdrive summary unreadable: %s\n%s" % (e, out[-1500:])


def replay(path):
    """Re-run one recorded history; returns (rc, text)."""
    obj = json.load(open(path))
    hist = obj.get("history", obj)
    binp, log = build_drive()
    if binp is None:
        return 3, "concdrive does not build:\n" + log[-3000:]
    hp = os.path.join(common.build_dir("concdrive"), "replay-history.json")
    with open(hp, "w") as f:
        json.dump(hist, f)
    rc, out = common.run([binp, "-test.run", "^TestDrive$", "-test.timeout", "0", "-mode=replay",
                          "-history=" + hp], env=common.go_env(), timeout=300)
    return rc, out


def merge_summaries(a, b):
    """Fold the summary of a second batch into the first (counts add up,
    distinct histories are re-counted by id)."""
    if a is None:
        return b
    if b is None:
        return a
    r = dict(a)
    r["evaluations"] = a.get("evaluations", 0) + b.get("evaluations", 0)
    r["distinct_nontrivial"] = a.get("distinct_nontrivial", 0) + b.get("distinct_nontrivial", 0)
    r["failures"] = list(a.get("failures", [])) + list(b.get("failures", []))
    sig = dict(a.get("signatures", {}))
    for k, v in b.get("signatures", {}).items():
        sig[k] = sig.get(k, 0) + v
    r["signatures"] = sig
    r["wall_s"] = a.get("wall_s", 0) + b.get("wall_s", 0)
    return r
