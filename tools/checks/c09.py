"""C09 — only authenticated clients join, under router-assigned identity.

What this check does on every run (see docs/C09.md):

 1. gen(): go/cmd/genc09 reads AttachClient / authClient of the repository's
    working tree and writes coq/gen/GenC09.v.
 2. Proof obligations: Props/C09.v (theorems about the model Auth/Handshake.v,
    closed under the global context) and Auth/C09Conformance.v (the model's
    constants and structure against the regenerated ones, by vm_compute).
 3. Correspondence: go/cmd/c09drive runs the real router.AttachClient with the
    real authenticators on corpus + generated handshakes (synctest bubbles);
    the extracted model (ocaml/auth/c09run) runs on the same inputs with the
    oracle values and crypto facts the harness recorded; projected observables
    are compared; a sample is replayed inside the Coq kernel by vm_compute.
    The harness's monitor evaluates the property itself on the
    implementation's behaviour.
 4. Verdict and evidence.
"""
import collections
import glob
import hashlib
import json
import os
import re
import shutil
import sys
from concurrent.futures import ThreadPoolExecutor

sys.path.insert(0, os.path.dirname(os.path.dirname(os.path.abspath(__file__))))
import common  # noqa: E402

PID = "C09"
GEN = os.path.join(common.COQ, "gen", "GenC09.v")
CONF = "Auth/C09Conformance.v"
EXTRA = [CONF, "Auth/Runner.v"]
FIELDS = ["obs", "id", "out", "closed", "err", "shown", "created", "effects"]
AUTH_SRC = ["Values.v", "Handshake.v", "KeyTable.v", "Runner.v"]


# --------------------------------------------------------------------------
# translator


def gen():
    """Regenerate coq/gen/GenC09.v from common.REPO.  A construct the
    translator does not recognise produces a file that cannot satisfy the
    conformance obligations (never a stale one)."""
    exe, log = common.go_build("./cmd/genc09")
    if exe is None:
        txt = "(* genc09 failed to build *)\nDefinition gen_translator_failed := tt.\n"
        common.write_if_changed(GEN, txt)
        return "translator build failed:\n" + log[-1500:]
    rc, out = common.run([exe, common.REPO], timeout=120)
    if rc != 0 or "gen_stages" not in out:
        msg = out.strip()[-1500:]
        txt = "(* genc09 could not read the source: %s *)\nDefinition gen_translator_failed := tt.\n" % (
            msg.replace("*)", "* )").replace("(*", "( *"))
        common.write_if_changed(GEN, txt)
        return msg or "translator failed"
    common.write_if_changed(GEN, out)
    return None


def gen_constants():
    txt = open(GEN).read() if os.path.exists(GEN) else ""
    m = re.search(r"gen_hello_timeout_ns : Z := (\d+)\.", txt)
    return {"hello_timeout_ns": int(m.group(1)) if m else None}


# --------------------------------------------------------------------------
# s-expressions


def parse_sexp(s):
    toks = s.replace("(", " ( ").replace(")", " ) ").split()
    pos = 0

    def item():
        nonlocal pos
        t = toks[pos]
        pos += 1
        if t == "(":
            l = []
            while toks[pos] != ")":
                l.append(item())
            pos += 1
            return l
        return t
    return item()


def show_sexp(x):
    if isinstance(x, list):
        return "(" + " ".join(show_sexp(y) for y in x) + ")"
    return x


def unhex(a):
    return bytes.fromhex(a[1:]).decode("latin-1")


def pretty(x):
    """Readable rendering of an observation s-expression (hex strings decoded)."""
    if isinstance(x, list):
        return "(" + " ".join(pretty(y) for y in x) + ")"
    if re.fullmatch(r"x([0-9a-f]{2})*", x):
        s = unhex(x)
        if all(32 <= ord(c) < 127 for c in s):
            return json.dumps(s)
    return x


def diff_fields(model_line, impl_line):
    """Names of the projected observables on which model and implementation
    differ ('?' on the implementation side = not observed)."""
    try:
        m = parse_sexp(model_line)
        i = parse_sexp(impl_line)
    except Exception:
        return ["unparsable"]
    if not m or m[0] != "obs" or len(m) != len(FIELDS) or len(i) != len(FIELDS):
        return ["unparsable"]
    return [f for f, a, b in zip(FIELDS, m, i) if b != "?" and a != b]


# --------------------------------------------------------------------------
# building the runners


def build_model_runner():
    """Extract the model (ExtrOcamlBasic only) and compile the OCaml driver.
    Returns (path, log)."""
    d = common.build_dir("c09")
    srcs = [os.path.join(common.COQ, "Auth", f) for f in AUTH_SRC]
    srcs += [os.path.join(common.VERIF, "ocaml", "auth", f) for f in ("ExtractC09.v", "c09run.ml")]
    h = hashlib.sha1()
    for p in srcs:
        h.update(open(p, "rb").read())
    stamp = os.path.join(d, "stamp")
    exe = os.path.join(common.build_dir("bin"), "c09run")
    if os.path.exists(exe) and os.path.exists(stamp) and open(stamp).read() == h.hexdigest():
        return exe, ""
    with common.Lock("c09-extract-" + common.repo_key()):
        rc, log = common.run(["coqc", "-Q", common.COQ, "Nexus", "-w", "-notation-overridden",
                              "-o", os.path.join(d, "ExtractC09.vo"),
                              os.path.join(common.VERIF, "ocaml", "auth", "ExtractC09.v")], cwd=d, timeout=600)
        if rc != 0 or not os.path.exists(os.path.join(d, "c09model.ml")):
            return None, "extraction failed:\n" + log[-3000:]
        shutil.copy(os.path.join(common.VERIF, "ocaml", "auth", "c09run.ml"), d)
        rc, log2 = common.run(["ocamlfind", "ocamlopt", "-O2", "-w", "-a", "c09model.mli", "c09model.ml",
                               "c09run.ml", "-o", exe], cwd=d, timeout=600)
        if rc != 0:
            return None, "ocamlopt failed:\n" + log2[-3000:]
        with open(stamp, "w") as f:
            f.write(h.hexdigest())
    return exe, ""


def run_model(exe, cases, bind=True):
    """cases: list of model_case strings -> list of observation lines."""
    if not cases:
        return []
    if not bind:
        cases = [re.sub(r"^\(case (\S+) 1 ", r"(case \1 0 ", c) for c in cases]
    chunks = [cases[i::common.NPROC] for i in range(common.NPROC)]

    def one(chunk):
        if not chunk:
            return []
        rc, out = common.run([exe], input="\n".join(chunk) + "\n", timeout=1200)
        return out.splitlines()
    with ThreadPoolExecutor(common.NPROC) as ex:
        outs = list(ex.map(one, chunks))
    res = [None] * len(cases)
    for k, lines in enumerate(outs):
        for j, l in enumerate(lines):
            idx = k + j * common.NPROC
            if idx < len(res):
                res[idx] = l
    return [r or "(error no-output)" for r in res]


def run_driver(exe, mode, outdir, tag, seed=1, count=0, shards=1, nocore=False, infile=None, timeout=1500):
    """Run the harness (sharded).  Returns (outcomes, crashes)."""
    def one(k):
        outp = os.path.join(outdir, "%s-%d.jsonl" % (tag, k))
        env = dict(os.environ)
        env.update({"C09_MODE": mode, "C09_SEED": str(seed), "C09_COUNT": str(count),
                    "C09_SHARDS": str(shards), "C09_SHARD": str(k), "C09_OUT": outp,
                    "C09_NOCORE": "1" if nocore else "0", "GOMAXPROCS": "1"})
        if infile:
            env["C09_IN"] = infile
        rc, log = common.run([exe, "-test.run", "TestDrive", "-test.timeout", "%ds" % timeout],
                             env=env, timeout=timeout + 60)
        outs, started, crash = [], None, None
        if os.path.exists(outp):
            for line in open(outp):
                try:
                    o = json.loads(line)
                except ValueError:
                    continue
                if "start" in o:
                    started = o["start"]
                else:
                    outs.append(o)
                    started = None
        if rc != 0:
            crash = {"shard": k, "rc": rc, "during": started, "log": log[-3000:]}
        return outs, crash
    n = shards if mode == "gen" else 1
    with ThreadPoolExecutor(max(1, min(n, common.NPROC))) as ex:
        rs = list(ex.map(one, range(n)))
    outcomes = [o for r in rs for o in r[0]]
    crashes = [r[1] for r in rs if r[1]]
    return outcomes, crashes


# --------------------------------------------------------------------------
# in-kernel replay of a sample


def _h(a):
    b = bytes.fromhex(a[1:])
    if all(32 <= c < 127 and c != 34 for c in b):
        return '"%s"' % b.decode("ascii")      # printable: a plain literal
    return '(h "%s")' % a[1:]


_INTERN = None   # while a cases file is rendered: sexp text -> (name, coq term) of shared sub-terms


def _intern(kind, sx, render):
    if _INTERN is None:
        return render(sx)
    key = show_sexp(sx)
    if key not in _INTERN:
        _INTERN[key] = ("%s_%d" % (kind, len(_INTERN)), render(sx))
    return _INTERN[key][0]


def _b(a):
    return "true" if a == "1" else "false"


def coq_value(v):
    if v == "null":
        return "VNull"
    if v == "true":
        return "(VBool true)"
    if v == "false":
        return "(VBool false)"
    tag = v[0]
    if tag == "i":
        return "(VInt (%s)%%Z)" % v[1]
    if tag == "fl":
        return "(VFloat %s)" % _h(v[1])
    if tag == "s":
        return "(VStr %s)" % _h(v[1])
    if tag == "b":
        return "(VBytes %s)" % _h(v[1])
    if tag == "u":
        return "(VUri %s)" % _h(v[1])
    if tag == "l":
        return "(VList [%s])" % "; ".join(coq_value(x) for x in v[1:])
    if tag == "d":
        return "(VDict %s)" % coq_dict(v)
    raise ValueError("bad value %r" % (v,))


def coq_dict(d):
    return "[%s]" % "; ".join("(%s, %s)" % (_h(kv[0]), coq_value(kv[1])) for kv in d[1:])


def coq_opt(x, f):
    return "None" if x == "none" else "(Some %s)" % f(x)


def coq_user(u):
    return ("{| u_authid := %s; u_role := %s; u_keys := [%s]; u_salt := %s; u_keylen := (%s)%%Z; u_iters := (%s)%%Z |}"
            % (_h(u[1]), coq_opt(u[2], _h), "; ".join("(%s, %s)" % (_h(k[0]), _h(k[1])) for k in u[3]),
               _h(u[4]), u[5], u[6]))


def coq_ks(k):
    return _intern("ks", k, lambda k: "(table_keystore %s [%s] %s)" % (
        _h(k[1]), "; ".join(coq_user(u) for u in k[3]), _b(k[2])))


def coq_auth(a):
    if a[0] == "anonymous":
        return "AAnonymous %s" % _h(a[1])
    return {"ticket": "ATicket", "wampcra": "ACra", "cryptosign": "ACryptosign"}[a[0]] + " " + coq_ks(a[1])


def coq_rc(rc):
    return _intern("rc", rc, _coq_rc)


def _coq_rc(rc):
    return ("{| rc_authenticators := [%s]; rc_anonymous := %s; rc_local_auth := %s; rc_strict_uri := %s; rc_meta_strict := %s |}"
            % ("; ".join(coq_auth(a) for a in rc[5]), _b(rc[1]), _b(rc[2]), _b(rc[3]), _b(rc[4])))


def coq_event(e):
    if e == "timeout":
        return "EvTimeout"
    if e == "closed":
        return "EvClosed"
    if e[0] == "hello":
        return "EvMsg (CHello %s %s)" % (_h(e[1]), coq_dict(e[2]))
    if e[0] == "auth":
        return "EvMsg (CAuthenticate %s %s)" % (_h(e[1]), coq_dict(e[2]))
    if e[0] == "abort":
        return "EvMsg (CAbort %s)" % _h(e[1])
    return "EvMsg (COther %s%%N)" % e[1]


def coq_case(c):
    _, _id, _bind, router, peer, oracle, script, cra, opn = c
    realms = "; ".join("(%s, %s)" % (_h(r[0]), coq_rc(r[1])) for r in router[2][1:])
    o = oracle
    return ("{| c_router := {| rt_realms := [%s]; rt_template := %s; rt_closed := %s |};\n"
            "   c_peer := {| p_local := %s; p_transport := %s |};\n"
            "   c_oracle := {| o_sid := %s%%N; o_gen_authid := %s; o_nonce := %s; o_timestamp := %s; o_rand_key := %s;\n"
            "                  o_cs_challenge := %s; o_chal_blocked := %s; o_realm_closed := %s |};\n"
            "   c_script := [%s];\n   c_cra := [%s];\n   c_open := [%s] |}"
            % (realms, coq_opt(router[3], coq_rc), _b(router[1]), _b(peer[1]), coq_dict(peer[2]),
               o[1], _h(o[2]), _h(o[3]), _h(o[4]), _h(o[5]), _h(o[6]), _b(o[7]), _b(o[8]),
               "; ".join(coq_event(e) for e in script[1:]),
               "; ".join("(%s, %s, %s, %s)" % (_h(x[0]), _h(x[1]), _h(x[2]), _b(x[3])) for x in cra[1:]),
               "; ".join("(%s, %s, %s)" % (_h(x[0]), _h(x[1]), coq_opt(x[2], _h)) for x in opn[1:])))


def coq_out(m):
    if m[0] == "challenge":
        return "OChallenge %s %s" % (_h(m[1]), coq_dict(m[2]))
    if m[0] == "welcome":
        return "OWelcome %s%%N %s" % (m[1], coq_dict(m[2]))
    if m[0] == "abort":
        return "OAbort %s %s" % (_h(m[1]), _b(m[2]))
    raise ValueError("unprojectable message %r" % (m,))


def coq_obs(o):
    return ("{| ob_out := [%s]; ob_closed := %s; ob_err := %s; ob_shown := %s; ob_created := %s; ob_effects := %s%%N |}"
            % ("; ".join(coq_out(m) for m in o[2][1:]), _b(o[3]), _b(o[4]), coq_opt(o[5], coq_dict), _b(o[6]), o[7]))


def kernel_replay(sample, bind=True):
    """sample: list of outcomes (fully observed).  Writes coq/cases/c09_cases_k.v
    files, compiles them, returns (checked, mismatching ids, log)."""
    if not sample:
        return 0, [], ""
    d = os.path.join(common.COQ, "cases")
    os.makedirs(d, exist_ok=True)
    per = max(10, -(-len(sample) // common.NPROC))
    files = []
    for k in range(0, len(sample), per):
        chunk = sample[k:k + per]
        body = []
        global _INTERN
        _INTERN = collections.OrderedDict()
        try:
            for o in chunk:
                body.append("(%s,\n %s)" % (coq_case(parse_sexp(o["model_case"])), coq_obs(parse_sexp(o["impl_obs"]))))
            shared = "".join("Definition %s := %s.\n" % nv for nv in _INTERN.values())
        finally:
            _INTERN = None
        txt = ("(* GENERATED by tools/checks/c09.py: implementation observations replayed in the kernel *)\n"
               "From Coq Require Import List String ZArith NArith Bool.\n"
               "From Nexus Require Import Auth.Values Auth.Handshake Auth.KeyTable Auth.Runner.\n"
               "Import ListNotations.\nOpen Scope string_scope.\n"
               "Definition h (s : string) : string := match hex_decode s with Some x => x | None => \"\" end.\n"
               "%s"
               "Definition cases : list (case * observation) := [\n%s\n].\n"
               "Eval vm_compute in (mismatches %s cases).\n" % (shared, ";\n".join(body), "true" if bind else "false"))
        p = os.path.join(d, "c09_cases_%s_%d.v" % (common.repo_key().replace("-", "_"), k // per))
        with open(p, "w") as f:
            f.write(txt)
        files.append((p, chunk))

    def one(pc):
        p, chunk = pc
        rc, out = common.run(["coqc", "-Q", ".", "Nexus", "-w", "-notation-overridden", os.path.relpath(p, common.COQ)],
                             cwd=common.COQ, timeout=1500)
        if rc != 0:
            return None, out
        m = re.search(r"=\s*\[(.*?)\]\s*:\s*list N", out, re.S)
        if not m:
            return None, out
        idx = [int(x) for x in re.findall(r"(\d+)%N", m.group(1))]
        return [chunk[i]["id"] for i in idx], out
    with ThreadPoolExecutor(min(len(files), common.NPROC)) as ex:
        rs = list(ex.map(one, files))
    bad, log, checked = [], "", 0
    for (p, chunk), (ids, out) in zip(files, rs):
        if ids is None:
            log += out[-2000:]
            bad.append("kernel-replay-failed:" + os.path.basename(p))
        else:
            checked += len(chunk)
            bad += ids
    return checked, bad, log


# --------------------------------------------------------------------------
# analysis


def scenario_key(sc):
    s = dict(sc)
    s.pop("id", None)
    s.pop("tags", None)
    return hashlib.sha1(json.dumps(s, sort_keys=True).encode()).hexdigest()


def nontrivial(o):
    c = o.get("class", "")
    return "first=hello" in c and ("welcome=" in c or "chal=" in c or "authentication_failed" in c
                                   or "no_such_role" in c or "realm-closed" in c)


def scenario_size(sc):
    d = ((sc.get("hello") or {}).get("details") or {}).get("d") or {}
    n = len(json.dumps(d)) + 50 * len(sc.get("post") or [])
    n += 200 * sum(len(r.get("auths") or []) for r in sc["router"].get("realms") or [])
    n += 500 if sc["router"].get("template") else 0
    n += 100 if sc["peer"].get("transport") else 0
    return n


def shrink(sc, still_fails, budget=25):
    """Greedy simplification of a failing scenario."""
    import copy
    best = copy.deepcopy(sc)

    def candidates(s):
        d = ((s.get("hello") or {}).get("details") or {}).get("d")
        if s.get("post"):
            c = copy.deepcopy(s)
            c["post"] = []
            yield c
        if s["peer"].get("transport"):
            c = copy.deepcopy(s)
            c["peer"]["transport"] = None
            yield c
        if s["router"].get("template") and any(r["uri"] == s["hello"]["realm"] for r in s["router"]["realms"]):
            c = copy.deepcopy(s)
            c["router"]["template"] = None
            yield c
        if len(s["router"]["realms"]) > 1:
            c = copy.deepcopy(s)
            c["router"]["realms"] = [r for r in c["router"]["realms"] if r["uri"] == s["hello"]["realm"]] or c["router"]["realms"][:1]
            yield c
        for ri, r in enumerate(s["router"]["realms"]):
            for ai in range(len(r.get("auths") or [])):
                c = copy.deepcopy(s)
                del c["router"]["realms"][ri]["auths"][ai]
                yield c
            for flag in ("anonymous", "meta_strict"):
                if r.get(flag):
                    c = copy.deepcopy(s)
                    c["router"]["realms"][ri][flag] = False
                    yield c
        if d:
            for k in list(d):
                if k in ("roles",):
                    continue
                c = copy.deepcopy(s)
                del c["hello"]["details"]["d"][k]
                yield c
        if s.get("resp", {}).get("user"):
            c = copy.deepcopy(s)
            c["resp"]["user"] = ""
            yield c
    progress = True
    while progress and budget > 0:
        progress = False
        for c in candidates(best):
            if budget <= 0:
                break
            budget -= 1
            if still_fails(c):
                best = c
                progress = True
                break
    return best


class Run:
    def __init__(self, tier):
        self.tier = tier
        self.workdir = common.build_dir("c09", "run")
        for f in glob.glob(os.path.join(self.workdir, "*")):
            try:
                os.remove(f)
            except OSError:
                pass
        self.drive = None
        self.model = None
        self.outcomes = []
        self.model_lines = {}
        self.crashes = []
        self.n_file = 0

    def execute(self, scenarios, tag):
        """Run explicit scenarios (corpus, shrinking, replay)."""
        self.n_file += 1
        inp = os.path.join(self.workdir, "%s-%d.in.jsonl" % (tag, self.n_file))
        with open(inp, "w") as f:
            for s in scenarios:
                f.write(json.dumps(s) + "\n")
        outs, crashes = run_driver(self.drive, "file", self.workdir, "%s-%d" % (tag, self.n_file), infile=inp)
        return outs, crashes

    def compare(self, outs, bind=True):
        lines = run_model(self.model, [o["model_case"] for o in outs if o.get("model_case")], bind)
        it = iter(lines)
        res = []
        for o in outs:
            if not o.get("model_case"):
                res.append((o, None, ["no-model-case"]))
                continue
            l = next(it)
            res.append((o, l, diff_fields(l, o["impl_obs"])))
        return res


def corpus_scenarios():
    res = []
    for p in sorted(glob.glob(os.path.join(common.VERIF, "corpus", PID, "*.json"))):
        try:
            obj = json.load(open(p))
        except ValueError:
            continue
        for sc in (obj if isinstance(obj, list) else [obj]):
            sc = sc.get("scenario", sc)
            if "hello" in sc and "router" in sc:
                sc = dict(sc)
                sc["id"] = "corpus_" + os.path.splitext(os.path.basename(p))[0].replace("-", "_") + "_" + str(len(res))
                res.append(sc)
    return res


def conformance_failure(r):
    """Name of the conformance lemma (or Props theorem) that stopped compiling."""
    m = re.search(r'File "\./([^"]+)", line (\d+)', r.get("failed") or "")
    if not m:
        return None
    f, line = m.group(1), int(m.group(2))
    p = os.path.join(common.COQ, f)
    name = None
    if os.path.exists(p):
        for i, l in enumerate(open(p), 1):
            mm = re.match(r"\s*(?:Lemma|Theorem|Example)\s+([A-Za-z0-9_']+)", l)
            if mm and i <= line:
                name = mm.group(1)
    return "%s:%s" % (f, name or "line %d" % line)


def summarize(o):
    sc = o["scenario"]
    return {"id": o["id"], "class": o.get("class"), "peer_local": sc["peer"]["local"],
            "first": sc["hello"]["first"], "realm": sc["hello"]["realm"],
            "hello_details": sc["hello"].get("details"), "resp": sc.get("resp"),
            "impl": pretty(parse_sexp(o["impl_obs"])) if o.get("impl_obs") else None}


def main(tier, replay):
    t = common.Timer()
    v = common.Verdict(PID)
    gen_err = gen()
    consts = gen_constants()

    if replay:
        ok, log = common.coq_make(["Auth/Runner.vo"])
        if not ok:
            raise RuntimeError(log[-3000:])
        run = Run(tier)
        run.drive, log = common.go_build("./cmd/c09drive", test=True)
        if run.drive is None:
            print("the correspondence harness does not build against this tree:\n" + log[-2000:])
            print("VIOLATION property=%s replay=%s" % (PID, replay))
            return 1
        run.model, log = build_model_runner()
        if run.model is None:
            raise RuntimeError(log)
        return do_replay(run, replay, v)

    # ---- obligations
    r = common.coq_props(PID, extra_files=EXTRA)
    common.info("C09: obligations %.1fs" % t.s())
    obligations, discharged = len(r["obligations"]), len(r["discharged"])
    broken = []
    if gen_err:
        broken.append("translator: " + gen_err.splitlines()[-1][:300])
    if not r["ok"]:
        broken.append("obligation " + (conformance_failure(r) or "coq build") + " no longer compiles")
    hyg = [h for h in common.hygiene_scan() if h.startswith(("Auth/", "Props/C09", "gen/GenC09"))]
    if hyg:
        broken.append("hygiene: " + "; ".join(hyg[:3]))
    closed = all("Closed under the global context" in a for a in r["assumptions"].values())
    if r["ok"] and not closed:
        broken.append("Print Assumptions: " + json.dumps(r["assumptions"])[:400])

    # ---- build harness and model runner
    run = Run(tier)
    run.drive, log = common.go_build("./cmd/c09drive", test=True)
    if run.drive is None:
        common.info(log[-3000:])
        v.violation({"broken": "the correspondence harness does not build against this tree", "log": log[-2000:]},
                    tag="harness-build", no_input=True)
        _evidence(tier, t, v, r, obligations, discharged, 0, 0, [], {}, broken + ["harness build failed"], consts, 0, 0)
        return v.exit_code()
    run.model, log = build_model_runner()
    if run.model is None:
        raise RuntimeError(log)

    common.info("C09: builds %.1fs" % t.s())

    # ---- corpus first, then the systematic core and the seeded random stream
    seed = common.seed()
    count = 1300 if tier == "quick" else 52000
    outs = []
    corp = corpus_scenarios()
    if corp:
        o, c = run.execute(corp, "corpus")
        outs += o
        run.crashes += c
    o, c = run_driver(run.drive, "gen", run.workdir, "gen", seed=seed, count=count, shards=common.NPROC)
    outs += o
    run.crashes += c
    common.info("C09: %d handshakes run %.1fs" % (len(outs), t.s()))
    # Router.Close racing with a queued AttachClient is resolved by the Go
    # scheduler (C06's subject): when the attach goroutine lost that race and
    # panicked, run the scenario again before drawing conclusions.
    for attempt in range(3):
        lost = [i for i, o in enumerate(outs) if o.get("panic") and (o["scenario"]["router"].get("closing") or o["scenario"]["router"].get("stopped"))]
        if not lost:
            break
        again, _ = run.execute([outs[i]["scenario"] for i in lost], "closing-retry")
        byid = {o["id"]: o for o in again}
        for i in lost:
            if outs[i]["id"] in byid:
                outs[i] = byid[outs[i]["id"]]
    compared = run.compare(outs)
    common.info("C09: model run and compared %.1fs" % t.s())

    findings, mismatches = analyse(compared, consts)

    # ---- in-kernel replay of a sample
    full = [o for (o, l, d) in compared if l and "?" not in o["impl_obs"] and not d]
    want = 60 if tier == "quick" else 1000
    step = max(1, len(full) // want)
    byclass = collections.OrderedDict()
    for o in full:
        byclass.setdefault(o["class"], o)
    sample = list(byclass.values())[:want]
    chosen = {o["id"] for o in sample}
    for o in full[::step]:
        if len(sample) >= want:
            break
        if o["id"] not in chosen:
            sample.append(o)
            chosen.add(o["id"])
    kchecked, kbad, klog = (0, [], "")
    if r["ok"]:
        kchecked, kbad, klog = kernel_replay(sample)
        if kbad:
            broken.append("in-kernel replay disagrees with the extracted runner / implementation on %s" % kbad[:5])
            common.info(klog[-1500:])

    common.info("C09: kernel replay of %d cases %.1fs" % (kchecked, t.s()))

    # ---- search harder when something is broken but no concrete failing input yet
    if (broken or mismatches or run.crashes) and not findings:
        common.info("C09: searching for a concrete failing handshake ...")
        extra_count = 4000 if tier == "quick" else 20000
        o2, c2 = run_driver(run.drive, "gen", run.workdir, "search", seed=seed + 7919, count=extra_count,
                            shards=common.NPROC, nocore=True)
        run.crashes += c2
        comp2 = run.compare(o2)
        f2, m2 = analyse(comp2, consts)
        compared += comp2
        outs += o2
        for k, lst in f2.items():
            findings.setdefault(k, []).extend(lst)
        for k, lst in m2.items():
            mismatches.setdefault(k, []).extend(lst)

    # ---- verdict
    def fails_with(sig):
        def pred(sc):
            sc = dict(sc)
            sc["id"] = "shrink"
            o, c = run.execute([sc], "shrink")
            return bool(o) and any(a["signature"] == sig for a in (o[0].get("monitor") or []))
        return pred

    def sig_rank(sig):
        for i, pre in enumerate(("cryptosign:", "wampcra:", "welcome-without", "abort-otherwise", "identity", "handshake")):
            if sig.startswith(pre):
                return i
        return 9
    ranked = sorted(findings.items(), key=lambda kv: (sig_rank(kv[0]), kv[0]))
    if len(ranked) > 3:
        common.info("C09: %d distinct alarm signatures; reporting the first 3: others %s"
                    % (len(ranked), [k for k, _ in ranked[3:]]))
    for sig, lst in ranked[:3]:
        lst.sort(key=lambda o: scenario_size(o["scenario"]))
        o = lst[0]
        small = shrink(o["scenario"], fails_with(sig))
        small["id"] = "finding"
        o2, _ = run.execute([small], "final")
        o = o2[0] if o2 and any(a["signature"] == sig for a in (o2[0].get("monitor") or [])) else o
        what = next(a["what"] for a in o["monitor"] if a["signature"] == sig)
        ml = run.compare([o])[0][1]
        v.finding(sig, {"scenario": o["scenario"], "implementation": pretty(parse_sexp(o["impl_obs"])),
                        "model_repaired": pretty(parse_sexp(ml)) if ml else None,
                        "monitor": o["monitor"], "occurrences": len(lst)}, what, tag="finding")

    if mismatches and not findings:
        # the model and the implementation disagree, the property monitor accepts
        keyed = sorted(mismatches.items(), key=lambda kv: -len(kv[1]))
        for key, lst in keyed[:1]:
            lst.sort(key=lambda x: scenario_size(x[0]["scenario"]))
            o, l, d = lst[0]

            def pred(sc, fields=tuple(d)):
                sc = dict(sc)
                sc["id"] = "shrink"
                oo, _ = run.execute([sc], "shrink")
                if not oo:
                    return False
                res = run.compare(oo)
                return bool(res[0][2]) and set(res[0][2]) & set(fields)
            small = shrink(o["scenario"], pred)
            small["id"] = "mismatch"
            oo, _ = run.execute([small], "final")
            if oo and run.compare(oo)[0][2]:
                o, l, d = run.compare(oo)[0]
            v.violation({"broken": "correspondence: model and implementation differ on " + ",".join(d),
                         "obligations_broken": broken, "scenario": o["scenario"],
                         "implementation": pretty(parse_sexp(o["impl_obs"])),
                         "model": pretty(parse_sexp(l)) if l else None,
                         "monitor": o.get("monitor"), "occurrences": len(lst),
                         "note": "the property monitor accepted every handshake run; no input violating the property itself was found"},
                        tag="correspondence", no_input=True)
    elif broken and not findings:
        v.violation({"broken": broken, "failed": (r.get("failed") or "")[:1500],
                     "note": "proof obligation / tie broken; %d handshakes searched, none violates the property or disagrees with the model" % len(outs)},
                    tag="obligation", no_input=True)

    if run.crashes and not findings and not v.violations:
        c = run.crashes[0]
        v.violation({"broken": "the harness process died", "during": c.get("during"), "log": c.get("log")},
                    tag="crash", no_input=True)

    _evidence(tier, t, v, r, obligations, discharged, len(outs), kchecked, compared, mismatches, broken, consts,
              len(corp), sum(len(x) for x in findings.values()))
    common.info("C09: done %.1fs" % t.s())
    return v.exit_code()


def analyse(compared, consts):
    """-> (findings: signature -> outcomes, mismatches: key -> [(o, line, diff)])"""
    findings, mismatches = {}, {}
    for o, l, d in compared:
        for a in o.get("monitor") or []:
            findings.setdefault(a["signature"], []).append(o)
        sc = o["scenario"]
        dd = list(d or [])
        # timeouts are honoured exactly (virtual clock)
        if o.get("timeout_kind") == "hello" and consts.get("hello_timeout_ns") is not None and not sc["router"].get("closing") and not sc["router"].get("stopped"):
            if abs(o.get("t_ret_ms", 0) - consts["hello_timeout_ns"] / 1e6) > 1e-6:
                dd.append("hello_timeout(%sms)" % o.get("t_ret_ms"))
        if o.get("panic"):
            dd.append("panic")
        if dd:
            mismatches.setdefault((tuple(dd), o.get("class")), []).append((o, l, dd))
    return findings, mismatches


def _evidence(tier, t, v, r, obligations, discharged, evaluations, kchecked, compared, mismatches, broken, consts,
              ncorpus, nfind):
    classes = collections.Counter(o.get("class") for (o, l, d) in compared)
    keys = set()
    for (o, l, d) in compared:
        if nontrivial(o):
            keys.add(scenario_key(o["scenario"]))
    leaks = collections.Counter(re.sub(r"^.*remain: ", "", o.get("leak")) for (o, l, d) in compared if o.get("leak"))
    methods = collections.Counter()
    resp = collections.Counter()
    peers = collections.Counter()
    for (o, l, d) in compared:
        c = o.get("class") or ""
        for m in re.findall(r"(?:chal|welcome)=(\S+)", c):
            methods[m] += 1
        mm = re.search(r"resp=(\S+)", c)
        if mm:
            resp[mm.group(1)] += 1
        peers["local" if " local" in c else "remote"] += 1
    samples = []
    seen = set()
    for (o, l, d) in compared:
        c = o.get("class")
        if c not in seen and ("chal=" in c or "welcome=" in c) and len(samples) < 6:
            seen.add(c)
            samples.append(summarize(o))
    trusted = ["Coq 8.16.1 kernel (coqc), vm_compute",
               "Extraction (ExtrOcamlBasic only) + ocaml/auth/c09run.ml (parser/printer), bounded by the in-kernel replay of %d cases" % kchecked,
               "go/cmd/genc09 (reading of AttachClient/authClient syntax)",
               "go/cmd/c09drive (scenario generator, monitor, canonicaliser), testing/synctest semantics",
               "crypto/hmac, crypto/sha256, x/crypto/nacl/sign, x/crypto/pbkdf2: assumed correct and strong, not verified"]
    for n, a in sorted(r["assumptions"].items()):
        trusted.append("Print Assumptions %s: %s" % (n, a))
    coverage = {
        "obligations": obligations,
        "discharged": discharged,
        "obligation_names": r["obligations"],
        "checker_cmd": "coqc -Q coq Nexus coq/Props/C09.v (after make of its dependencies, coq/Auth/C09Conformance.v and coq/Auth/Runner.v)",
        "trusted_base": trusted,
        "evaluations": evaluations,
        "distinct_nontrivial": len(keys),
        "rule": ("one evaluation = one handshake run against the real router.AttachClient in a synctest bubble and against the extracted model; "
                 "corpus, then the systematic core (method x response kind x user x local/remote x smuggling; identity key x value type; "
                 "first message x realm situation; roles / authmethods edge cases; bypass key store; realm closed midway), then VERIF_SEED-driven random scenarios. "
                 "non-trivial = first message is HELLO and the run got past realm lookup (roles check, authClient or later); "
                 "distinct = distinct scenario (configuration, peer, HELLO details, response kind, later messages) by hash"),
        "samples": samples,
        "exhaustive": False,
        "decisive_branch_classes": len(classes),
        "input_distribution": {"by_method": dict(methods), "by_response_kind": dict(resp), "by_peer": dict(peers),
                               "corpus_scenarios": ncorpus,
                               "classes_top": dict(classes.most_common(12))},
        "kernel_replayed_cases": kchecked,
        "model_impl_mismatches": sum(len(x) for x in mismatches.values()),
        "monitor_alarms": nfind,
        "broken_obligations": broken,
        "regenerated_constants": consts,
        "observations_outside_property": {"goroutine_leaks_by_blocked_function": dict(leaks)},
    }
    assumptions = [
        "HMAC-SHA256, Ed25519 (NaCl sign), PBKDF2 and crypto/rand are not modelled: the theorems hold for every cra_verify / sign_open (Section variables), "
        "the harness feeds the real primitives' results to the model as per-run facts",
        "RemoveRealm / Router.Close racing with getAuthenticator (send on a closed action channel) belongs to C06 and is not modelled",
        "key stores are arbitrary functions in the theorems; the correspondence runs use the table key store of coq/Auth/KeyTable.v",
    ]
    common.write_evidence(PID, tier, "proof", coverage, t.s(), v.violations, assumptions)


def do_replay(run, path, v):
    obj = json.load(open(path))
    sc = obj.get("scenario")
    if not sc:
        print("replay file names no scenario: " + json.dumps(obj.get("broken"))[:500])
        print("re-running the whole check instead")
        return main("quick", None)
    sc = dict(sc)
    sc["id"] = "replay"
    outs, crashes = run.execute([sc], "replay")
    if not outs:
        print("the harness died during the replay:\n" + (crashes[0]["log"] if crashes else ""))
        print("VIOLATION property=%s replay=%s" % (PID, path))
        return 1
    o = outs[0]
    rep = run.compare([o], bind=True)[0]
    asfound = run.compare([o], bind=False)[0]
    print("scenario      :", json.dumps(o["scenario"]["hello"]), json.dumps(o["scenario"]["resp"]),
          "peer", json.dumps(o["scenario"]["peer"]))
    print("implementation:", pretty(parse_sexp(o["impl_obs"])))
    print("model repaired:", pretty(parse_sexp(rep[1])) if rep[1] else None, " differs on:", rep[2])
    print("model as found:", pretty(parse_sexp(asfound[1])) if asfound[1] else None, " differs on:", asfound[2])
    print("monitor       :", json.dumps(o.get("monitor")))
    if o.get("leak"):
        print("leak          :", o["leak"])
    bad = bool(o.get("monitor")) or bool(rep[2])
    if o.get("monitor"):
        known = all(common.match_known(PID, a["signature"]) for a in o["monitor"])
        if known:
            print("KNOWN-FINDING: property=%s %s" % (PID, o["monitor"][0]["what"]))
            return 0
    if bad:
        print("VIOLATION property=%s replay=%s" % (PID, path))
        return 1
    print("verdict       : model and implementation agree, monitor accepts")
    return 0
