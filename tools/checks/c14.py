"""C14 — serializers round-trip every message and agree with each other.

Decision (see docs/C14.md):
  1. gen(): translator go/cmd/genc14 reads wamp/message.go and
     transport/serialize/*.go of common.REPO -> coq/gen/GenC14Schema.v.
  2. Coq obligations: Props/C14.v (the theorems, about the model at the
     generated schema) and Codec/C14Conf.v (per-run conformance of the
     generated schema / handle options / recognised function shapes).
  3. Correspondence, both directions, through the extracted model (c14run)
     and the Go driver (c14drive), plus the property monitor (round trip equal
     up to numeric kind; a message only for a list with a known code and
     compatible items; never a panic).
  4. Verdict / evidence.
"""
import json
import os
import re
import resource
import subprocess
import sys
import time
from concurrent.futures import ThreadPoolExecutor

import common

PID = "C14"
FMTS = ("json", "msgpack", "cbor")
EXTRA_COQ = ["Codec/C14Conf.v", "Codec/C14ConfShape.v", "Codec/C14ConfWire.v"]
MODEL_VO = ["Codec/Canon.vo", "Codec/Serial.vo", "gen/GenC14Schema.vo"]

INTENDED_SHAPE = {
    "sh_code_json": "CRUint64Only", "sh_code_msgpack": "CRInt64OrUint64", "sh_code_cbor": "CRUint64Only",
    "sh_top_json": "TRAnyThenAssert", "sh_top_msgpack": "TRAnyThenAssert", "sh_top_cbor": "TRAnyThenAssert",
    "sh_conv": "CVExact",
    "sh_m2l_trailing_loop": "true", "sh_m2l_keeps_prefix": "true",
    "sh_l2m_unknown_code_err": "true", "sh_l2m_loop_bounds": "true", "sh_l2m_nil_skip": "true",
    "sh_l2m_cascade_order": "true", "sh_bin_prefix_nul": "true",
}
# shape fields whose un-repaired value is a KNOWN defect class (reported with a
# concrete witness through the probes), not an unrecognised construct
DEFECT_SHAPE = {
    ("sh_conv", "CVReflect"),
    ("sh_top_json", "TRIntoSlice"), ("sh_top_msgpack", "TRIntoSlice"), ("sh_top_cbor", "TRIntoSlice"),
}


# --------------------------------------------------------------------------
# translator


def gen():
    """Run the translator on common.REPO; returns its JSON summary (dict).
    A construct it does not understand is listed under 'errors'."""
    exe, log = common.go_build("./cmd/genc14")
    if exe is None:
        raise RuntimeError("cannot build the C14 translator:\n" + log[-3000:])
    d = common.build_dir("c14")
    js = os.path.join(d, "gen.json")
    outv = os.path.join(common.COQ, "gen", "GenC14Schema.v")
    tmpv = os.path.join(d, "GenC14Schema.v")
    if os.path.exists(tmpv):
        os.remove(tmpv)
    rc, out = common.run([exe, "-repo", common.REPO, "-out", tmpv, "-json", js], timeout=120)
    summary = {}
    if os.path.exists(js):
        summary = json.load(open(js))
    summary.setdefault("errors", None)
    summary["translator_rc"] = rc
    summary["translator_log"] = out[-2000:]
    if os.path.exists(tmpv):
        common.write_if_changed(outv, open(tmpv).read())
    elif not os.path.exists(outv):
        raise RuntimeError("translator produced no schema:\n" + out[-2000:])
    return summary


# --------------------------------------------------------------------------
# model runner (extracted OCaml)


def build_runner():
    d = common.build_dir("c14")
    ok, log = common.coq_make(MODEL_VO, timeout=1500, keep_going=True)
    if not ok:
        return None, "the C14 model does not compile:\n" + log[-3000:]
    src = os.path.join(common.VERIF, "ocaml", "c14")
    stamp = os.path.join(d, "runner.stamp")
    deps = [os.path.join(common.COQ, x) for x in MODEL_VO] + [os.path.join(src, "extract_c14.v"), os.path.join(src, "c14run.ml")]
    key = "|".join("%s:%d" % (p, os.stat(p).st_mtime_ns) for p in deps)
    exe = os.path.join(common.build_dir("bin"), "c14run")
    if os.path.exists(exe) and os.path.exists(stamp) and open(stamp).read() == key:
        return exe, ""
    with common.Lock("c14-runner-" + common.repo_key()):
        rc, out = common.run(["coqc", "-Q", common.COQ, "Nexus", os.path.join(src, "extract_c14.v")], cwd=d, timeout=600)
        if rc != 0:
            return None, "extraction failed:\n" + out[-3000:]
        import shutil
        shutil.copy(os.path.join(src, "c14run.ml"), os.path.join(d, "c14run.ml"))
        rc, out = common.run(["ocamlfind", "ocamlopt", "-O2", "-w", "-a", "c14model.mli", "c14model.ml", "c14run.ml", "-o", exe],
                             cwd=d, timeout=600)
        if rc != 0:
            return None, "ocamlopt failed:\n" + out[-3000:]
        with open(stamp, "w") as f:
            f.write(key)
    return exe, ""


def _big_stack():
    # the extracted decoders recurse once per byte of a long string: 1 GiB of stack (a finite limit; an
    # unlimited one changes the process layout and makes every exec slow)
    for lim in (1 << 30, 1 << 28):
        try:
            resource.setrlimit(resource.RLIMIT_STACK, (lim, lim))
            return
        except Exception:
            continue


def run_model(exe, reqs):
    """reqs: list of request strings without id.  Returns list of answers
    (same order).  Sharded over the cores."""
    if not reqs:
        return []
    nshard = max(1, min(common.NPROC, len(reqs) // 3000 + 1))
    shards = [[] for _ in range(nshard)]
    for i, r in enumerate(reqs):
        shards[i % nshard].append((i, r))
    res = [None] * len(reqs)

    def work(sh):
        inp = "".join("%d %s\n" % (i, r) for i, r in sh)
        # 1 GB of stack through the shell (a preexec_fn would force a slow fork of this large process)
        p = subprocess.run(["/bin/sh", "-c", 'ulimit -s 1000000 2>/dev/null; exec "$0"', exe], input=inp,
                           stdout=subprocess.PIPE, stderr=subprocess.PIPE, text=True, errors="replace", timeout=3000)
        got = {}
        for line in p.stdout.splitlines():
            k, _, v = line.partition(" ")
            got[int(k)] = v
        for i, r in sh:
            res[i] = got.get(i, "runner-died rc=%s %s" % (p.returncode, p.stderr[-200:].replace("\n", " ")))

    with ThreadPoolExecutor(max_workers=nshard) as ex:
        list(ex.map(work, shards))
    return res


# --------------------------------------------------------------------------
# Go driver


REINIT_WHAT = ("after the public state-changing APIs of transport/serialize have been used (InitMsgpackHandle, "
               "MsgpackRegisterExtension for a harness-only type, deregistration, InitMsgpackHandle and registration again)")


def run_drive(exe, args, inp=None, timeout=3000, state="fresh"):
    """state: 'fresh' = serializers as after package init; 'reinit' = after the exported re-initialisation /
    extension-registration functions have been exercised (c14drive -state reinit)."""
    if state != "fresh":
        args = args[:1] + ["-state", state] + args[1:]
    p = subprocess.run([exe] + args, input=inp, stdout=subprocess.PIPE, stderr=subprocess.PIPE, text=True, errors="replace", timeout=timeout)
    cases, stats = [], {}
    for line in p.stdout.splitlines():
        if line.startswith("STATS "):
            stats = json.loads(line[6:])
            continue
        m = re.match(r"^(\w) (\S+) (\S+) (\S*) \| M (.*?) \| D (.*?) \| V (.*)$", line)
        if not m:
            continue
        c = dict(kind=m.group(1), id=m.group(2), fmt=m.group(3), hex=m.group(4) if m.group(4) != "-" else None,
                 msg=m.group(5), D=m.group(6), V=m.group(7), state=state)
        if c["kind"] == "Z":                 # the state APIs themselves panicked
            stats["state_api_panic"] = c["D"]
            continue
        cases.append(c)
    if p.returncode != 0:
        # the driver itself died: a runtime fatal error (not a recoverable panic)
        stats["driver_died"] = "rc=%d %s" % (p.returncode, p.stderr[-1500:])
    return cases, stats


def go_class(res):
    """ok <payload> | err | panic"""
    if res.startswith("ok "):
        return "ok", res[3:]
    if res.startswith("panic"):
        return "panic", res
    return "err", res


def model_class(res):
    if res.startswith("ok "):
        return "ok", res[3:]
    w = res.split(" ")[0]
    return w, res


def in_universe(s):
    return " X" not in (" " + s)


# --------------------------------------------------------------------------
# classification of an accepted-but-incompatible input


def defect_signature(fmt, hx, diag):
    if diag.startswith("top="):
        return "Deserialize:map-accepted-as-message" if is_map_start(fmt, hx) else "Deserialize:non-list-accepted-as-message"
    m = re.match(r"field=(\d+) fkind=(\w+) item=([\w-]+)", diag)
    if m:
        fk, it = m.group(2), m.group(3)
        if fk in ("uri", "string") and it in ("int64", "negative-int64", "uint64"):
            return "listToMsg:integer-accepted-for-string-field"
        if fk == "id" and it == "negative-int64":
            return "listToMsg:negative-integer-accepted-for-id-field"
        if fk in ("id", "msgtype") and it == "float64":
            return "listToMsg:inexact-float-accepted-for-integer-field"
        if fk == "msgtype" and it == "uint64":
            return "listToMsg:out-of-range-integer-accepted-for-msgtype-field"
        return "listToMsg:%s-accepted-for-%s-field" % (it, fk)
    return "Deserialize:accepted-input-the-model-rejects(%s)" % diag


def json_unsafe_float(vs):
    """does the V-syntax text hold a binary64 with 2^52 <= |f| < 1e21 (written by ugorji's JSON
    encoder as an INTEGER literal: shortest digits padded with zeros)?"""
    import struct
    for tok in vs.split():
        if len(tok) == 17 and tok[0] == "D":
            try:
                f = struct.unpack(">d", bytes.fromhex(tok[1:]))[0]
            except Exception:
                continue
            if f == f and 2.0 ** 52 <= abs(f) < 1e21:
                return True
    return False


JSON_FLOAT_SIG = "json:float-from-2^52-written-as-integer-literal"
JSON_FLOAT_WHAT = ("JSON: a float64 payload value with 2^52 <= |f| < 1e21 is written without fraction or exponent "
                   "(shortest digits padded with zeros); it is read back as an integer of a possibly different value, "
                   "and Deserialize fails outright when it is below -2^63")


def is_map_start(fmt, hx):
    if not hx:
        return False
    b = int(hx[:2], 16)
    if fmt == "msgpack":
        return 0x80 <= b <= 0x8f or b in (0xde, 0xdf)
    if fmt == "cbor":
        return (b >> 5) == 5
    return chr(b) == "{"


# --------------------------------------------------------------------------


class Run:
    def __init__(self, tier, drive, model, verdict):
        self.tier = tier
        self.drive = drive
        self.model = model
        self.v = verdict
        self.evaluations = 0
        self.distinct = set()
        self.samples = []
        self.dist = {}
        self.counts = {}
        self.reported = set()
        self.broken = []          # correspondence disagreements (model != implementation)
        self.findings = []        # property failures with concrete input

    def count(self, k, n=1):
        self.counts[k] = self.counts.get(k, 0) + n

    def report(self, signature, what, case, extra=None):
        """a concrete input on which the property fails (or model and code disagree)"""
        state = case.get("state") or "fresh"
        if signature in self.reported:
            self.count("further inputs of an already reported signature")
            return
        self.reported.add(signature)
        if state != "fresh" and signature != JSON_FLOAT_SIG:
            # seen only with the serializers in the re-initialised state (the fresh-state streams run first
            # and report a state-independent failure under the plain signature)
            self.reported.add(signature + "@after-reinit")
            signature = signature + "@after-reinit"
            what = what + " — " + REINIT_WHAT
        kind = case.get("kind")
        obj = dict(property=PID, signature=signature, what=what, fmt=case.get("fmt"), hex=case.get("hex"),
                   message=case.get("msg") if (kind in ("G", "Q", "S") and case.get("msg") not in (None, "-")) else None,
                   value=case.get("msg") if (kind == "I" and not str(case.get("msg")).startswith("nested")) else None,
                   implementation=dict(Deserialize=case.get("D"), DeserializeDataItem=case.get("V")),
                   state=state, seed=common.seed(), repo=common.REPO)
        if extra:
            obj.update(extra)
        self.findings.append(obj)
        self.v.finding(signature, obj, what, tag=re.sub(r"[^A-Za-z0-9]+", "-", signature)[:40])

    # ---- one batch of byte strings: implementation vs model, plus the monitor
    def check_bytes(self, cases, label):
        reqs = []
        for c in cases:
            hx = c["hex"] or ""
            reqs += ["des %s %s" % (c["fmt"], hx), "desx %s %s" % (c["fmt"], hx), "dec %s %s" % (c["fmt"], hx)]
        ans = run_model(self.model, reqs)
        monitor_reqs, monitor_idx = [], []
        for i, c in enumerate(cases):
            c["m_des"], c["m_desx"], c["m_dec"] = ans[3 * i], ans[3 * i + 1], ans[3 * i + 2]
            self.evaluations += 1
            gk, gp = go_class(c["D"])
            vk, vp = go_class(c["V"]) if c["V"] != "-" else ("none", "")
            mk, mp = model_class(c["m_des"])
            xk, xp = model_class(c["m_desx"])
            dk, dp = model_class(c["m_dec"])
            self.count("%s: Deserialize %s" % (label, gk))
            # never panics
            if gk == "panic" or vk == "panic":
                self.report("panic:" + re.sub(r"\d+", "N", (c["D"] if gk == "panic" else c["V"]))[:60], "Deserialize/DeserializeDataItem panics on this input", c)
                continue
            if mk in ("panic", "fuel") or dk == "fuel":
                self.report("model-panic", "the model predicts a panic / ran out of fuel on this input", c, dict(model=c["m_des"]))
                continue
            # (1) the model at the shape read from the code must reproduce the implementation
            if mk == "ok":
                if not (gk == "ok" and gp == mp):
                    self.broken.append(dict(case=c, why="model(des)=%s implementation=%s" % (c["m_des"], c["D"])))
            elif mk == "err":
                if gk != "err":
                    self.broken.append(dict(case=c, why="model(des)=err implementation=%s" % c["D"]))
            # value level
            if c["V"] != "-":
                if dk == "ok":
                    mv = dp.rsplit(" rest=", 1)[0]
                    if not (vk == "ok" and vp == mv):
                        self.broken.append(dict(case=c, why="model(dec)=%s implementation=%s" % (c["m_dec"], c["V"])))
                elif dk == "err" and vk != "err":
                    self.broken.append(dict(case=c, why="model(dec)=err implementation=%s" % c["V"]))
            # (2) where the model makes no claim about the bytes, judge listToMsg on what the codec decoded
            if mk == "unsup" and vk == "ok" and vp.startswith("L[") and in_universe(vp):
                monitor_reqs += ["l2m %s %s" % (c["fmt"], vp), "l2mx %s %s" % (c["fmt"], vp)]
                monitor_idx.append(i)
            # (3) the property: a message only for a list with a known code and compatible items
            if gk == "ok":
                if xk == "err":
                    c["_needs_diag"] = True
                elif xk == "ok" and xp != gp:
                    c["_needs_diag"] = True
                elif xk == "unsup" and vk == "err":
                    # the codec itself refuses these bytes as ONE item, yet a message came out
                    c["_needs_diag"] = True
            if gk == "ok" or mk == "ok":
                self.distinct.add((c["fmt"], c["m_des"] if mk == "ok" else c["D"]))
        if monitor_reqs:
            ans2 = run_model(self.model, monitor_reqs)
            for j, i in enumerate(monitor_idx):
                c = cases[i]
                gk, gp = go_class(c["D"])
                lk, lp = model_class(ans2[2 * j])
                lxk, lxp = model_class(ans2[2 * j + 1])
                self.count("%s: judged on the codec's own decoding" % label)
                if lk == "ok" and not (gk == "ok" and gp == lp):
                    self.broken.append(dict(case=c, why="model(list_to_msg on decoded items)=%s implementation=%s" % (ans2[2 * j], c["D"])))
                elif lk == "err" and gk != "err":
                    self.broken.append(dict(case=c, why="model(list_to_msg on decoded items)=err implementation=%s" % c["D"]))
                if gk == "ok" and (lxk == "err" or (lxk == "ok" and lxp != gp)):
                    c["_needs_diag"] = True
        diag = [c for c in cases if c.get("_needs_diag")]
        if diag:
            dreq = []
            for c in diag:
                vk, vp = go_class(c["V"]) if c["V"] != "-" else ("none", "")
                if model_class(c["m_dec"])[0] != "ok" and vk == "ok" and vp.startswith("L[") and in_universe(vp):
                    dreq.append("diagl %s %s" % (c["fmt"], vp))     # judge the items the codec decoded
                else:
                    dreq.append("diag %s %s" % (c["fmt"], c["hex"] or ""))
            ans3 = run_model(self.model, dreq)
            for c, dg in zip(diag, ans3):
                sig = defect_signature(c["fmt"], c["hex"] or "", dg)
                self.report(sig, "Deserialize returns a message for an input that is not a list with a known code and compatible items (%s)" % dg,
                            c, dict(model_intended=c["m_desx"], model_at_code_shape=c["m_des"], diagnosis=dg))
        return cases

    # ---- structured messages, both directions + round-trip monitor
    def check_messages(self, cases):
        self.check_bytes(cases, "messages")
        reqs = []
        for c in cases:
            gk, gp = go_class(c["D"])
            reqs.append("ser %s %s" % (c["fmt"], c["msg"]))
            reqs.append("rt %s %s ; %s" % (c["fmt"], c["msg"], gp) if gk == "ok" else "info")
        ans = run_model(self.model, reqs)
        back = []
        for i, c in enumerate(cases):
            ser, rt = ans[2 * i], ans[2 * i + 1]
            gk, gp = go_class(c["D"])
            if c["hex"] is None:
                self.report("Serialize-fails", "Serialize fails / panics on a well-formed message: " + c["D"], c)
                continue
            # the property itself, on the implementation alone
            if gk != "ok":
                if c["fmt"] == "json" and json_unsafe_float(c["msg"]):
                    self.report(JSON_FLOAT_SIG, JSON_FLOAT_WHAT + " — here: " + c["D"][:200], c)
                else:
                    self.report("roundtrip:deserialize-fails", "Deserialize(Serialize(m)) fails: " + c["D"], c)
                continue
            if rt != "true":
                if c["fmt"] == "json" and json_unsafe_float(c["msg"]):
                    self.report(JSON_FLOAT_SIG, JSON_FLOAT_WHAT, c, dict(monitor=rt))
                else:
                    self.report("roundtrip:different-message", "Deserialize(Serialize(m)) is not m (up to numeric kind / nil-empty)", c,
                                dict(monitor=rt))
                continue
            self.count("messages: round trip equal (monitor)")
            # model encoder vs implementation encoder: same bytes up to the order of dict entries
            if ser.startswith("ok "):
                mh = ser[3:]
                if sorted(bytes.fromhex(mh)) != sorted(bytes.fromhex(c["hex"])):
                    self.broken.append(dict(case=c, why="model serialization differs from the implementation's (as byte multisets): model=%s" % mh[:200]))
                back.append((c, mh))
            else:
                self.broken.append(dict(case=c, why="model serialize = %s" % ser))
        # direction B: model bytes -> implementation
        if back:
            inp = "".join("%d %s %s\n" % (i, c["fmt"], mh) for i, (c, mh) in enumerate(back))
            rcases, _ = run_drive(self.drive, ["deser"], inp=inp, state=back[0][0].get("state") or "fresh")
            rreq = []
            for (c, mh), r in zip(back, rcases):
                gk, gp = go_class(r["D"])
                rreq.append("rt %s %s ; %s" % (c["fmt"], c["msg"], gp) if gk == "ok" else "info")
            rans = run_model(self.model, rreq)
            for (c, mh), r, rt in zip(back, rcases, rans):
                self.evaluations += 1
                if rt != "true":
                    r2 = dict(c)
                    r2.update(hex=mh, D=r["D"], V=r["V"])
                    self.broken.append(dict(case=r2, why="model-encoded bytes do not deserialize to the message in the implementation: " + r["D"][:200]))
                else:
                    self.count("messages: model bytes -> implementation equal")

    # ---- payload values through SerializeDataItem / DeserializeDataItem
    def check_values(self, cases):
        reqs = []
        for c in cases:
            hx = c["hex"] or ""
            nested = c["msg"].startswith("nested")
            vk, vp = go_class(c["V"])
            reqs += ["dec %s %s" % (c["fmt"], hx),
                     "rtv %s %s ; %s" % (c["fmt"], c["msg"], vp) if (not nested and vk == "ok" and in_universe(vp)) else "info",
                     "enc %s %s" % (c["fmt"], c["msg"]) if not nested else "info"]
        ans = run_model(self.model, reqs)
        back = []
        for i, c in enumerate(cases):
            dec, rtv, enc = ans[3 * i], ans[3 * i + 1], ans[3 * i + 2]
            self.evaluations += 1
            vk, vp = go_class(c["V"])
            dk, dp = model_class(dec)
            if vk == "panic":
                self.report("panic:" + re.sub(r"\d+", "N", c["V"])[:60], "DeserializeDataItem panics", c)
                continue
            if c["hex"] is None:
                self.report("SerializeDataItem-fails", "SerializeDataItem fails on a value of the WAMP data model: " + c["V"], c)
                continue
            if dk == "ok":
                mv = dp.rsplit(" rest=", 1)[0]
                if not (vk == "ok" and vp == mv):
                    self.broken.append(dict(case=c, why="model(dec)=%s implementation=%s" % (dec[:300], c["V"][:300])))
                    continue
            elif dk == "err":
                if vk != "err":
                    self.broken.append(dict(case=c, why="model(dec)=err implementation=%s" % c["V"][:300]))
                continue
            elif dk == "fuel":
                self.report("model-fuel", "model decoder ran out of fuel", c)
                continue
            if c["msg"].startswith("nested"):
                self.count("values: nesting boundary " + c["msg"] + " -> " + vk)
                continue
            # monitor: the value comes back as itself up to numeric kind
            if vk != "ok":
                if c["fmt"] == "json" and json_unsafe_float(c["msg"]):
                    self.report(JSON_FLOAT_SIG, JSON_FLOAT_WHAT + " — here: " + c["V"][:200], c)
                else:
                    self.report("roundtrip:value-deserialize-fails", "DeserializeDataItem(SerializeDataItem(v)) fails: " + c["V"][:200], c)
                continue
            if rtv != "true":
                if c["fmt"] == "json" and json_unsafe_float(c["msg"]):
                    self.report(JSON_FLOAT_SIG, JSON_FLOAT_WHAT, c, dict(monitor=rtv))
                else:
                    self.report("roundtrip:value-changed", "DeserializeDataItem(SerializeDataItem(v)) is not v (up to numeric kind)", c, dict(monitor=rtv))
                continue
            self.count("values: round trip equal (monitor)")
            self.distinct.add((c["fmt"], "value", c["msg"]))
            if enc.startswith("ok "):
                back.append((c, enc[3:]))
        if back:
            inp = "".join("%d %s %s\n" % (i, c["fmt"], mh) for i, (c, mh) in enumerate(back))
            rcases, _ = run_drive(self.drive, ["deser"], inp=inp, state=back[0][0].get("state") or "fresh")
            rreq = []
            for (c, mh), r in zip(back, rcases):
                vk, vp = go_class(r["V"])
                rreq.append("rtv %s %s ; %s" % (c["fmt"], c["msg"], vp) if (vk == "ok" and in_universe(vp)) else "info")
            rans = run_model(self.model, rreq)
            for (c, mh), r, rt in zip(back, rcases, rans):
                self.evaluations += 1
                if rt != "true":
                    r2 = dict(c)
                    r2.update(hex=mh, V=r["V"])
                    self.broken.append(dict(case=r2, why="model-encoded value decodes differently in the implementation: %s" % r["V"][:300]))
                else:
                    self.count("values: model bytes -> implementation equal")


# --------------------------------------------------------------------------
# in-kernel replay of a sample (keeps extraction out of the trusted base for it)


def _coq_bytes(hx):
    return "(B [%s])" % "; ".join(str(int(hx[i:i + 2], 16)) for i in range(0, len(hx), 2))


def _coq_value(toks, i):
    t = toks[i]
    if t == "N":
        return "VNull", i + 1
    if t == "T":
        return "(VBool true)", i + 1
    if t == "F":
        return "(VBool false)", i + 1
    if t == "L[":
        i += 1
        items = []
        while toks[i] != "]":
            v, i = _coq_value(toks, i)
            items.append(v)
        return "(VList [%s])" % "; ".join(items), i + 1
    if t == "M{":
        i += 1
        items = []
        while toks[i] != "}":
            k = toks[i][1:]
            v, i = _coq_value(toks, i + 1)
            items.append("(%s, %s)" % (_coq_bytes(k), v))
        return "(VDict [%s])" % "; ".join(items), i + 1
    c, body = t[0], t[1:]
    if c == "I":
        return "(VInt KI64 (%s)%%Z)" % body, i + 1
    if c == "U":
        return "(VInt KU64 (%s)%%Z)" % body, i + 1
    if c == "D":
        return "(VFloat %d%%N)" % int(body, 16), i + 1
    if c == "S":
        return "(VStr %s)" % _coq_bytes(body), i + 1
    if c == "B":
        return "(VBin %s)" % _coq_bytes(body), i + 1
    raise ValueError("token " + t)


def _coq_msg(text, structs):
    toks = text.split()
    name = toks[0]
    kinds = structs[name]
    i = 1
    fields = []
    for k in kinds:
        t = toks[i]
        if k == "FKId":
            fields.append("FId (%s)%%Z" % t[1:])
            i += 1
        elif k in ("FKUri", "FKStr"):
            fields.append("FStr %s" % _coq_bytes(t[1:]))
            i += 1
        elif k == "FKMsgType":
            fields.append("FMt (%s)%%Z" % t[1:])
            i += 1
        elif k == "FKDict":
            if t == "N":
                fields.append("FDict None")
                i += 1
            else:
                v, i = _coq_value(toks, i)
                fields.append("FDict (Some %s)" % v[len("(VDict "):-1])
        elif k == "FKList":
            if t == "N":
                fields.append("FList None")
                i += 1
            else:
                v, i = _coq_value(toks, i)
                fields.append("FList (Some %s)" % v[len("(VList "):-1])
        else:
            raise ValueError("kind " + k)
    return '{| m_struct := "%s"%%string; m_fields := [%s] |}' % (name, "; ".join(fields))


def _coq_outcome(res, structs):
    if res.startswith("ok "):
        return "OOk " + _coq_msg(res[3:], structs)
    if res.startswith("err "):
        k = res[4:]
        m = {"decode": "EDecode", "invalid": "EInvalidMessage", "format": "EFormat", "unknowntype": "EUnknownType"}
        if k in m:
            return "OErr " + m[k]
        if k.startswith("field"):
            return "OErr (EField %s)" % k[5:]
    return {"panic": "OPanic", "unsup": "OUnsup", "fuel": "OFuel"}[res]


def in_kernel_sample(cases, summary, limit):
    """cases: dicts with fmt, hex, m_desx (the extracted runner's answer at the intended shape).
    Writes coq/cases/cases_c14.v and lets coqc evaluate the model on the same bytes by vm_compute."""
    structs = {s["name"]: [f["kind"] for f in s["fields"]] for s in (summary.get("structs") or [])}
    picked = []
    for c in cases:
        hx = c.get("hex") or ""
        r = c.get("m_desx")
        if r is None or len(hx) > 600 or len(picked) >= limit:
            continue
        if c["fmt"] == "json":
            # the float text oracle (fparse) is not available inside Coq, where the model runs with
            # fparse = fun _ => None: leave out every input that may reach it — a float token, or an integer
            # literal of 20 digits or more (from 2^64 upwards the model, like ugorji, reads it as a float)
            raw = bytes.fromhex(hx)
            if " D" in r or r == "unsup" or any(ch in raw for ch in b".eE") or re.search(rb"[0-9]{20}", raw):
                continue
        try:
            picked.append((c, _coq_outcome(r, structs)))
        except Exception:
            continue
    if not picked:
        return dict(cases=0, mismatches=0, ok=True, note="no case selected")
    fm = {"json": "FJson", "msgpack": "FMsgpack", "cbor": "FCbor"}
    lines = ["(* GENERATED by tools/checks/c14.py on every run: a sample of the byte strings of this run with the",
             "   outcomes the EXTRACTED model printed; the in-kernel model must give the same. *)",
             "From Coq Require Import List NArith ZArith Bool String.",
             "From Coq Require Import Strings.Byte.",
             "From Nexus Require Import Codec.Bytes Codec.Values Codec.Schema Codec.MsgList Codec.Serial Codec.Canon Codec.SerialProofs gen.GenC14Schema.",
             "Import ListNotations.", "Local Open Scope list_scope.",
             "Definition B (l : list N) : bytes := map n2b l.",
             "Definition cases : list (nat * (format * bytes * outcome)) := ["]
    for i, (c, o) in enumerate(picked):
        lines.append("  (%d%%nat, (%s, %s, %s))%s" % (i, fm[c["fmt"]], _coq_bytes(c.get("hex") or ""), o, ";" if i < len(picked) - 1 else ""))
    lines += ["].",
              "Definition run1 (c : format * bytes * outcome) : bool :=",
              "  outcome_eqb (deserialize (fun _ => None) gen_mp_opts intended_shape gen_schema (fst (fst c)) (snd (fst c))) (snd c).",
              "Definition mismatches : list nat := map fst (filter (fun c => negb (run1 (snd c))) cases).",
              "Definition result := Eval vm_compute in mismatches.",
              "Print result.", ""]
    d = os.path.join(common.COQ, "cases")
    os.makedirs(d, exist_ok=True)
    path = os.path.join(d, "cases_c14.v")
    with open(path, "w") as f:
        f.write("\n".join(lines))
    with common.Lock("coq"):
        rc, out = common.run(["coqc", "-Q", ".", "Nexus", "-w", "-notation-overridden", "cases/cases_c14.v"], cwd=common.COQ, timeout=1500)
    m = re.search(r"result\s*=\s*(\[[^\]]*\])", out.replace("\n", " "))
    bad = None
    if rc == 0 and m:
        body = m.group(1).strip()
        bad = [] if body == "[]" else [int(x) for x in re.findall(r"\d+", body)]
    res = dict(cases=len(picked), mismatches=(len(bad) if bad is not None else -1), ok=(bad == []),
               log=out[-600:] if bad != [] else "")
    if bad:
        res["first"] = dict(fmt=picked[bad[0]][0]["fmt"], hex=picked[bad[0]][0].get("hex"), extracted=picked[bad[0]][0].get("m_desx"))
    return res


def merge_stats(acc, st):
    for k, v in (st or {}).items():
        if isinstance(v, dict):
            d = acc.setdefault(k, {})
            for kk, vv in v.items():
                d[kk] = d.get(kk, 0) + vv
        elif isinstance(v, int):
            acc[k] = acc.get(k, 0) + v
        else:
            acc[k] = v


def load_corpus():
    d = os.path.join(common.VERIF, "corpus", PID)
    cases = []
    if os.path.isdir(d):
        for fn in sorted(os.listdir(d)):
            if fn == "golden.txt":
                continue
            for line in open(os.path.join(d, fn)):
                line = line.split("#")[0].strip()
                if not line:
                    continue
                parts = line.split()
                if len(parts) >= 1 and parts[0] in FMTS:
                    cases.append((parts[0], parts[1] if len(parts) > 1 else ""))
    return cases


def replay_main(path, drive, model):
    obj = json.load(open(path))
    fmt, hx = obj.get("fmt"), obj.get("hex") or ""
    print("replay %s: signature=%s" % (path, obj.get("signature")))
    print("  what: %s" % obj.get("what"))
    rc = 0
    if obj.get("no_failing_input"):
        print("  no concrete failing input was recorded: %s" % obj.get("broken"))
        return 1
    if fmt:
        state = obj.get("state") or "fresh"
        if state != "fresh":
            print("  serializer state: %s — %s" % (state, REINIT_WHAT))
        rcases, _ = run_drive(drive, ["deser"], inp="0 %s %s\n" % (fmt, hx), state=state)
        r = rcases[0]
        ans = run_model(model, ["des %s %s" % (fmt, hx), "desx %s %s" % (fmt, hx), "dec %s %s" % (fmt, hx), "diag %s %s" % (fmt, hx)])
        print("  input (%s): %s" % (fmt, hx))
        if obj.get("message"):
            print("  message: %s" % obj["message"])
        print("  implementation Deserialize        : %s" % r["D"])
        print("  implementation DeserializeDataItem: %s" % r["V"])
        print("  model at the code's shape         : %s" % ans[0])
        print("  model, intended (the property)    : %s" % ans[1])
        print("  model decode of the bytes         : %s" % ans[2])
        gk, gp = go_class(r["D"])
        xk, xp = model_class(ans[1])
        bad = gk == "panic" or go_class(r["V"])[0] == "panic"
        if gk == "ok" and (xk == "err" or (xk == "ok" and xp != gp)):
            bad = True
            print("  diagnosis: %s" % ans[3])
        if obj.get("message"):
            rt = run_model(model, ["rt %s %s ; %s" % (fmt, obj["message"], gp)])[0] if gk == "ok" else "false"
            print("  round trip equal (monitor): %s" % rt)
            if rt != "true":
                bad = True
        if obj.get("value"):
            vk, vp = go_class(r["V"])
            print("  value: %s" % obj["value"][:400])
            rt = run_model(model, ["rtv %s %s ; %s" % (fmt, obj["value"], vp)])[0] if vk == "ok" else "false"
            print("  value round trip equal (monitor): %s" % rt)
            if rt != "true":
                bad = True
        mk, mp = model_class(ans[0])
        if (mk == "ok" and not (gk == "ok" and gp == mp)) or (mk == "err" and gk != "err"):
            print("  model and implementation DISAGREE")
            bad = True
        print("  verdict: %s" % ("property FAILS on this input" if bad else "holds on this input"))
        rc = 1 if bad else 0
    return rc


def setup():
    """MANIFEST.setup_cmd hook: build the extracted runner and the Go driver once."""
    build_runner()
    common.go_build("./cmd/c14drive")


def coqchk_props(timeout=1500):
    """thorough tier: re-check the compiled property file and everything it depends on with the
    independent checker; returns a one-line summary for the evidence."""
    with common.Lock("coq"):
        rc, out = common.run(["coqchk", "-silent", "-o", "-Q", ".", "Nexus", "Nexus.Props.C14"], cwd=common.COQ, timeout=timeout)
    tail = " ".join(out.strip().splitlines()[-12:])[-900:]
    return dict(rc=rc, summary=tail)


def main(tier, replay):
    t = common.Timer()
    v = common.Verdict(PID)
    summary = gen()
    terrors = summary.get("errors") or []
    shape = summary.get("shape") or {}
    # what of the tie is broken, before any run
    tie_broken = []
    for e in terrors:
        tie_broken.append("translator: " + e)
    defect_shapes = []
    for k, want in INTENDED_SHAPE.items():
        got = shape.get(k)
        if got != want:
            if (k, got) in DEFECT_SHAPE:
                defect_shapes.append("%s=%s" % (k, got))
            else:
                tie_broken.append("shape: %s=%s (expected %s)" % (k, got, want))
    mp_opts = summary.get("mp_opts") or {}
    if mp_opts.get("mp_write_ext") != "true" or mp_opts.get("mp_raw_to_string") != "false":
        tie_broken.append("MessagePack handle options %s (model proved for WriteExt=true, RawToString=false)" % mp_opts)

    model, mlog = build_runner()
    if model is None:
        raise RuntimeError(mlog)
    drive, dlog = common.go_build("./cmd/c14drive")
    if drive is None:
        # the harness does not compile against this tree: the tie is broken at the source level
        obj = dict(property=PID, no_failing_input=True, broken="harness does not build against the repository: " + dlog[-1500:])
        v.violation(obj, tag="harness-build", no_input=True)
        common.write_evidence(PID, tier, "proof", dict(obligations=1, discharged=0, checker_cmd="coqc (not reached)", trusted_base=[],
                                                       explanation="harness build failed"), t.s(), v.violations)
        return v.exit_code()
    if replay:
        return replay_main(replay, drive, model)

    # ---- Coq obligations
    common.info("C14: builds %.1fs" % t.s())
    r = common.coq_props(PID, extra_files=EXTRA_COQ)
    undischarged = [o for o in r["obligations"] if o not in r["discharged"]]
    hyg = [h for h in common.hygiene_scan() if h.startswith("Codec/") or h.startswith("Props/C14") or h.startswith("gen/GenC14")]

    run = Run(tier, drive, model, v)
    thorough = tier == "thorough"
    escalate = bool(tie_broken or undischarged)
    n_msg = 2400 if escalate else 600
    n_val = 9000 if escalate else 2400
    n_mut = 60000 if escalate else 16000
    if thorough:
        n_msg, n_val, n_mut = 19200, 60000, 800000
    scale = float(os.environ.get("C14_SCALE", "1"))
    n_msg, n_val, n_mut = max(24, int(n_msg * scale)), max(30, int(n_val * scale)), max(300, int(n_mut * scale))

    common.info("C14: setup %.1fs" % t.s())
    # 1. the recorded witnesses of the known defect classes, on the real code
    pcases, _ = run_drive(drive, ["probe"])
    qreq = []
    for c in pcases:
        sig, _, what = c["msg"].partition(" ")
        run.evaluations += 1
        gk, gp = go_class(c["D"])
        if c["kind"] == "Q":
            # round-trip witness: msg is "<signature> <message>"
            c["msg"] = what
            c["_sig"] = sig
            qreq.append("rt %s %s ; %s" % (c["fmt"], what, gp) if gk == "ok" else "info")
            continue
        run.count("probe: %s" % ("accepted (defect present)" if gk == "ok" else "rejected"))
        if gk == "panic":
            run.report("panic:" + re.sub(r"\d+", "N", c["D"])[:60], "Deserialize panics", c)
        elif gk == "ok":
            run.report(sig, what, c)
    qcases = [c for c in pcases if c["kind"] == "Q"]
    for c, rt in zip(qcases, run_model(model, qreq)):
        gk, gp = go_class(c["D"])
        run.count("probe: round trip %s" % ("equal" if rt == "true" else "NOT equal (defect present)"))
        if gk == "panic":
            run.report("panic:" + re.sub(r"\d+", "N", c["D"])[:60], "Deserialize panics", c)
        elif rt != "true":
            run.report(c["_sig"], JSON_FLOAT_WHAT + " — here: " + c["D"][:160], c)
    # 2a. golden wire format: fixed messages of every type, bytes and decoded result as on the reference tree
    gold_path = os.path.join(common.VERIF, "corpus", PID, "golden.txt")
    if os.path.exists(gold_path):
        want = [l.rstrip("\n") for l in open(gold_path) if l.startswith("S ")]
        for gstate in ("fresh", "reinit"):
            gcur, gst = run_drive(drive, ["golden"], state=gstate)
            if gst.get("state_api_panic"):
                run.report("panic:state-api", "the exported re-initialisation / extension-registration functions panic: " + gst["state_api_panic"][:200],
                           dict(fmt="msgpack", hex=None, msg="-", D=gst["state_api_panic"], V="", state=gstate))
            got = ["S %s %s %s | M %s | D %s | V %s" % (c["id"], c["fmt"], c["hex"] if c["hex"] is not None else "-", c["msg"], c["D"], c["V"]) for c in gcur]
            run.evaluations += len(got)
            run.count("golden (%s state): lines compared" % gstate, len(got))
            for i, w in enumerate(want):
                g = got[i] if i < len(got) else "<missing>"
                if g != w:
                    cur = gcur[i] if i < len(gcur) else dict(fmt=None, hex=None, msg="-", D="", V="", state=gstate)
                    run.report("golden:wire-format-changed",
                               "a fixed message is serialized / deserialized differently from the reference wire format (corpus/C14/golden.txt line %d)" % (i + 1),
                               cur, dict(expected_line=w[:1500], actual_line=g[:1500]))
                    break
            else:
                if len(got) != len(want):
                    run.report("golden:wire-format-changed", "number of golden lines differs: %d vs %d (message types added or removed)" % (len(got), len(want)),
                               dict(fmt=None, hex=None, msg="-", D="", V="", state=gstate))
    # 2. corpus
    corp = load_corpus()
    if corp:
        inp = "".join("%d %s %s\n" % (i, f, h) for i, (f, h) in enumerate(corp))
        ccases, _ = run_drive(drive, ["deser"], inp=inp)
        run.check_bytes(ccases, "corpus")
    common.info("C14: probes+corpus %.1fs" % t.s())
    # 3. exhaustive decision table of listToMsg
    tcases, tstats = run_drive(drive, ["table"])
    run.check_bytes(tcases, "table")
    run.dist["table"] = dict(cases=len(tcases), item_shapes=tstats.get("table_item_shapes"))
    common.info("C14: table %.1fs" % t.s())
    # 4. structured random messages
    gcases, gstats = [], {}
    k = 0
    n_re = n_msg // 3                          # a third of the messages with the serializers re-initialised
    for mstate, quota in (("fresh", n_msg - n_re), ("reinit", n_re)):
        done = 0
        while done < quota:                   # in batches: bounded memory
            n = min(2400, quota - done)
            gc, gs = run_drive(drive, ["gen", "-seed", str(common.seed() + 7919 * k), "-n", str(n)], state=mstate)
            run.check_messages(gc)
            merge_stats(gstats, gs)
            run.count("messages generated in the %s state" % mstate, len(gc))
            if k == 0:
                gcases = gc[:600]             # kept for samples / the in-kernel sample
            done += n
            k += 1
    run.dist["messages"] = gstats
    run.dist["serializer_states"] = dict(
        fresh="as after package initialisation",
        reinit=REINIT_WHAT + "; run for: golden wire format, 1/3 of the messages, 1/4 of the values, 1/8 of the mutated byte strings "
               "(JSON and CBOR have no exported state-changing function)")
    common.info("C14: messages %.1fs" % t.s())
    # 5. payload values
    istats = {}
    k = 0
    n_re = n_val // 4
    for vstate, quota in (("fresh", n_val - n_re), ("reinit", n_re)):
        done = 0
        while done < quota:
            n = min(12000, quota - done)
            ic, is_ = run_drive(drive, ["values", "-seed", str(common.seed() + 104729 * k), "-n", str(n)], state=vstate)
            run.check_values(ic)
            merge_stats(istats, is_)
            run.count("values generated in the %s state" % vstate, len(ic))
            done += n
            k += 1
    run.dist["values"] = istats
    common.info("C14: values %.1fs" % t.s())
    # 6. malformed / mutated byte strings
    step = 50000
    done = 0
    mstats_all = {}
    k = 0
    while done < n_mut:
        n = min(step, n_mut - done)
        xstate = "reinit" if done >= n_mut - n_mut // 8 else "fresh"
        if xstate == "fresh":
            n = min(n, n_mut - n_mut // 8 - done)
        xcases, xstats = run_drive(drive, ["mutate", "-seed", str(common.seed() * 1000003 + k), "-n", str(n)], state=xstate)
        run.count("mutated byte strings in the %s state" % xstate, len(xcases))
        if xstats.get("driver_died"):
            run.report("fatal:" + xstats["driver_died"][:60], "the process running Deserialize died (fatal error, not a recoverable panic)",
                       dict(fmt=None, hex=None, D=xstats["driver_died"], V=""))
        run.check_bytes(xcases, "mutated")
        for kk, vv in (xstats.get("mutations_by_kind") or {}).items():
            mstats_all[kk] = mstats_all.get(kk, 0) + vv
        done += n
        k += 1
    run.dist["mutated"] = dict(cases=done, mutations_by_kind=mstats_all)

    common.info("C14: mutated %.1fs" % t.s())
    ik = in_kernel_sample(gcases[::7] + tcases[::23] + xcases[::11], summary, 1000 if thorough else 60)
    if not ik["ok"]:
        run.broken.append(dict(case=dict(fmt=(ik.get("first") or {}).get("fmt"), hex=(ik.get("first") or {}).get("hex"), D="", V=""),
                               why="in-kernel evaluation of the model differs from the extracted model (or cases_c14.v did not compile): %s %s"
                                   % (ik.get("first"), ik.get("log", "")[-300:])))
    common.info("C14: in-kernel sample %.1fs %s" % (t.s(), {k: ik[k] for k in ("cases", "mismatches")}))
    # ---- disagreements between model and implementation: the tie is broken there
    if run.broken:
        b = run.broken[0]
        c = b["case"]
        run.report("correspondence:" + re.sub(r"[0-9a-f]{6,}", "", b["why"])[:70],
                   "model and implementation disagree: " + b["why"][:600], c, dict(disagreements=len(run.broken)))
    # ---- an obligation or the tie broke and no concrete failing input turned up
    not_shown = list(tie_broken)
    for o in undischarged:
        not_shown.append("obligation not discharged: " + o)
    if hyg:
        not_shown.append("hygiene: " + "; ".join(hyg[:5]))
    # a defect-class shape is explained by its probe witness (already reported above)
    if defect_shapes and not any(common.match_known(PID, f["signature"]) is None for f in run.findings):
        not_shown.append("shape read from the code is the unrepaired one (%s) but no witness fails" % ", ".join(defect_shapes))
    # only a NEW concrete failing input explains a broken obligation (a listed known finding does not)
    explained = any(common.match_known(PID, f["signature"]) is None for f in run.findings)
    if not_shown and not explained:
        obj = dict(property=PID, no_failing_input=True, broken=not_shown, failed=r.get("failed", "")[:3000],
                   searched=dict(evaluations=run.evaluations, counts=run.counts), seed=common.seed(), repo=common.REPO)
        v.violation(obj, tag="obligation", no_input=True)

    chk = None
    if thorough and not (tie_broken or undischarged):
        chk = coqchk_props()
        common.info("C14: coqchk rc=%s %.1fs" % (chk["rc"], t.s()))
        if chk["rc"] not in (0, 124):
            not_shown.append("coqchk rejects Props/C14.vo: " + chk["summary"][-300:])
            obj = dict(property=PID, no_failing_input=True, broken=not_shown, seed=common.seed(), repo=common.REPO)
            v.violation(obj, tag="coqchk", no_input=True)
    # ---- evidence
    trusted = ["Coq 8.16.1 kernel (coqc), vm_compute for conformance lemmas and witnesses; no native_compute"]
    for th, txt in sorted(r.get("assumptions", {}).items()):
        trusted.append("Print Assumptions %s: %s" % (th, txt))
    trusted += [
        "translator go/cmd/genc14 (Go AST -> schema, handle options, recognised function shapes)",
        "extraction: ExtrOcamlBasic only; hand-written ocaml/c14/c14run.ml (V-syntax parser/printer, float text oracle standing for Go strconv)",
        "harness go/cmd/c14drive (generators, canonical printer, recover around Deserialize)",
        "MODELLED, NOT VERIFIED: github.com/ugorji/go/codec v1.3.1 (encoders/decoders for JSON, MessagePack, CBOR), Go reflect's AssignableTo/ConvertibleTo/Convert for the types a decoder produces, encoding/base64, unicode/utf8",
    ]
    coverage = dict(
        obligations=len(r["obligations"]), discharged=len(r["discharged"]),
        obligation_names=r["obligations"], undischarged=undischarged,
        checker_cmd="make -f Makefile.coq Props/C14.vo Codec/C14Conf.vo Codec/C14ConfShape.vo Codec/C14ConfWire.vo && coqc -Q . Nexus Props/C14.v && coqc -Q . Nexus cases/cases_c14.v (in /verif/coq; full .vo build; thorough: coqchk -silent -o Nexus.Props.C14)",
        trusted_base=trusted,
        evaluations=run.evaluations, distinct_nontrivial=len(run.distinct),
        rule="an evaluation is one (format, byte string) run through the implementation and the extracted model; distinct AND non-trivial = distinct (format, canonical decoded message or value) pairs for which Deserialize/DeserializeDataItem or the model produced a message/value (error-only inputs are not counted)",
        samples=[dict(fmt=c["fmt"], hex=(c["hex"] or "")[:160], message=c["msg"][:300], Deserialize=c["D"][:300]) for c in (gcases[:2] + tcases[40:42] + xcases[:2])],
        exhaustive=False,
        exhaustive_part="the listToMsg decision table (every message type x every field x %s item shapes, every list length, code items) is enumerated completely: %d cases" % (tstats.get("table_item_shapes"), len(tcases)),
        input_distribution=run.dist, outcome_counts=run.counts,
        translator=dict(errors=terrors, notes=summary.get("notes"), shape=shape, mp_opts=mp_opts),
        tie_broken=tie_broken, unrepaired_shape=defect_shapes,
        correspondence_disagreements=len(run.broken),
        in_kernel_sample=dict(cases=ik["cases"], mismatches=ik["mismatches"], file="coq/cases/cases_c14.v"),
        first_disagreements=[dict(fmt=b["case"].get("fmt"), hex=(b["case"].get("hex") or "")[:200], why=b["why"][:400]) for b in run.broken[:25]],
        findings=[f["signature"] for f in run.findings],
        hygiene=hyg,
        coqchk=chk,
    )
    assumptions = [
        "ugorji/go/codec behaves as modelled in coq/Codec/{MsgPack,Cbor,Json}.v (validated by the differential runs of this check, not proved)",
        "JSON floats are an opaque token class: fprint/fparse (Go strconv) are Section variables assumed to invert each other on finite floats",
        "nesting deeper than 1023 containers is refused by the codec's decoders (modelled); lengths >= 2^32 (MessagePack) / 2^63 (CBOR) are outside the proved domain",
    ]
    common.write_evidence(PID, tier, "proof", coverage, t.s(), v.violations, assumptions)
    common.info("C14 %s: %d evaluations, %d distinct, %d obligations (%d discharged), %d correspondence disagreements, %d findings, %.1fs"
                % (tier, run.evaluations, len(run.distinct), len(r["obligations"]), len(r["discharged"]), len(run.broken), len(run.findings), t.s()))
    return v.exit_code()
