"""C04 -- no client input or timing can crash or wedge the router.

Decision (see docs/C04.md):
  1. gen(): translator go/cmd/genc04 walks router, router/auth, wamp, transport,
     transport/serialize of common.REPO (taint: client-controlled data) and
     writes coq/gen/GenC04Sites.v + build/<repo>/c04/sites.json.
  2. Coq obligations: Props/C04.v (theorems over the regenerated inventory)
     and Safety/Conformance.v (site_table_ok, close_table_ok, delivery_ok,
     policy_table_ok: decided by vm_compute on this run's inventory).
  3. Hostile streams against the REAL router in child processes (go/cmd/c04drive)
     with a liveness probe from an uninvolved session after every history;
     accessor correspondence (real wamp.AsX vs the Coq models, checked in-kernel).
  4. Verdict: every process death / wedge is a finding with a signature; a
     broken obligation is searched for a concrete killing message with the
     stream aimed at the offending sites.
"""
import json
import os
import sys
import time

import common

PID = "C04"
EXTRA_COQ = ["Safety/Conformance.v"]


def _dir():
    return common.build_dir("c04")


def sites_path():
    return os.path.join(_dir(), "sites.json")


def gen():
    """Run the translator on common.REPO.  Returns the inventory (dict).
    Raises RuntimeError when the translator cannot handle the source (a
    broken tie, reported by main())."""
    exe, log = common.go_build("./cmd/genc04")
    if exe is None:
        raise RuntimeError("cannot build the C04 translator:\n" + log[-3000:])
    d = _dir()
    js = sites_path()
    tmpv = os.path.join(d, "GenC04Sites.v")
    for p in (js, tmpv):
        if os.path.exists(p):
            os.remove(p)
    rc, out = common.run([exe, "-repo", common.REPO, "-coq", tmpv, "-json", js], env=common.go_env(), timeout=300)
    if rc != 0 or not os.path.exists(js) or not os.path.exists(tmpv):
        raise RuntimeError("translator failed (rc=%d):\n%s" % (rc, out[-3000:]))
    common.write_if_changed(os.path.join(common.COQ, "gen", "GenC04Sites.v"), open(tmpv).read())
    inv = json.load(open(js))
    inv["translator_log"] = out.strip()[-500:]
    return inv


def main(tier, replay):
    raise NotImplementedError
