"""C04 -- no client input or timing can crash or wedge the router.

Decision (see docs/C04.md):
  1. gen(): translator go/cmd/genc04 walks router, router/auth, wamp, transport,
     transport/serialize of common.REPO (taint: client-controlled data) and
     writes coq/gen/GenC04Sites.v + build/<repo>/c04/sites.json.
  2. Coq obligations: Props/C04.v (theorems over the regenerated inventory)
     and Safety/Conformance.v (site_table_ok, close_table_ok, delivery_ok,
     policy_table_ok: decided by vm_compute on this run's inventory).
  3. Hostile streams against the REAL router in child processes (go/cmd/c04drive)
     with a liveness probe from an uninvolved session after every history;
     accessor correspondence (real wamp.AsX vs the Coq models, checked in-kernel).
  4. Verdict: every process death / wedge is a finding with a signature; a
     broken obligation is searched for a concrete killing message with the
     stream aimed at the offending sites.
"""
import json
import os
import sys
import time

import common

PID = "C04"
EXTRA_COQ = ["Safety/Conformance.v"]


def _dir():
    return common.build_dir("c04")


def sites_path():
    return os.path.join(_dir(), "sites.json")


def gen():
    """Run the translator on common.REPO.  Returns the inventory (dict).
    Raises RuntimeError when the translator cannot handle the source (a
    broken tie, reported by main()).  coq/gen/GenC04Sites.v is shared by
    every run (whatever VERIF_REPO), so generation and the Coq build that
    follows it in main() are serialised by one lock."""
    with common.Lock("c04-inventory"):
        return _gen()


def _gen():
    exe, log = common.go_build("./cmd/genc04")
    if exe is None:
        raise RuntimeError("cannot build the C04 translator:\n" + log[-3000:])
    d = _dir()
    js = sites_path()
    tmpv = os.path.join(d, "GenC04Sites.v")
    for p in (js, tmpv):
        if os.path.exists(p):
            os.remove(p)
    rc, out = common.run([exe, "-repo", common.REPO, "-coq", tmpv, "-json", js], env=common.go_env(), timeout=300)
    if rc != 0 or not os.path.exists(js) or not os.path.exists(tmpv):
        raise RuntimeError("translator failed (rc=%d):\n%s" % (rc, out[-3000:]))
    if common.write_if_changed(os.path.join(common.COQ, "gen", "GenC04Sites.v"), open(tmpv).read()):
        # what depends on the inventory must be rebuilt; a stale .vo left
        # behind by a failing make would otherwise count as discharged
        for rel in ("gen/GenC04Sites.vo", "Safety/Conformance.vo", "Props/C04.vo"):
            try:
                os.remove(os.path.join(common.COQ, rel))
            except FileNotFoundError:
                pass
    inv = json.load(open(js))
    inv["translator_log"] = out.strip()[-500:]
    return inv


# --------------------------------------------------------------------------
# accessor correspondence: V (harness JSON notation) -> Coq term


_SAFE = set("abcdefghijklmnopqrstuvwxyzABCDEFGHIJKLMNOPQRSTUVWXYZ0123456789_.- :=")


def _cstr(s):
    if any(c not in _SAFE for c in s):
        raise ValueError("string not representable")
    return '"%s"' % s


def _z(n):
    n = int(n)
    return "(%d)%%Z" % n


def _fl(s):
    if s == "NaN":
        return "FNaN"
    if s == "+Inf":
        return "(FInf false)"
    if s == "-Inf":
        return "(FInf true)"
    from fractions import Fraction
    fr = Fraction(float(s))          # the float64 the harness built
    t = int(fr)                      # truncation toward zero
    return "(FFin %s %s)" % (_z(t), "true" if fr == t else "false")


_IK = {"i": "KInt", "i8": "KInt8", "i16": "KInt16", "i32": "KInt32", "i64": "KInt64", "u": "KUint", "u8": "KUint8",
       "u16": "KUint16", "u32": "KUint32", "u64": "KUint64", "id": "KID"}


def coq_value(v):
    """Coq term of Safety.Values.value for a harness value; ValueError when
    it is outside what the model's notation covers."""
    if not v:
        return "VNil"
    (k, x), = v.items()
    if x is None and k in ("l", "la", "ls", "lid", "li", "mk"):
        x = []
    if x is None and k in ("d", "m", "ms"):
        x = {}
    if k == "b":
        return "(VBool %s)" % ("true" if x else "false")
    if k in _IK:
        return "(VInt %s %s)" % (_IK[k], _z(x))
    if k == "f":
        return "(VFloat KF64 %s)" % _fl(x)
    if k == "f32":
        return "(VFloat KF32 %s)" % _fl(x)
    if k == "s":
        return "(VStr %s)" % _cstr(x)
    if k == "uri":
        return "(VURI %s)" % _cstr(x)
    if k == "bin":
        return "(VBytes %s)" % _cstr(bytes.fromhex(x).decode("latin1"))
    lst = lambda xs: "[" + "; ".join(xs) + "]"
    if k == "l":
        return "(VList %s)" % lst(coq_value(e) for e in x)
    if k == "la":
        return "(VSliceAny %s)" % lst(coq_value(e) for e in x)
    if k == "ls":
        return '(VSliceOf "string" %s)' % lst("(VStr %s)" % _cstr(e) for e in x)
    if k == "lid":
        return '(VSliceOf "wamp.ID" %s)' % lst("(VInt KID %s)" % _z(e) for e in x)
    if k == "li":
        return '(VSliceOf "int" %s)' % lst("(VInt KInt %s)" % _z(e) for e in x)
    pairs = lambda d: lst("(%s, %s)" % (_cstr(kk), coq_value(d[kk])) for kk in sorted(d))
    if k == "d":
        return "(VDict %s)" % pairs(x)
    if k == "m":
        return "(VMapAny %s)" % pairs(x)
    if k == "ms":
        return '(VMapOf "string" %s)' % lst("(%s, VStr %s)" % (_cstr(kk), _cstr(x[kk])) for kk in sorted(x))
    if k == "mk":
        seen, out = set(), []
        for kv in x:
            kj = json.dumps(kv[0], sort_keys=True)
            if kv[0] and ("l" in kv[0] or "d" in kv[0] or "la" in kv[0] or "m" in kv[0]):
                continue              # unhashable key: the harness skipped it too
            if kj in seen:
                raise ValueError("duplicate map key")
            seen.add(kj)
            out.append("(%s, %s)" % (coq_value(kv[0]), coq_value(kv[1])))
        return "(VMapAnyKey %s)" % lst(out)
    if k == "o":
        return "(VOther %s)" % _cstr(x)
    if k == "deep":
        cur = '(VStr "leaf")'
        for i in range(int(x)):
            cur = "(VList [%s])" % cur if i % 2 == 0 else '(VDict [("k", %s)])' % cur
        return cur
    raise ValueError("unsupported value notation " + k)


def coq_expect(c):
    acc, ok, res = c["acc"], c["ok"], c["res"]
    b = lambda x: "true" if x else "false"
    if c.get("panicked") and not acc.startswith("bare:"):
        raise RuntimeError("the real accessor %s PANICKED on %s" % (acc, json.dumps(c["v"])))
    if acc in ("AsString", "AsURI"):
        return '(XStr "%s" %s %s)' % (acc, b(ok), _cstr(res))
    if acc in ("AsInt64", "AsID"):
        return '(XInt "%s" %s %s)' % (acc, b(ok), _z(res))
    if acc == "AsBool":
        return "(XBool %s %s)" % (b(ok), b(res == "true"))
    if acc == "AsFloat64":
        return '(XOk "AsFloat64" %s)' % b(ok)
    if acc.startswith("assert:"):
        return '(XOk "%s" %s)' % (acc[7:], b(ok))
    if acc in ("AsDict", "NormalizeDict"):
        if res == "nil":
            return '(XDict "%s" %s true [])' % (acc, b(ok))
        keys = []
        for kv in res.split(":")[1:]:
            kk, _, vv = kv.partition("=")
            keys.append("(%s, %s)" % (_cstr(kk), _cstr(vv)))
        return '(XDict "%s" %s false [%s])' % (acc, b(ok), "; ".join(keys))
    if acc == "AsList":
        if res == "nil":
            return "(XList %s true 0)" % b(ok)
        return "(XList %s false %d)" % (b(ok), int(res[3:]))
    if acc == "bare:string":
        return "(XBare TString %s)" % b(bool(c.get("panicked")))
    raise ValueError("unknown accessor " + acc)


def accessor_cases(exe, tier):
    """Run the real accessors, write coq/cases/C04Cases.v, compile it.
    Returns dict(ok, cases, skipped, failed)."""
    d = _dir()
    out = os.path.join(d, "accessors.json")
    extra = 80 if tier == "quick" else 1500
    rc, log = common.run([exe, "accessors", "-out", out, "-seed", str(common.seed()), "-extra", str(extra)], timeout=300)
    if rc != 0 or not os.path.exists(out):
        return dict(ok=False, cases=0, skipped=0, failed="the harness could not run the accessors:\n" + log[-2000:])
    cases = json.load(open(out))
    terms, skipped = [], 0
    for c in cases:
        try:
            terms.append("(%s, %s)" % (coq_value(c["v"]), coq_expect(c)))
        except ValueError:
            skipped += 1
        except RuntimeError as e:
            return dict(ok=False, cases=len(terms), skipped=skipped, failed=str(e), panicked=c)
    body = ["(* written by tools/checks/c04.py on every run: what the REAL wamp accessors returned *)",
            "From Coq Require Import String List ZArith Bool.",
            "From Nexus Require Import Safety.Values Safety.Accessors Safety.Cases.",
            "Import ListNotations.", "Open Scope string_scope.", "",
            "Definition cases : list acase := ["]
    body.append(";\n".join("  " + t for t in terms))
    body += ["].", "", "Lemma accessor_models_agree : mismatches cases = [].", "Proof. vm_compute. reflexivity. Qed.",
             "Eval vm_compute in (mismatches cases)."]
    cdir = os.path.join(common.COQ, "cases")
    os.makedirs(cdir, exist_ok=True)
    vf = os.path.join(cdir, "C04Cases.v")
    with open(vf, "w") as f:
        f.write("\n".join(body) + "\n")
    ok, log = common.coq_make(["Safety/Cases.vo"], timeout=900)
    if not ok:
        return dict(ok=False, cases=len(terms), skipped=skipped, failed="Safety/Cases.v does not compile:\n" + log[-2000:])
    with common.Lock("coq"):
        rc, log = common.run(["coqc", "-Q", ".", "Nexus", "-w", "-notation-overridden", "cases/C04Cases.v"], cwd=common.COQ, timeout=900)
    res = dict(ok=rc == 0, cases=len(terms), skipped=skipped, failed="")
    if rc != 0:
        res["failed"] = log[-3000:]
        # which cases disagree: evaluate without the lemma
        alt = "\n".join(body[:-3] + ["Eval vm_compute in (mismatches cases)."])
        with open(os.path.join(cdir, "C04CasesDbg.v"), "w") as f:
            f.write(alt + "\n")
        with common.Lock("coq"):
            rc2, log2 = common.run(["coqc", "-Q", ".", "Nexus", "cases/C04CasesDbg.v"], cwd=common.COQ, timeout=900)
        import re
        m = re.search(r"=\s*\[([0-9;\s]*)\]", log2)
        if m:
            idx = [int(x) for x in m.group(1).replace(";", " ").split()]
            kept = [c for c in cases if _representable(c)]
            res["mismatches"] = [kept[i] for i in idx[:10] if i < len(kept)]
    return res


def _representable(c):
    try:
        coq_value(c["v"])
        coq_expect(c)
        return True
    except (ValueError, RuntimeError):
        return False


# --------------------------------------------------------------------------
# hostile streams


def corpus_dir():
    return os.path.join(common.VERIF, "corpus", PID)


def run_streams(exe, tier, label, args, timeout):
    """Run c04drive; returns (results dict or None, log)."""
    out = os.path.join(_dir(), "results-%s.json" % label)
    if os.path.exists(out):
        os.remove(out)
    cmd = [exe, "run", "-sites", sites_path(), "-tier", tier, "-seed", str(common.seed()), "-out", out] + args
    rc, log = common.run(cmd, timeout=timeout)
    if not os.path.exists(out):
        return None, log
    return json.load(open(out)), log


def norm_func(name):
    """translator '(*router.broker).publish$1' / runtime 'router.(*broker).publish.func1' -> comparable form"""
    import re
    name = name.replace("github.com/gammazero/nexus/v3/", "")
    m = re.match(r"^\(\*?([\w/]+)\.(\w+)\)\.(.*)$", name)
    if m:
        name = "%s.%s.%s" % (m.group(1), m.group(2), m.group(3))
    name = name.replace("(*", "").replace(")", "")
    name = re.sub(r"\$\d+.*$", "", name)
    name = re.sub(r"\.func\d+.*$", "", name)
    return name


def describe_site(s):
    return "%s:%d %s [%s] %s" % (s["file"], s["line"], s["func"], s["class"], s["expr"][:80])


def explains(f, site):
    """Does the finding f (a process death) account for the unsafe site?"""
    cls = site["class"]
    sig = f["signature"]
    frames = [norm_func(x) for x in (f.get("frames") or [])]
    fn = norm_func(site["func"])
    if cls == "peerclose":
        return sig.startswith("close-of-closed-channel") or sig.startswith("send-on-closed-channel")
    if cls == "detailsuse":
        # a use of session details under the wrong lock / none: a data race (or the runtime's own map check)
        return sig.startswith("data-race") or sig.startswith("concurrent-map-access")
    if cls == "msgsend":
        return sig.startswith("nil-dereference")
    if cls == "panic":
        return sig.startswith("explicit:") and fn in frames
    return fn in frames


WHAT = {
    "interface-conversion": "a bare type assertion on a client-controlled value panics the router",
    "close-of-closed-channel": "a client peer is closed twice (outside the session handler's exit path)",
    "send-on-closed-channel": "the router sends to a client peer that was already closed",
    "nil-dereference": "a nil message / pointer is dereferenced while handling client input",
    "index-out-of-range": "a client-controlled list is indexed without a length check",
    "slice-bounds": "a client-controlled slice expression is out of range",
    "nil-map-write": "a nil client-provided map is written",
    "concurrent-map-access": "unsynchronised concurrent access to a map (fatal runtime error)",
    "data-race": "data race reported by the race detector",
    "stack-overflow": "unbounded recursion on client input",
    "wedge": "the router stopped serving an uninvolved session after the hostile history",
    "hang": "the router process did not answer any more",
    "explicit": "an explicit panic() of the router is reachable with client input",
}


def what_of(f):
    cls = f["signature"].split("@")[0].split(":")[0]
    return "%s: %s (trigger: %s)" % (f["signature"], WHAT.get(cls, "the router process died"), f.get("trigger", "?"))


def replay_obj_of(f, tier):
    return {
        "kind": "history", "signature": f["signature"], "what": what_of(f), "tier": tier, "seed": common.seed(),
        "panic_message": f.get("message"), "frames": f.get("frames"), "reproduced": f.get("reproduced"),
        "stderr": f.get("stderr"), "history": f.get("history"), "stream": f.get("stream"), "repo": common.REPO,
    }


# --------------------------------------------------------------------------


def do_replay(path):
    obj = json.load(open(path))
    exe, log = common.go_build("./cmd/c04drive")
    if exe is None:
        print("cannot build the harness:\n" + log[-3000:], file=sys.stderr)
        return 3
    print("replay of %s" % path)
    print("  recorded signature : %s" % obj.get("signature"))
    print("  recorded what      : %s" % obj.get("what"))
    if obj.get("kind") == "history" and obj.get("history"):
        hp = os.path.join(_dir(), "replay-history.json")
        with open(hp, "w") as f:
            json.dump({"history": obj["history"]}, f)
        # model side: does the inventory of the CURRENT tree contain a site the
        # decidable condition rejects, in a function of the recorded trace?
        try:
            inv = gen()
            unsafe = [inv["sites"][i] for i in inv["unsafe_client_sites"]]
            fake = {"signature": obj.get("signature") or "", "frames": obj.get("frames") or []}
            hit = [s for s in unsafe if explains(fake, s)]
            thm = {"interface-conversion": "entry_never_panics (bare assertion: bare_assertion_refuted)", "index-out-of-range": "entry_never_panics (site_condition_complete witness)",
                   "slice-bounds": "entry_never_panics", "close-of-closed-channel": "peer_closed_once (close_elsewhere_refuted)",
                   "send-on-closed-channel": "no_send_after_close (close_elsewhere_refuted / close_before_removal_refuted)",
                   "nil-dereference": "nil_message_never_delivered", "explicit": "policy_panic_unreachable / explicit panic guards",
                   "data-race": "session_details_race_free (details_wrong_lock_refuted) for uses of session details; other races: sampling only", "wedge": "(not modelled: sampling only)", "hang": "(not modelled: sampling only)"}
            cls = (obj.get("signature") or "").split("@")[0].split(":")[0]
            print("MODEL   : theorem concerned: %s" % thm.get(cls, "entry_never_panics"))
            if hit:
                print("          the site table of the current tree REJECTS (the model predicts a failure):")
                for s in hit:
                    print("            " + describe_site(s))
            else:
                print("          the site table of the current tree has %d rejected site(s), none in the recorded trace: the model predicts no failure here" % len(unsafe))
        except RuntimeError as e:
            print("MODEL   : translator failed: %s" % str(e)[-300:])
        cmd = [exe, "replay", "-history", hp, "-times", "3"]
        if (obj.get("signature") or "").startswith("data-race"):
            rexe, rlog = common.go_build("./cmd/c04drive", race=True)
            if rexe is None:
                print("cannot build the -race harness:\n" + rlog[-2000:], file=sys.stderr)
                return 3
            cmd += ["-worker-exe", rexe]
            print("          (the history is replayed under the race detector)")
        rc, out = common.run(cmd, timeout=900)
        print("IMPLEMENTATION (router in a child process, 3 runs):")
        print(out)
        died = '"router_died_or_wedged": true' in out
        print("VERDICT : %s" % ("the router dies / stops serving on this history" if died else "the router survives this history on the current tree"))
        return 1 if died else 0
    # an obligation without a concrete input: re-decide it
    print("MODEL   : obligation(s) %s" % obj.get("obligations"))
    try:
        inv = gen()
    except RuntimeError as e:
        print("IMPLEMENTATION: translator: %s" % e)
        return 1
    r = common.coq_props(PID, extra_files=EXTRA_COQ)
    print("IMPLEMENTATION (inventory regenerated): %d unsafe sites by the mirror; Coq obligations %s" %
          (len(inv["unsafe_client_sites"]), "hold" if r["ok"] else "FAIL:\n" + r["failed"][:1500]))
    for i in inv["unsafe_client_sites"]:
        print("   " + describe_site(inv["sites"][i]))
    print("VERDICT : %s" % ("not shown" if not r["ok"] else "shown on the current tree"))
    return 0 if r["ok"] else 1


def setup():
    """MANIFEST.setup_cmd: pre-build the harness so that the first check is fast."""
    common.go_build("./cmd/c04drive")


def main(tier, replay):
    if replay:
        return do_replay(replay)
    import threading
    T = common.Timer()
    v = common.Verdict(PID)
    cov = {"checker_cmd": "coqc 8.16.1 via make (coq/Props/C04.v, coq/Safety/Conformance.v, coq/cases/C04Cases.v)", "exhaustive": False}
    assumptions = [
        "translator genc04 reads the Go source faithfully (taint walk, guard recognition, close-path classification); unknown forms abort it",
        "in-process peers hand the router non-nil message pointers (Go API contract; the code panics deliberately on nil)",
        "application-supplied components (Authenticator, Authorizer, KeyStore, PublishFilter) keep their contracts",
        "Go scheduler, memory model, data races: SAMPLED by the harness (and the -race build in the thorough tier), not proved",
        "third-party decoders (ugorji codec, gorilla websocket) and transport/serialize reflection: sampled here, modelled by C14/C15",
    ]

    # 1. translator, 2. Coq obligations: under one lock, in the background,
    # while the harness is built and run
    coq, invbox, gen_done = {}, {}, threading.Event()
    accbox, exe_ready = {}, threading.Event()

    def gen_and_prove():
        with common.Lock("c04-inventory"):
            try:
                invbox["inv"] = _gen()
            except Exception as e:          # noqa: BLE001
                invbox["err"] = e
                gen_done.set()
                return
            gen_done.set()
            try:
                coq.update(common.coq_props(PID, extra_files=EXTRA_COQ))
            except Exception as e:          # noqa: BLE001
                coq.update(ok=False, failed="coq_props raised: %r" % e, obligations=[], discharged=[], assumptions={}, axioms=[])
        # accessor correspondence: right after the obligations, still in the
        # background (it needs the harness binary, built by the main thread)
        exe_ready.wait()
        if accbox.get("exe"):
            try:
                accbox["acc"] = accessor_cases(accbox["exe"], tier)
            except Exception as e:          # noqa: BLE001
                accbox["acc"] = dict(ok=False, cases=0, skipped=0, failed="accessor_cases raised: %r" % e)

    th = threading.Thread(target=gen_and_prove)
    th.start()
    gen_done.wait()
    try:
        if "err" in invbox:
            raise invbox["err"] if isinstance(invbox["err"], RuntimeError) else RuntimeError(repr(invbox["err"]))
        inv = invbox["inv"]
    except RuntimeError as e:
        common.info("C04: translator: %s" % e)
        v.violation({"kind": "broken-tie", "obligations": ["translator genc04"], "detail": str(e)[-3000:], "repo": common.REPO}, no_input=True)
        cov.update(obligations=1, discharged=0, trusted_base=[], evaluations=0, distinct_nontrivial=0, rule="translator failed", samples=[])
        common.write_evidence(PID, tier, "proof", cov, T.s(), v.violations, assumptions)
        return v.exit_code()
    sites = inv["sites"]
    unsafe = [sites[i] for i in inv["unsafe_client_sites"]]

    exe, blog = common.go_build("./cmd/c04drive")
    accbox["exe"] = exe
    exe_ready.set()
    if exe is None:
        th.join()
        raise RuntimeError("cannot build the harness against %s:\n%s" % (common.REPO, blog[-3000:]))

    findings = {}
    stats = {}

    def absorb(label, res):
        if res is None:
            return
        stats[label] = res
        for f in res.get("findings") or []:
            if f["signature"].startswith("harness:"):
                raise RuntimeError("harness failure: %s %s" % (f["signature"], f.get("message")))
            old = findings.get(f["signature"])
            if old is None or (f.get("history") and len(f["history"].get("steps") or []) < len(old["history"].get("steps") or [])):
                findings[f["signature"]] = f

    workers = str(common.NPROC)
    base = ["-workers", workers]
    if os.path.isdir(corpus_dir()):
        base += ["-corpus", corpus_dir()]
    if tier == "quick":
        res, log = run_streams(exe, "quick", "main", base + ["-budget", "80s"], timeout=700)
    else:
        # The thorough stream SET (all frame types x all limited servers x 3 of 4
        # configurations) did not finish within 45 min on the final tree; until that
        # is understood the thorough tier runs the quick stream set with a four times
        # larger budget (plus the race tier, targeted streams and coqchk below).
        res, log = run_streams(exe, "quick", "main", base + ["-budget", "320s"], timeout=1500)
    if res is None:
        th.join()
        raise RuntimeError("the harness produced no results:\n" + log[-3000:])
    absorb("main", res)

    # the race detector (sampling): thorough runs the concurrency-heavy
    # streams under a -race build; quick runs only the session-details
    # scenario (modify_details loop on a subscriber / caller / publisher
    # against filtered publishes, disclosed calls and the session meta
    # procedures), which takes a few seconds
    race_note = "race build not available"
    rexe, rlog = common.go_build("./cmd/c04drive", race=True)
    if rexe is None:
        race_note = "race build failed: " + rlog[-300:]
    elif tier == "quick":
        rres, rlog = run_streams(exe, "quick", "race", ["-workers", "3", "-worker-exe", rexe, "-race", "-streams", "burst",
                                 "-only", "details-race", "-budget", "25s"], timeout=600)
        if rres is None:
            race_note = "race run produced no results: " + rlog[-300:]
        else:
            absorb("race", rres)
            race_note = "quick: session-details scenario only: %d histories, %d messages under -race, %d findings" % (
                rres["histories"], rres["messages_sent"], len(rres.get("findings") or []))
    else:
        rres, rlog = run_streams(exe, "thorough", "race", ["-workers", str(max(2, common.NPROC // 2)), "-worker-exe", rexe, "-race",
                                 "-streams", "burst,repeat,disconnect,random,states", "-budget", "6m"], timeout=2400)
        if rres is None:
            race_note = "race run produced no results: " + rlog[-300:]
        else:
            absorb("race", rres)
            race_note = "%d histories, %d messages under -race, %d findings" % (rres["histories"], rres["messages_sent"], len(rres.get("findings") or []))

    # 3. accessor correspondence (needs the Coq lock: after the obligations)
    th.join()
    acc = accbox.get("acc") or dict(ok=False, cases=0, skipped=0, failed="accessor correspondence did not run")

    # thorough: the compiled theorems are re-checked by the independent checker
    coqchk_note = "not run (quick tier)"
    coqchk_ok = None
    if tier == "thorough" and coq.get("ok"):
        with common.Lock("coq"):
            rc, out = common.run(["coqchk", "-silent", "-Q", ".", "Nexus", "Nexus.Props.C04"], cwd=common.COQ, timeout=1500)
        coqchk_ok = rc == 0
        coqchk_note = "coqchk -silent Nexus.Props.C04: %s" % ("ok" if coqchk_ok else "FAILED: " + out[-500:])

    # 4. obligations that do not hold: aim the stream at the offending sites
    obligations = coq.get("obligations", [])
    discharged = coq.get("discharged", [])
    broken = []
    if not coq.get("ok"):
        broken.append("Coq: " + (coq.get("failed") or "")[:600])
    if not acc["ok"]:
        broken.append("accessor correspondence: " + (acc.get("failed") or "")[:600])
    if coqchk_ok is False:
        broken.append(coqchk_note)
    unexplained = [s for s in unsafe if not any(explains(f, s) for f in findings.values())]
    if (unexplained or (broken and not findings)) and (not coq.get("ok")):
        # aim the streams at the offending sites, class by class
        plans = []
        val = [s for s in unexplained if s["class"] in ("assert", "accessor", "keyread", "mapwrite", "reflect", "div", "makelen", "callpanic", "nilparam")]
        if val:
            keys = sorted({s["key"] for s in val if s.get("key")})
            a = ["-streams", "typeconf,meta,states,fieldconf"]
            if keys:
                a += ["-keys", ",".join(keys + ["ppt_scheme"])]
            plans.append(("values", a))
        if any(s["class"] in ("index", "slice") for s in unexplained):
            plans.append(("lengths", ["-streams", "meta,fieldconf,frames,typeconf", "-only", "meta/,fieldconf/,frames/,typeconf/local/PUBLISH"]))
        if any(s["class"] in ("msgsend", "msgderef") for s in unexplained):
            plans.append(("delivery", ["-streams", "frames,states", "-only", "frames/,states/raw,states/ws,states/local"]))
        if any(s["class"] == "peerclose" for s in unexplained):
            plans.append(("close", ["-streams", "typeconf,repeat,disconnect,burst,states", "-only", "nofeature,repeat/,disconnect/,burst/,states/"]))
        if any(s["class"] == "detailsuse" for s in unexplained) and rexe is not None:
            plans.append(("details", ["-worker-exe", rexe, "-race", "-streams", "burst", "-only", "details-race,burst/local/pubsub,burst/raw"]))
        if any(s["class"] == "panic" for s in unexplained) or not plans:
            plans.append(("requests", ["-streams", "repeat,random,states,burst,disconnect"]))
        for label, a in plans:
            common.info("C04: obligations broken, %d unexplained unsafe sites: targeted search '%s'" % (len(unexplained), label))
            tres, tlog = run_streams(exe, "thorough", "targeted-" + label, base + ["-budget", "3m" if tier == "quick" else "8m"] + a, timeout=1200)
            absorb("targeted-" + label, tres)
            unexplained = [s for s in unsafe if not any(explains(f, s) for f in findings.values())]
            if not unexplained:
                break

    # 5. verdict
    for sig in sorted(findings):
        f = findings[sig]
        ro = replay_obj_of(f, tier)
        ro["model_rejected_sites"] = [describe_site(s) + " " + json.dumps({k: s.get(k) for k in ("guard", "key", "detail", "close_path") if s.get(k)})
                                      for s in unsafe if explains(f, s)]
        v.finding(sig, ro, what_of(f), tag=sig.split("@")[0].replace(":", "-")[:40])
    if broken and (unexplained or not findings):
        obj = {"kind": "obligation", "obligations": broken, "repo": common.REPO,
               "unsafe_sites_without_a_failing_input": [describe_site(s) for s in unexplained],
               "failed_coq": (coq.get("failed") or "")[:3000], "accessor_mismatches": acc.get("mismatches"),
               "searched": {k: {"histories": r["histories"], "messages_sent": r["messages_sent"]} for k, r in stats.items()}}
        v.violation(obj, tag="obligation", no_input=True)

    # 6. evidence
    main_res = stats["main"]
    samples = list(main_res.get("samples") or [])[:6]
    for s in unsafe[:4]:
        samples.append("unsafe site: " + describe_site(s))
    for sig in sorted(findings)[:6]:
        samples.append("finding: %s trigger=%s" % (sig, findings[sig].get("trigger")))
    samples.append("accessor case: AsInt64(uint64 2^63) / AsID / AsDict(map[any]any ...) compared with the Coq models in-kernel")
    trusted = ["Coq 8.16.1 kernel, vm_compute (site_table_ok, close_table_ok, delivery_ok, policy_table_ok, accessor cases)"]
    for thm, txt in sorted((coq.get("assumptions") or {}).items()):
        trusted.append("Print Assumptions %s: %s" % (thm, txt))
    trusted += ["translator go/cmd/genc04 (go/parser, go/ast, go/types source importer)", "harness go/cmd/c04drive (generators, child-process supervision, signature extraction, shrinker)",
                "Go 1.25 runtime (panic / fatal error reporting, race detector in the thorough tier)"]
    n_obl = len(obligations) + 1 + (1 if coqchk_ok is not None else 0)
    n_dis = len(discharged) + (1 if acc["ok"] else 0) + (1 if coqchk_ok else 0)
    cov.update({
        "obligations": n_obl, "discharged": n_dis, "trusted_base": trusted,
        "obligation_names": obligations + ["cases/C04Cases.v:accessor_models_agree"],
        "axioms": coq.get("axioms", []),
        "evaluations": sum(r["messages_sent"] for r in stats.values()) + acc["cases"],
        "distinct_nontrivial": sum(r["distinct_hostile_inputs"] for r in stats.values()),
        "rule": "evaluations = hostile messages / byte strings actually submitted to the real router in child processes + accessor cases; "
                "distinct_nontrivial = distinct (transport, serializer, message type, key or field position or frame shape, value kind / scenario step) "
                "labels among the submitted hostile steps (a step counts only when labelled hostile by its generator; set-up, sync and probe traffic is not counted)",
        "samples": samples,
        "sites": {"total": len(sites), "client_or_derived": sum(1 for s in sites if s["origin"] != "internal"), "by_class": inv["summary"],
                  "distinct_keys": len({k["key"] for k in inv["keys"]}), "unsafe_by_mirror": [describe_site(s) for s in unsafe], "policy": inv["policy"]},
        "accessor_cases": {"compared_in_kernel": acc["cases"], "skipped_unrepresentable": acc["skipped"], "agree": acc["ok"]},
        "streams": {k: {"histories": r["histories"], "steps": r["steps"], "messages_sent": r["messages_sent"], "distinct_hostile_inputs": r["distinct_hostile_inputs"],
                        "by_stream": r["streams"], "steps_by_transport": r["steps_by_transport"], "hostile_by_message_type": r["hostile_by_message_type"],
                        "hostile_by_value_kind": r["hostile_by_value_kind"], "keys": r["keys"], "value_kinds": r["value_kinds"],
                        "histories_by_router_config": r.get("histories_by_router_config"),
                        "worker_restarts": r["worker_restarts"], "isolated_child_runs": r["isolated_child_runs"],
                        "histories_skipped_budget": r["histories_skipped_budget"], "wall_s": r["wall_s"], "race_build": r["race_build"]}
                    for k, r in stats.items()},
        "router_configurations": "0: disclosure + history on hist.topic/histp. + meta kill/modify, realm2 strict/local-auth/authorizer(deny,fail,mutate)/MetaStrict, bare template; "
                                 "1: disclosure + history (exact/prefix/wildcard) over every topic the streams publish to, MetaStrict, allow-all Authorizer also for local sessions; "
                                 "2: realm1 created from the realm template (disclosure, history, strict URIs, local auth); 3 (thorough): everything optional off. "
                                 "Each history runs against 2 (quick) / 3 (thorough) of them, corpus against 3. Every configuration runs rawsocket servers with RecvLimit 0 (16M) / 512 / 1000 / 65536 "
                                 "(the limited ones with OutQueueSize 4) and a second websocket server with OutQueueSize 2; the frame streams announce limit+1, 2*limit, 16M-1 in every frame type",
        "liveness_probe": "after every history: publish/event, call/invocation/yield/result, wamp.session.count, fresh attach (every 4th also rawsocket+websocket) by uninvolved sessions",
        "race_tier": race_note,
        "coqchk": coqchk_note,
        "findings": [{"signature": s, "known": bool(common.match_known(PID, s)), "trigger": findings[s].get("trigger"), "reproduced": findings[s].get("reproduced"),
                      "occurrences": findings[s].get("occurrences")} for s in sorted(findings)],
        "partial": "theorem: value-level totality over the regenerated site table, close discipline / policy / nil-delivery of the models; "
                   "sampling: scheduler, data races, decoders, liveness (wedging), fidelity of the translator",
    })
    common.write_evidence(PID, tier, "proof", cov, T.s(), v.violations, assumptions)
    common.info("C04: %d/%d obligations, %d findings (%d known), %d messages, %.0fs" %
                (n_dis, n_obl, len(findings), v.known, cov["evaluations"], T.s()))
    return v.exit_code()
