"""C03: decided on the router-core model (coq/Router, Props/C03.v) + correspondence harness (go/drive)."""
import router_check


def main(tier, replay=None):
    return router_check.main("C03", tier, replay)


def gen():
    err = router_check.gen()
    if err:
        raise RuntimeError(err)
