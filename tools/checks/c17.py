"""C17 — The client never crashes or hangs, whatever the router sends.

./check C17 [quick|thorough] [--replay path]

1. translator: go/cmd/genclient on REPO/client/client.go -> coq/gen/GenClient.v
   (accessor-site inventory on router-controlled data + channel skeleton)
2. proof obligations: Props/C17.v (protocol model: no panic for all messages
   and values; goroutine-level LTS: run never stuck, API / Done / Close
   progress) + the per-run conformance obligations site_table_ok
   (Client/ClientConformSites.v) and skeleton_conforms
   (Client/ClientConformSkeleton.v) over the regenerated inventory
3. hostile and timing scripts against the real client in WORKER PROCESSES
   (a panic / fatal error = exit status of the worker; a hang = virtual-time
   timeout with goroutine dump; a leak = client goroutines left after Close):
   the PPT/E2EE field matrix, type confusion on every key of the inventory x
   every value type x every message that carries it, every message type with
   unknown ids, duplicates, GOODBYE/ABORT/peer close at every position,
   replies exactly at the response timeout / cancellation timeout / context
   deadline with both timer orders, Close racing with replies; each followed
   by liveness probes.  The value-level model must also explain every run.
4. verdict / evidence
"""
import glob
import json
import os
import random
import re
import sys

sys.path.insert(0, os.path.dirname(os.path.dirname(os.path.abspath(__file__))))
sys.path.insert(0, os.path.dirname(os.path.abspath(__file__)))
import common  # noqa: E402
import clientlib as cl  # noqa: E402

PID = "C17"
EXTRA = ["Client/ClientConformSites.v", "Client/ClientConformSkeleton.v"]


def gen():
    cl.gen()


def _corpus():
    out = []
    for p in sorted(glob.glob(os.path.join(common.VERIF, "corpus", PID, "*.json"))):
        try:
            d = json.load(open(p))
        except ValueError:
            continue
        s = d.get("sched", d)
        if "bursts" in s:
            s = dict(s)
            s["id"] = "corpus:" + os.path.basename(p)
            s.setdefault("family", "corpus")
            s.setdefault("probes", [])
            out.append(s)
    return out


def conformance_report():
    """Which sites / skeleton hazards fail on today's inventory (diagnostics
    for the replay file when an obligation does not compile)."""
    d = os.path.join(common.COQ, "cases")
    os.makedirs(d, exist_ok=True)
    path = os.path.join(d, "conf_report_%s.v" % common.repo_key().replace("-", "_"))
    with open(path, "w") as f:
        f.write("From Coq Require Import List String.\nFrom Nexus Require Import Client.ClientSkeleton gen.GenClient.\n"
                "Eval vm_compute in (conformance_report gen_ok gen_funcs gen_run_exits gen_reply_dispatch).\n"
                "Eval vm_compute in (map (fun s => (st_fn s, st_line s, st_text s)) (unsafe_sites gen_sites)).\n")
    common.coq_make(["Client/ClientSkeleton.vo", "gen/GenClient.vo"])
    rc, out = common.run(["coqc", "-Q", common.COQ, "Nexus", path], cwd=d, timeout=300)
    failed = re.findall(r'\("(\w+)",\s*false\)', out)
    sites = re.findall(r'\("(\w+)",\s*(\d+),\s*"([^"]*)"\)', out)
    return failed, ["%s:%s %s" % (a, b, c) for a, b, c in sites], (out if rc != 0 else "")


def judge(s, res):
    """-> list of (signature, what) for one script run."""
    st = res["status"]
    out = []
    if st == "crash":
        out.append(("C17 " + cl.crash_signature(res), "the client process died (exit status %s)" % res.get("rc")))
    elif st in ("hang", "leak"):
        what = (res.get("why") or "").split(" | ")[0] or "client goroutines left after Close"
        if cl.is_stuck(res):
            what += "; goroutines of the client:\n" + (res.get("stacks") or "")[:6000]
        out.append(("C17 " + cl.hang_signature(res), what))
    elif st == "skipped":
        pass
    elif st != "ok":
        raise RuntimeError("harness problem on script %s: %s %s" % (s.get("id"), st, res.get("why")))
    else:
        out += cl.monitor_c17(s, res)
    return out


def _replay(path):
    d = json.load(open(path))
    if d.get("kind") != "schedule":
        print("replay: %s" % d.get("what", "obligation without failing input"))
        cl.gen()
        r = common.coq_props(PID, extra_files=EXTRA)
        failed, sites, _ = conformance_report()
        print("model : obligations %d discharged %d  %s" % (len(r["obligations"]), len(r["discharged"]),
                                                          ("FAILED: " + r["failed"][:600]) if not r["ok"] else "all proved"))
        print("inventory: skeleton hazards failing %s; unsafe accessor sites %s" % (failed, sites))
        print("verdict: %s" % ("obligations hold again" if r["ok"] else "still broken"))
        return 0 if r["ok"] else 1
    sched = d["sched"]
    exe = cl.build_harness()
    tries = d.get("attempts", 40)
    hit = None
    res = None
    for i in range(tries):
        res = cl.run_schedules(exe, [sched], procs_of=lambda _: (1, 2, 16, 4)[i % 4], workers=1, tag="replay17")[0]
        sigs = judge(sched, res)
        if sigs:
            hit = (res, sigs, i + 1)
            break
    print("script %s (%d bursts, family %s); signature recorded: %s" % (sched.get("id"), len(sched["bursts"]), sched.get("family"), d.get("signature")))
    if hit:
        res, sigs, n = hit
        print("implementation: status=%s after %d attempt(s), GOMAXPROCS=%s" % (res["status"], n, res.get("gomaxprocs")))
        for s_, w in sigs:
            print("   %s -- %s" % (s_, w))
        if res.get("stacks"):
            print(res["stacks"][:3000])
    else:
        print("implementation: status=%s in all %d attempts" % (res["status"], tries))
    for o in res.get("obs", [])[-25:]:
        print("   impl  b%-2d t=%-6d %s" % (o["b"], o["t"], json.dumps({k: v for k, v in o.items() if k not in ("b", "t")})))
    if hit and any("CallProgressive" in s_ for s_, _ in hit[1]):
        print("model : carries this panic -- step_chunk yields Panic 924 once the peer is closed "
              "(client_never_panics_refuted, witness feeder_panic_trace); it is exactly the trigger that "
              "client_never_panics_partial excludes (no_feeder_after_close)")
    elif res["status"] == "ok":
        try:
            cfg, terms, readable = cl.build_case(sched, res)
            fl, err = cl.run_cases([(0, cfg, terms)], "replay17", shards=1)
            if fl:
                k = fl[0][1]
                print("model : does NOT explain burst %d; it admits: %s" % (k, cl.predict((0, cfg, terms), k, "replay17")))
                print("        observed: %s" % readable[k]["observed"])
            else:
                print("model : explains every burst of this run" + (" (%s)" % err if err else ""))
        except cl.Unmodelled as e:
            print("model : observation outside the model's alphabet: %s" % e)
    else:
        print("model : the repaired model has no panic for this label sequence (client_never_panics_partial), run is "
              "released (run_is_released), Close returns (close_always_progresses); the unguarded rendezvous is refuted "
              "(run_never_stuck_unguarded_refuted)")
    print("verdict: %s" % ("VIOLATION reproduced" if hit else "not reproduced"))
    return 1 if hit else 0


def main(tier, replay):
    if replay:
        return _replay(replay)
    t = common.Timer()
    v = common.Verdict(PID)
    seed = common.seed()
    ok_gen, gen_log = cl.gen()
    r = common.coq_props(PID, extra_files=EXTRA)
    trusted = ["coqc 8.16.1 kernel (vm_compute used for conformance, cases and witnesses)",
               "go/cmd/genclient (go/parser reading of client.go: taint of router-controlled data, channel classification)",
               "go/cmd/clientdrive + testing/synctest (virtual clock, quiescence = durably blocked); child processes for crashes"]
    for k, a in sorted(r["assumptions"].items()):
        trusted.append("Print Assumptions %s: %s" % (k, a))
    for ax in r["axioms"]:
        trusted.append("axiom: " + ax)

    rng = random.Random(seed * 104729 + 17)
    keys = cl.inventory_keys()
    scripts = _corpus() + cl.gen_c17(rng, tier, keys)
    exe = cl.build_harness()
    results = cl.run_schedules(exe, scripts, tag="c17", per_timeout=300)

    status, families = {}, {}
    findings = {}
    cases, case_meta = [], {}
    unmodelled = 0
    for i, (s, res) in enumerate(zip(scripts, results)):
        status[res["status"]] = status.get(res["status"], 0) + 1
        families[s.get("family", "?")] = families.get(s.get("family", "?"), 0) + 1
        for sig, what in judge(s, res):
            obj = {"kind": "schedule", "sched": s, "observed": cl.summarize(res)}
            if s.get("family") == "timing":
                obj["attempts"] = 60
            # keep the smallest script per signature
            if sig not in findings or len(json.dumps(s)) < len(json.dumps(findings[sig][0]["sched"])):
                findings[sig] = (obj, what)
        if res["status"] == "ok" and s.get("family") not in ("join", "stall"):
            try:
                cfg, terms, readable = cl.build_case(s, res)
                cases.append((i, cfg, terms))
                case_meta[i] = readable
            except cl.Unmodelled:
                unmodelled += 1

    failing, err = cl.run_cases(cases, "c17")
    if err:
        raise RuntimeError("in-kernel correspondence could not be evaluated:\n" + err)
    for (i, k) in sorted(failing, key=lambda ik: len(json.dumps(scripts[ik[0]])))[:2]:
        s = scripts[i]
        model = cl.predict([c for c in cases if c[0] == i][0], k, "c17")
        findings.setdefault("C17 model/implementation disagree", (
            {"kind": "schedule", "sched": s, "observed_burst": case_meta[i][k], "model_admits": model,
             "what": "correspondence broken: the value-level client model does not explain what the client did "
                     "(burst %d of %s); no crash / hang / probe failure was seen" % (k, s.get("id")),
             "no_input": True}, "model/implementation disagree on %s" % s.get("id")))

    conf_failed, unsafe, conf_err = [], [], ""
    if not r["ok"]:
        conf_failed, unsafe, conf_err = conformance_report()
        what = "proof obligation no longer checks: " + (r["failed"][:600] or "see log")
        if not ok_gen:
            what = "translator stopped (broken tie): " + (gen_log.strip().splitlines()[-1] if gen_log.strip() else "?")
        # which concrete finding shows which broken obligation on the real client
        concrete = [sg for sg, (o, _) in findings.items() if not o.get("no_input") and "CallProgressive" not in sg]
        EXPLAINS = {
            "h1_reply_sends_guarded": ("runSignalReply",), "h2_run_blocking_known": ("runSignalReply", "client.(*Client).run", "chan send@client.(*Client).runHandleInvocation"),
            "h3_waiters_release": ("runSignalReply", "waitForReply"), "h9_no_orphan_expect": ("runSignalReply",),
            "h4_close_sequence": ("client.(*Client).Close", "Done not signalled"), "h5_run_exits": ("Done not signalled", "done-never-signalled"),
            "h7_inv_goroutines": ("runHandleInvocation", "cleanupInvHandlersQueue"), "h8_peer_closed_once": ("close of closed channel", "send on closed channel"),
            "h12_sends_watch_done": ("send on closed channel", "chan send@"),
        }
        unexplained = []
        for hz in conf_failed:
            pats = EXPLAINS.get(hz)
            if pats is None or not any(p_ in sg for sg in concrete for p_ in pats):
                unexplained.append(hz)
        site_fns = sorted(set(u.split(":")[0] for u in unsafe))
        sites_unexplained = [fn for fn in site_fns
                             if not any(("crash" in sg and (fn in sg or "runtime error" in sg or "interface conversion" in sg)) for sg in concrete)]
        other = sorted(o for o in set(r["obligations"]) - set(r["discharged"])
                       if not o.startswith("Client/ClientConform"))
        if unexplained or sites_unexplained or other or not ok_gen or (not conf_failed and not unsafe):
            v.violation({"kind": "obligation", "what": what,
                         "skeleton_hazards_failing": conf_failed, "hazards_without_failing_input": unexplained,
                         "unsafe_accessor_sites": unsafe, "site_functions_without_failing_input": sites_unexplained,
                         "undischarged": sorted(set(r["obligations"]) - set(r["discharged"]))},
                        tag="obligation", no_input=True)
        else:
            common.info("C17: %s; failing inputs follow (hazards %s, sites %s)" % (what[:200], conf_failed, unsafe))

    for sig, (obj, what) in sorted(findings.items()):
        if obj.get("no_input"):
            obj = dict(obj)
            obj.pop("no_input")
            obj["signature"] = sig
            v.violation(obj, tag="corr", no_input=True)
        else:
            v.finding(sig, obj, what, tag="script")

    coverage = {
        "obligations": len(r["obligations"]),
        "discharged": len(r["discharged"]),
        "obligation_names": r["obligations"],
        "checker_cmd": "coqc -Q coq Nexus coq/Props/C17.v (after make of its dependencies and of Client/ClientConformSites.v, "
                       "Client/ClientConformSkeleton.v over the regenerated coq/gen/GenClient.v)",
        "trusted_base": trusted,
        "evaluations": len(scripts),
        "distinct_nontrivial": len(set(json.dumps(s["bursts"], sort_keys=True) for s in scripts)),
        "rule": "scripts from seed %d: PPT/E2EE matrix (scheme x serializer value x argument shape x message), type confusion on "
                "every key of the generated inventory %s x %d value types x 5 message kinds, every message type with unknown/zero/huge "
                "ids, duplicates, GOODBYE/ABORT/peer close at and inside every burst of the base script, replies exactly at the response "
                "timeout / cancellation timeout / context deadline with both timer orders (repeated, GOMAXPROCS 1/2/16), Close racing with "
                "replies, directed scripts; each in its own synctest bubble inside a worker process; distinct = distinct burst lists; "
                "every script contains at least one hostile or coinciding message and ends with liveness probes and Close" % (
                    seed, keys, len(cl.VALUES)),
        "samples": [scripts[i] for i in (0, min(len(scripts) - 1, 40))],
        "scripts_by_family": families,
        "status_counts": status,
        "traces_validated_against_impl": len(cases) - len(failing),
        "model_cases": len(cases),
        "model_mismatches": len(failing),
        "unmodelled_observations": unmodelled,
        "inventory_keys": keys,
        "skeleton_hazards_failing": conf_failed,
        "unsafe_accessor_sites": unsafe,
        "signatures_seen": sorted(findings),
        "exhaustive": tier == "thorough",
        "exhaustive_note": "thorough enumerates the whole PPT matrix and the whole key x value x message table; timing scripts are sampled",
        "repo": common.REPO,
    }
    assumptions = [
        "the goroutine-level theorems are about the skeleton model Client/ClientLts.v; that the skeleton is the code's is the "
        "translator's claim (skeleton_conforms, re-checked on every run) plus sampled runs: the Go scheduler is sampled, not enumerated",
        "the router end keeps draining the client's send channel (a peer that stops reading is outside the property's text)",
        "wamp.Peer.Recv never yields a nil message (the rawsocket reserved-frame defect is C15's)",
        "user handlers and callbacks return and honour their context",
        "data races / Go runtime fatal errors cannot be exhibited by an executable Gallina model",
    ]
    common.write_evidence(PID, tier, "proof", coverage, t.s(), v.violations, assumptions)
    common.info("C17: %d scripts %s, %d compared with the model (%d mismatches), %d obligations (%d discharged), signatures %s, %.1fs" % (
        len(scripts), status, len(cases), len(failing), len(r["obligations"]), len(r["discharged"]), sorted(findings), t.s()))
    return v.exit_code()
