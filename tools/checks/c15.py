"""C15 -- transports frame messages faithfully and are interchangeable.

Decision procedure (see docs/C15.md):
  1. gen(): translate transport/rawsocketpeer.go + router/rawsocketserver.go of
     the repository under test into coq/gen/GenC15.v (a translator failure
     leaves a stub that cannot satisfy any obligation).
  2. Coq: Props/C15.v and the per-run conformance files are compiled against
     the regenerated code (obligations / discharged / Print Assumptions).
  3. Correspondence: the extracted generated model (c15model), the extracted
     reference instance (c15spec, the monitor) and the implementation (the Go
     harness c15drive, always a child process) run on the same cases.
       implementation != monitor  -> the property fails on a concrete input
       implementation == monitor, generated model differs -> the tie is broken
  4. When an obligation failed or the tie is broken, the thorough boundary
     enumeration is run regardless of tier to find a concrete failing input.
"""
import hashlib
import json
import os
import random
import re
import shutil
import subprocess
import sys
import time
from concurrent.futures import ThreadPoolExecutor

import common

PID = "C15"
CONF_FILES = [
    "Transport/RawConformArith.v",
    "Transport/RawConformFrame.v",
    "Transport/RawConformHandshake.v",
    "Transport/RawConformDiscipline.v",
    "Transport/RawConformWs.v",
]
GEN_V = os.path.join(common.COQ, "gen", "GenC15.v")

SIG_RESERVED = "rawsocket recvHandler: frame of reserved type 3..7 is not rejected (nil message delivered / router panics)"
SIG_LEN24 = "rawsocket sendHandler: message of exactly 2^24 bytes is framed with length 0 and corrupts the stream"
SIG_INTERLEAVE = "rawsocket: PONG written by recvHandler between the header and body Writes of sendHandler"
SIG_ANNOUNCED = "rawsocket: a frame within the receive limit the peer announced in its handshake is not delivered (connection closed)"
SIG_OVER_NIL = "rawsocket recvHandler: a frame longer than the receive limit is not rejected as a whole (nil message delivered / stream misparsed)"
SIG_WS_UNSER = "websocket sender loop: a message the codec cannot encode is not dropped alone (later messages lost or disturbed)"

SERS = [("json", 1), ("msgpack", 2), ("cbor", 3)]


# --------------------------------------------------------------------------
# step 1: translator


def gen():
    """Regenerate coq/gen/GenC15.v from common.REPO.  Returns (ok, message)."""
    binp, log = common.go_build("./cmd/genc15")
    if binp is None:
        _stub("translator does not build: " + log[-400:])
        return False, "genc15 build failed:\n" + log[-2000:]
    rc, out = common.run([binp, "-repo", common.REPO], timeout=120)
    if rc != 0 or "Definition send_ops" not in out:
        msg = out.strip()[-1500:]
        _stub(msg)
        return False, msg
    common.write_if_changed(GEN_V, out)
    return True, ""


def _stub(msg):
    safe = msg.replace("*)", "* )").replace("(*", "( *")
    common.write_if_changed(GEN_V, "(* GENERATED STUB: the C15 translator could not translate the repository.\n   %s *)\n"
                            "Definition translator_failed : True := I.\n" % safe)


# --------------------------------------------------------------------------
# step 3: models and harness


def build_models(all_built=False):
    """Extract and compile the monitor (c15spec) and, when the generated file
    exists and compiles, the generated model (c15model).  all_built: the Coq
    build of everything Props/C15.v needs has just succeeded (nothing to make)."""
    d = common.build_dir("c15")
    src = os.path.join(common.VERIF, "ocaml", "c15")
    res = {"spec": None, "model": None, "log": ""}
    okg, logg = True, ""
    if not all_built:
        # definition files (no proofs) must be compiled
        defs = ["Transport/RawSpec.vo", "Transport/RawHandshakeSpec.vo", "Transport/PeerDiscipline.vo", "Transport/WsPeer.vo"]
        ok, log = common.coq_make(defs, timeout=900)
        if not ok:
            res["log"] += log[-2000:]
            return res
        okg, logg = common.coq_make(["Transport/RawGen.vo", "Transport/RawHandshake.vo"], timeout=900)
    with common.Lock("c15-ocaml-" + common.repo_key()):
        for name, need in (("c15spec", True), ("c15model", okg)):
            if not need:
                res["log"] += "generated model does not compile:\n" + logg[-1500:]
                continue
            vsrc = os.path.join(src, "extract_%s.v" % ("c15spec" if name == "c15spec" else "c15"))
            vdst = os.path.join(d, os.path.basename(vsrc))
            key = hashlib.sha1((open(vsrc).read() + open(os.path.join(src, "driver.ml")).read() +
                                (open(GEN_V).read() if name == "c15model" else "") +
                                "".join(open(os.path.join(common.COQ, "Transport", f)).read()
                                        for f in ("RawFrame.v", "RawSpec.v", "RawHandshakeSpec.v", "PeerDiscipline.v",
                                                  "RawGen.v", "GoArith.v", "RawOps.v", "WsPeer.v"))).encode()).hexdigest()
            binp = os.path.join(d, "bin", name)
            stamp = binp + ".key"
            if os.path.exists(binp) and os.path.exists(stamp) and open(stamp).read() == key:
                res["spec" if name == "c15spec" else "model"] = binp
                continue
            os.makedirs(os.path.join(d, "bin"), exist_ok=True)
            shutil.copy(vsrc, vdst)
            rc, out = common.run(["coqc", "-Q", common.COQ, "Nexus", os.path.basename(vdst)], cwd=d, timeout=600)
            if rc != 0:
                res["log"] += out[-1500:]
                continue
            drv = os.path.join(d, "driver_%s.ml" % name)
            txt = open(os.path.join(src, "driver.ml")).read()
            if name == "c15spec":
                txt = txt.replace("open C15model", "open C15spec")
            with open(drv, "w") as f:
                f.write(txt)
            rc, out = common.run(["ocamlfind", "ocamlopt", "-O2", "-w", "-a", name + ".mli", name + ".ml",
                                  os.path.basename(drv), "-o", binp], cwd=d, timeout=600)
            if rc != 0:
                res["log"] += out[-1500:]
                continue
            with open(stamp, "w") as f:
                f.write(key)
            res["spec" if name == "c15spec" else "model"] = binp
    return res


def run_model(binp, lines):
    """lines: list of 'id rest'.  Returns {id: output}."""
    if not lines:
        return {}
    p = subprocess.run([binp], input="\n".join(lines) + "\n", stdout=subprocess.PIPE, stderr=subprocess.STDOUT,
                       text=True, errors="replace", timeout=1500)
    res = {}
    for l in p.stdout.splitlines():
        if " " in l:
            i, rest = l.split(" ", 1)
            res[i] = rest
        elif l:
            res[l] = ""
    return res


def run_impl(binp, lines, shards=None, timeout=1500):
    """Run the Go harness on case lines ('id kind args').  A crash of the worker
    is recorded for the case it was running ({id: 'CRASH ...'}) and the rest is
    continued in a new worker."""
    if not lines:
        return {}
    shards = shards or min(common.NPROC, max(1, len(lines) // 8))
    wd = common.build_dir("c15", "work")
    chunks = [lines[i::shards] for i in range(shards)]

    def work(k):
        res = {}
        todo = chunks[k]
        attempt = 0
        while todo:
            attempt += 1
            cf = os.path.join(wd, "cases-%d-%d-%d.txt" % (os.getpid(), k, attempt))
            with open(cf, "w") as f:
                f.write("\n".join(todo) + "\n")
            try:
                p = subprocess.run([binp, cf, wd], stdout=subprocess.PIPE, stderr=subprocess.PIPE, text=True,
                                   errors="replace", timeout=timeout)
                rc, so, se = p.returncode, p.stdout, p.stderr
            except subprocess.TimeoutExpired as e:
                rc, so, se = 124, (e.stdout or b"").decode(errors="replace") if isinstance(e.stdout, bytes) else (e.stdout or ""), "timeout"
            os.remove(cf)
            started = None
            hung = None
            for l in so.splitlines():
                if l.startswith("START "):
                    started = l[6:].strip()
                elif " " in l:
                    i, rest = l.split(" ", 1)
                    res[i] = rest
                    if rest.startswith("HANG"):
                        hung = i
                    elif i == started:
                        started = None
            if rc == 0:
                break
            # crashed (or hung) inside case `started`
            ids = [x.split(" ", 1)[0] for x in todo]
            bad = hung or started
            if bad is None or bad not in ids:
                # cannot attribute: mark everything unanswered
                for i in ids:
                    res.setdefault(i, "CRASH worker exited with status %d: %s" % (rc, se[-300:].replace("\n", " | ")))
                break
            if not hung:
                m = re.search(r"(panic: .*|fatal error: .*)", se)
                head = m.group(1) if m else "exit status %d" % rc
                site = [re.sub(r"\(0x[0-9a-f, x.]*\)$", "", x) for x in re.findall(r"(github\.com/gammazero/nexus/v3/\S+)", se)]
                res[bad] = "CRASH %s at %s" % (head[:200], ",".join(site[:3]))
            todo = todo[ids.index(bad) + 1:]
        return res

    out = {}
    with ThreadPoolExecutor(max_workers=shards) as ex:
        for r in ex.map(work, range(shards)):
            out.update(r)
    return out


# --------------------------------------------------------------------------
# cases


def kv(s):
    """'a=b c=d' -> dict (first token without '=' kept under '_')"""
    d = {}
    for tok in s.split(" "):
        if "=" in tok:
            k, v = tok.split("=", 1)
            d[k] = v
        elif tok:
            d.setdefault("_", []).append(tok)
    return d


def hexb(bs):
    return "".join("%02x" % b for b in bs) or "-"


class Case:
    """One logical case: an implementation line, a model line, and how the two
    outputs are projected to comparable observations."""

    def __init__(self, cid, kind, impl, model, **kw):
        self.id, self.kind, self.impl, self.model = cid, kind, impl, model
        self.kw = kw

    # expected observation from a model output line
    def expect(self, mo, canon):
        k = self.kind
        if mo is None:
            return {"_": "no model output"}
        if mo.startswith("ERROR"):
            return {"_": mo}
        if k in ("hs_server", "hs_client"):
            d = kv(mo)
            o = {"result": d.get("result"), "written": (d.get("written", "-").replace(",", "").replace("-", "") or "-")}
            if d.get("result") == "peer":
                o["ser"] = d.get("ser")
            else:
                o["closed"] = d.get("closed")
            return o
        if k in ("limits_server", "limits_client"):
            return {"text": mo}
        if k == "recv":
            if not mo.startswith("hs=ok"):
                return {"_": mo}
            return self._events(mo[5:].strip(), canon)
        if k == "router_recv":
            d = kv(mo)
            evs = [t for t in mo.split(" ") if "=" not in t]
            o = self._events(" ".join(evs), canon, router=True)
            o["reply"] = d.get("reply")
            return o
        if k == "ping_hold":
            return {"wires": sorted(x.strip() for x in mo.split("|"))}
        if k == "send_unser":
            return {"text": self.kw["want"]}
        if k == "ws_peer":
            d = kv(mo)
            n = 0 if d.get("sent") == "-" else len(d.get("sent", "").split(","))
            t = "text" if self.kw["ser"] == "json" else "binary"
            return {"sent": d.get("sent"), "types": ",".join([t] * n) or "-", "recv_ok": "true"}
        if k == "arith":
            return {"text": mo}
        return {"_": "unknown kind"}

    def _events(self, text, canon, router=False):
        delivered, pong, end = [], "", "eof"
        for ev in text.split(" "):
            if not ev:
                continue
            if ev.startswith("msg:"):
                body = ev[4:]
                c = canon.get((self.kw.get("ser"), body))
                if c is None:
                    delivered.append("?" + body)
                elif c != "fail":
                    delivered.append(c)
            elif ev.startswith("pong:"):
                pong += ev[5:].replace("-", "")
            elif ev == "nil":
                delivered.append("nil")
            elif ev in ("close", "eof", "panic"):
                end = ev
        if router:
            # the router neither forwards nor echoes anything for these streams;
            # the connection ends iff the reader closed it; the router stays up
            return {"back": pong or "-", "closed": str(end == "close").lower(), "alive": "true",
                    "nil": str("nil" in delivered).lower()}
        return {"delivered": ",".join(delivered) or "-", "written": pong or "-",
                "closed_early": str(end == "close").lower()}

    # observation from the implementation's output line
    def observe(self, io):
        k = self.kind
        if io is None:
            return {"_": "no implementation output"}
        if io.startswith("CRASH") or io.startswith("HANG") or io.startswith("ERROR"):
            return {"_": io}
        if k in ("hs_server", "hs_client"):
            d = kv(io)
            o = {"result": d.get("result"), "written": d.get("written", "-")}
            if d.get("result") == "peer":
                o["ser"] = d.get("ser")
            else:
                o["closed"] = d.get("closed")
            return o
        if k in ("limits_server", "limits_client", "send_unser"):
            return {"text": io}
        if k == "ws_peer":
            d = kv(io)
            return {"sent": d.get("sent"), "types": d.get("types"), "recv_ok": d.get("recv_ok")}
        if k == "recv":
            d = kv(io)
            if d.get("hs") != "ok" or d.get("rd_closed") != "true":
                return {"_": io}
            return {"delivered": d.get("delivered"), "written": d.get("written"), "closed_early": d.get("closed_early")}
        if k == "router_recv":
            d = kv(io)
            if d.get("welcome") != "true":
                return {"_": io}
            return {"back": d.get("back"), "closed": d.get("closed"), "alive": d.get("alive"), "nil": "false",
                    "reply": d.get("reply")}
        if k == "ping_hold":
            d = kv(io)
            if d.get("held") != "true":
                return {"_": io}
            recs = [r.split(":", 1) for r in d.get("writes", "").split("|") if r]
            sent = d.get("sentinel", "")
            size = self.kw["size"]
            # drop the sentinel frame (its header record and its body record)
            for i, (n, hx) in enumerate(recs):
                if int(n) * 2 == len(sent) and sent.startswith(hx[:32]):
                    del recs[i]
                    for j in range(i - 1, -1, -1):
                        if recs[j][0] == "4" and recs[j][1] == "%08x" % (len(sent) // 2):
                            del recs[j]
                            break
                    break
            return {"seq": ",".join(tok(int(n), hx, size) for n, hx in recs)}
        return {"_": "unknown kind"}


def tok(n, hx, size):
    """one Write on the wire: its length and, unless it is the message body, its first bytes"""
    if n == size:
        return "%d:body" % n
    if n == size + 4:
        return "%d:frame" % n
    return "%d:%s" % (n, hx[:8])


def classify(case, obs, spec_exp):
    """Signature and description for an implementation observation the monitor rejects."""
    k = case.kind
    txt = json.dumps(obs, sort_keys=True)
    if k in ("recv", "router_recv"):
        ft = case.kw.get("ftype")
        crash = obs.get("_", "")
        ck = "closed_early" if k == "recv" else "closed"
        if case.kw.get("cfg", 0) > 0 and obs.get(ck) == "true" and (spec_exp or {}).get(ck) == "false":
            return SIG_ANNOUNCED, ("server configured with RecvLimit %d announces %d bytes in its handshake, but closes the connection on a frame "
                                   "within that limit: a frame within the limit the receiver announced must arrive and not end the connection"
                                   % (case.kw["cfg"], announced_limit(case.kw["cfg"])))
        over = re.search(r"\bnil\b", obs.get("delivered", "")) or crash.startswith("CRASH")
        if over and ft is not None and ft <= 2:
            return SIG_OVER_NIL + (" [router process panics]" if crash.startswith("CRASH") else ""), "a type-%d frame whose header announces more than the receive limit %s" % (
                ft, "crashes the router process: " + crash if crash.startswith("CRASH") else "makes recvHandler deliver a nil message")
        if (ft is not None and ft >= 3 and crash.startswith("CRASH")) or re.search(r"\bnil\b", obs.get("delivered", "")):
            return SIG_RESERVED, "a rawsocket frame of reserved type %s" % (
                "crashes the router process: " + crash if crash.startswith("CRASH") else "makes recvHandler deliver a nil message")
    if k in ("limits_server", "limits_client"):
        m = re.search(r"16777216:(sent:00000000|garbled)", obs.get("text", ""))
        if m:
            return SIG_LEN24, "a serialized message of 2^24 bytes passes the send limit test and is framed with length 0"
        want = dict(x.split(":", 1) for x in kv((spec_exp or {}).get("text", "")).get("recv", "").split(";") if ":" in x)
        got = dict(x.split(":", 1) for x in kv(obs.get("text", "")).get("recv", "").split(";") if ":" in x)
        lost = sorted(int(n) for n in want if want[n] == "delivered" and got.get(n) not in (None, "delivered"))
        if lost:
            side = "server configured with RecvLimit" if k == "limits_server" else "client configured with recvLimit"
            return SIG_ANNOUNCED, ("%s %s announces %s bytes in its handshake, but a message frame of %d bytes is not delivered (%s): "
                                   "a frame within the limit the receiver announced must arrive and not end the connection"
                                   % (side, case.kw.get("cfg", "?"), case.kw.get("ann", "?"), lost[0], got.get(str(lost[0]))))
    if k == "ws_peer" and obs.get("sent") != (spec_exp or {}).get("sent"):
        return SIG_WS_UNSER, "websocket peer (%s sender loop): queue %s, messages written: %s, expected: %s" % (
            "keep-alive" if case.kw.get("ka") else "plain", (case.impl or "").split(" ")[-1], obs.get("sent"), (spec_exp or {}).get("sent"))
    if k == "ping_hold":
        return SIG_INTERLEAVE, "a PING answered while a message frame is being written puts the PONG between the frame's header and body"
    # anything else: one signature per kind and differing observable
    keys = sorted(kk for kk in set(obs) | set(spec_exp or {}) if (obs.get(kk) != (spec_exp or {}).get(kk)))
    if k in ("limits_server", "limits_client") and "text" in keys:
        a, b = obs.get("text", ""), (spec_exp or {}).get("text", "")
        da, db = kv(a), kv(b)
        keys = [kk for kk in ("hs", "send", "recv") if da.get(kk) != db.get(kk)]
    return "C15:%s:%s" % (k, "+".join(keys) or "differs"), \
        "implementation and reference model disagree on %s (%s)" % (k, ", ".join(keys))


def announced_limit(cfg):
    """the limit a peer configured with cfg announces: the least 2^k (k = 9..24) >= cfg; 2^24 for cfg <= 0 or too large"""
    if cfg <= 0 or cfg > (1 << 24):
        return 1 << 24
    k = 9
    while (1 << k) < cfg:
        k += 1
    return 1 << k


def frame(t, body):
    n = len(body)
    return bytes([t, (n >> 16) & 255, (n >> 8) & 255, n & 255]) + body


# bodies that deserialize as a GOODBYE in each serializer (built by hand: the
# harness and the codecs are exercised by property C14)
def good_body(ser, tag):
    reason = "verif.b." + tag
    if ser == "json":
        return ('[6,{},"%s"]' % reason).encode()
    r = reason.encode()
    if ser == "msgpack":
        return bytes([0x93, 0x06, 0x80, 0xa0 + len(r)]) + r
    return bytes([0x83, 0x06, 0xa0, 0x60 + len(r)]) + r


def make_cases(tier, rng, wide):
    """wide: run the thorough boundary set (thorough tier, or a search)."""
    cs = []
    n = [0]

    def add(kind, impl, model, **kw):
        n[0] += 1
        cid = "c%05d" % n[0]
        cs.append(Case(cid, kind, impl, model, **kw))

    # --- corpus first: minimized failing / interesting inputs of earlier runs
    cp = os.path.join(common.VERIF, "corpus", PID, "cases.jsonl")
    if os.path.exists(cp):
        for line in open(cp):
            line = line.strip()
            if line:
                o = json.loads(line)
                add(o["kind"], o.get("impl"), o.get("model"), **o.get("kw", {}))

    # --- server handshake: every buf[1], reserved-byte patterns, magic, short reads
    for cfg in (0, 4096):
        for b1 in range(256):
            for b2, b3 in ((0, 0), (1, 0), (0, 1), (255, 255)):
                h = hexb([0x7f, b1, b2, b3])
                add("hs_server", "hs_server %d %s" % (cfg, h), "hs_server %d 8 %s" % (cfg, h))
    for b0 in (0x00, 0x7e, 0x80, 0xff):
        for b1 in (0x01, 0xf2, 0x13, 0x00, 0x04):
            h = hexb([b0, b1, 0, 0])
            add("hs_server", "hs_server 0 %s" % h, "hs_server 0 8 %s" % h)
    for h in ("-", "7f", "7f12", "7f1200"):
        add("hs_server", "hs_server 0 %s" % h, "hs_server 0 8 %s" % h)
    cfgs = [-1, 1, 511, 512, 513, 65535, 65536, 65537, 1 << 23, (1 << 23) + 1, 1 << 24, (1 << 24) + 1, 1 << 40]
    for cfg in cfgs:
        for b1 in (0x01, 0xf2, 0x73):
            h = hexb([0x7f, b1, 0, 0])
            add("hs_server", "hs_server %d %s" % (cfg, h), "hs_server %d 8 %s" % (cfg, h))
    for _ in range(200 if not wide else 2000):
        bs = [rng.choice([0x7f, 0x7f, 0x7f, rng.randrange(256)]), rng.randrange(256),
              rng.choice([0, 0, rng.randrange(256)]), rng.choice([0, 0, rng.randrange(256)])]
        cfg = rng.choice([0, rng.randrange(1, 1 << 25)])
        h = hexb(bs)
        add("hs_server", "hs_server %d %s" % (cfg, h), "hs_server %d 8 %s" % (cfg, h))

    # --- client handshake: every reply byte 1, for each protocol
    for _, proto in SERS:
        for cfg in (0, 2000):
            for r1 in range(256):
                h = hexb([0x7f, r1, 0, 0])
                add("hs_client", "hs_client %d %d %s" % (proto, cfg, h), "hs_client %d %d %s" % (proto, cfg, h))
        for h in ("-", "7f", "7f%02x" % (0xf0 | proto), "7e%02x0000" % (0xf0 | proto), "7f%02x0101" % (0xf0 | proto),
                  "7f%02xffff" % (0x50 | proto)):
            add("hs_client", "hs_client %d 0 %s" % (proto, h), "hs_client %d 0 %s" % (proto, h))
        for cfg in cfgs:
            h = "7f%02x0000" % (0x30 | proto)
            add("hs_client", "hs_client %d %d %s" % (proto, cfg, h), "hs_client %d %d %s" % (proto, cfg, h))

    # --- limits: sizes limit-1, limit, limit+1 for every announced limit
    maxlen = (1 << 24) - 1
    for k in range(16):
        lim = 1 << (k + 9)
        if k <= 7:
            sers = SERS
        elif wide:
            sers = SERS if k == 15 else [SERS[k % 3]]
        elif k == 15:
            sers = [("msgpack", 2)]
        else:
            continue
        sizes = [lim - 1, lim, lim + 1]
        rsizes = [s for s in sizes if s <= maxlen]
        for sname, sb in sers:
            b1 = (k << 4) | sb
            line = "limits_server %d %d %s %s" % (lim, b1, ",".join(map(str, sizes)), ",".join(map(str, rsizes)) or "-")
            add("limits_server", line, line, k=k, ser=sname)
            reply = hexb([0x7f, b1, 0, 0])
            line = "limits_client %d %d %s %s %s" % (sb, lim, reply, ",".join(map(str, sizes)), ",".join(map(str, rsizes)) or "-")
            add("limits_client", line, line, k=k, ser=sname)
    # mixed: my limit and the other side's limit differ
    for (kc, ks) in ((0, 3), (5, 1), (2, 7)):
        for sname, sb in SERS:
            S, Rr = 1 << (kc + 9), 1 << (ks + 9)
            b1 = (kc << 4) | sb
            line = "limits_server %d %d %d,%d,%d %d,%d,%d" % (Rr, b1, S - 1, S, S + 1, Rr - 1, Rr, Rr + 1)
            add("limits_server", line, line, ser=sname)

    # --- configured limits that are not the announced ones (server RecvLimit / client recvLimit: 0, powers of
    # two, non-powers of two, below 512, above 16M): frames of announced-limit-1, =limit, +1 bytes each way,
    # plus the configured value and the one after it
    cfg_matrix = [0, 4096, 1000, 1500, 70000, 100, 300, 511, 513, (1 << 24) + 5]
    if wide:
        cfg_matrix += [1, 2047, 2049, 65537, 1 << 23, (1 << 23) + 1, 1 << 30]
    for cfg in cfg_matrix:
        ann = announced_limit(cfg)
        rs_ = sorted(set(x for x in (ann - 1, ann, ann + 1, cfg, cfg + 1, (cfg + ann) // 2) if 400 < x <= maxlen))
        sers = SERS if (ann <= (1 << 17) or wide) else [("msgpack", 2)]
        for sname, sb in sers:
            kc = 3 if ann != 4096 else 2   # what the other side announces: a different limit
            S = 1 << (kc + 9)
            b1 = (kc << 4) | sb
            line = "limits_server %d %d %d,%d,%d %s" % (cfg, b1, S - 1, S, S + 1, ",".join(map(str, rs_)))
            add("limits_server", line, line, ser=sname, cfg=cfg, ann=ann)
            reply = hexb([0x7f, b1, 0, 0])
            line = "limits_client %d %d %s %d,%d,%d %s" % (sb, cfg, reply, S - 1, S, S + 1, ",".join(map(str, rs_)))
            add("limits_client", line, line, ser=sname, cfg=cfg, ann=ann)

    # --- receive loop on byte streams: every frame type (and reserved upper bits), limits, truncation
    for sname, sb in SERS:
        g1, g2 = good_body(sname, "one"), good_body(sname, "two")
        streams = []
        for t in range(8):
            for hi in (0x00, 0x08, 0xf8):
                tb = t | hi
                if t == 0:
                    mid = frame(tb, good_body(sname, "mid"))
                else:
                    mid = frame(tb, b"\x07\x08\x09")
                streams.append((frame(0, g1) + mid + frame(0, g2), 0, t))
            streams.append((frame(t, b""), 0, t))
        streams.append((frame(0, b"") + frame(0, g1), 0, None))                  # empty body: not a message, ignored
        streams.append((frame(0, b"\xc1\xff\x00{") + frame(0, g1), 0, None))   # garbage body: ignored
        streams.append((frame(0, g1)[:3], 0, None))
        streams.append((frame(0, g1)[:-1], 0, None))
        streams.append((frame(1, b"abcdef")[:-2] , 0, None))
        streams.append((frame(2, b"abcdef")[:-2] + b"", 0, None))
        streams.append((b"", 0, None))
        for cfg in (512, 1024, 1000, 1500, 300):
            ann = announced_limit(cfg)
            for ln in sorted(set((ann - 1, ann, ann + 1, cfg, cfg + 1))):
                for t in (0, 1, 2):
                    body = (b"x" * ln) if t else (good_body(sname, "p") + b" " * ln)[:ln] if sname == "json" else b"x" * ln
                    streams.append((frame(t, body) + frame(0, g2), cfg, t))
            # a header announcing more than the limit, the body not (all) there: the frame is rejected on its header
            for t in (0, 1, 2):
                hdr = frame(t, b"y" * (ann + 1))[:4]
                streams.append((frame(0, g1) + hdr + b"y" * 8 + frame(0, g2), cfg, t))
                streams.append((hdr, cfg, t))
        for _ in range(60 if not wide else 1500):
            s = b""
            for _ in range(rng.randrange(1, 6)):
                r = rng.random()
                if r < 0.35:
                    s += frame(rng.choice([0, 0x08, 0x10]), good_body(sname, "r%d" % rng.randrange(9)))
                elif r < 0.55:
                    s += frame(1 | rng.choice([0, 0x08, 0xf8]), bytes(rng.randrange(256) for _ in range(rng.randrange(0, 20))))
                elif r < 0.7:
                    s += frame(2, bytes(rng.randrange(256) for _ in range(rng.randrange(0, 20))))
                elif r < 0.8:
                    s += frame(rng.randrange(3, 8) | rng.choice([0, 0x08]), bytes(rng.randrange(256) for _ in range(rng.randrange(0, 8))))
                elif r < 0.9:
                    s += frame(0, bytes(rng.randrange(256) for _ in range(rng.randrange(0, 12))))
                else:
                    s += bytes(rng.randrange(256) for _ in range(rng.randrange(1, 9)))
            if rng.random() < 0.2 and s:
                s = s[:rng.randrange(len(s))]
            streams.append((s, rng.choice([0, 512]), None))
        for (st, cfg, ft) in streams:
            nib = 15
            add("recv", "recv %s %d %d %s" % (sname, cfg, nib, hexb(st)),
                "recvcase %d %d %d %s" % (cfg, nib, sb, hexb(st)), ser=sname, ftype=ft, cfg=cfg)

    # --- the same through a router behind router.RawSocketServer (process-level: a panic is a crash)
    for sname, sb in SERS:
        for t in range(8):
            for cfg in ((0, 4096) if t in (0, 3) else (0,)):
                st = frame(t, b"\xaa")
                add("router_recv", "router_recv %s %d %s" % (sname, cfg, hexb(st)),
                    "routercase %d %d %s" % (cfg, sb, hexb(st)), ser=sname, ftype=t)

    # a configured RecvLimit (also not a power of two): a frame of exactly the announced limit passes, a header
    # announcing more ends that connection only (the router stays up)
    for sname, sb in SERS:
        for cfg in (1000, 4096):
            ann = announced_limit(cfg)
            for t in (0, 1, 2):
                for st in (frame(t, b"\xaa" * ann), frame(t, b"\xaa" * (ann + 1))[:4] + b"\xaa" * 16,
                           frame(t, b"\xaa" * (cfg + 1))):
                    add("router_recv", "router_recv %s %d %s" % (sname, cfg, hexb(st)),
                        "routercase %d %d %s" % (cfg, sb, hexb(st)), ser=sname, ftype=t, cfg=cfg)

    # --- PING while a frame is being written
    for sname, sb in (SERS if wide else [("msgpack", 2)]):
        for size in ((1024, 70000) if wide else (1024,)):
            ping = frame(1, b"\x07")
            add("ping_hold", "ping_hold %s 15 %d %s" % (sname, size, hexb(ping)),
                "wires %d %s 07" % (size, hexb(ping[:4])), ser=sname, size=size)

    # --- unserialisable messages, websocket peer
    for sname, _ in SERS:
        add("send_unser", "send_unser %s" % sname, None, want="hs=ok frames=sentinel")
        # websocket peer, plain and keep-alive sender loop, queues with messages the codec cannot encode (B)
        for ka in (0, 1):
            for pat in (("GBG", "BGG", "GGBBG", "GGG") if not wide else ("GBG", "BGG", "GGBBG", "GGG", "B", "BBG", "GBGBGB")):
                add("ws_peer", "ws_peer %s %d %s" % (sname, ka, pat), "ws_send %d %s" % (ka, pat), ser=sname, ka=ka)

    # --- arithmetic (generated model against the reference only: the Go functions are unexported)
    vals = set()
    for k in range(0, 27):
        for dlt in (-1, 0, 1):
            vals.add((1 << k) + dlt)
    vals.update([-5, 0, 1 << 40, (1 << 61)])
    for v in sorted(vals):
        add("arith", None, "arith fit %d" % v)
    for b in range(16):
        add("arith", None, "arith btl %d" % b)
    for v in sorted(x for x in vals if 0 <= x < (1 << 24)):
        add("arith", None, "arith i2b %d" % v)
        add("arith", None, "arith b2i %s" % hexb([(v >> 16) & 255, (v >> 8) & 255, v & 255]))
    return cs


# --------------------------------------------------------------------------
# in-kernel replay of a sample of the extracted model's outputs (DESIGN 2.3)


def _zl(hexs_):
    hexs_ = "" if hexs_ in ("-", None) else hexs_
    return "[" + "; ".join(str(int(hexs_[i:i + 2], 16)) for i in range(0, len(hexs_), 2)) + "]"


def _hs_term(out):
    d = kv(out.split(" err=")[0])
    w = "[" + "; ".join(_zl(x) for x in d.get("written", "-").split(",") if x not in ("-", "")) + "]"
    if d.get("result") == "peer":
        ser = {"json": "SerJSON", "msgpack": "SerMsgpack", "cbor": "SerCBOR", "none": "SerNone"}[d["ser"]]
        return "HsPeer %s %s %s %s" % (w, ser, d["send"], d["recv"])
    return 'HsErr %s ""%%string' % w


def _ev_term(ev):
    if ev.startswith("msg:"):
        return "EvMsg " + _zl(ev[4:])
    if ev.startswith("ignore:"):
        return "EvIgnore " + _zl(ev[7:])
    if ev.startswith("pong:"):
        return "EvPong " + _zl(ev[5:])
    return {"nil": "EvNil", "close": "EvClose", "eof": "EvEOF", "panic": "EvPanic"}[ev]


def kernel_sample(rows, limit):
    """Coq source checking, by vm_compute, that the extracted generated model
    printed what the kernel computes, on a sample of this run's cases."""
    checks = []
    picked = {}
    for x in rows:
        c, out = x["case"], x["raw"]["model"]
        if not c.model or out is None or out.startswith("ERROR"):
            continue
        a = c.model.split(" ")
        per = picked.get(c.kind + a[0], 0)
        if per >= limit // 4:
            continue
        z = lambda v: "(%s)" % v
        try:
            if a[0] == "hs_server":
                checks.append("hs_eqb (accept_handshake %s %s %s) (%s)" % (z(a[1]), z(a[2]), _zl(a[3]), _hs_term(out)))
            elif a[0] == "hs_client":
                checks.append("hs_eqb (connect_handshake %s %s %s) (%s)" % (z(a[2]), z(a[1]), _zl(a[3]), _hs_term(out)))
            elif a[0] == "arith" and a[1] == "fit":
                checks.append("fit_recv_limit %s =? %s" % (z(a[2]), z(out)))
            elif a[0] == "arith" and a[1] == "btl":
                checks.append("byte_to_length %s =? %s" % (z(a[2]), z(out)))
            elif a[0] == "arith" and a[1] == "b2i":
                checks.append("bytes_to_int %s =? %s" % (_zl(a[2]), z(out)))
            elif a[0] == "arith" and a[1] == "i2b":
                checks.append("list_eqb (int_to_bytes %s) %s" % (z(a[2]), _zl(out)))
            elif a[0] == "recvcase" and len(a[4]) <= 160 and out.startswith("hs=ok"):
                evs = "[" + "; ".join(_ev_term(e) for e in out[5:].split(" ") if e) + "]"
                b1 = int(a[2]) * 16 + int(a[3])
                checks.append("match accept_handshake %s 8 [127; %d; 0; 0] with HsPeer _ _ _ rl => "
                              "evs_eqb (recv (fun _ => true) gen_params rl %s) %s | _ => false end" % (z(a[1]), b1, _zl(a[4]), evs))
            else:
                continue
        except (KeyError, ValueError, IndexError):
            continue
        picked[c.kind + a[0]] = per + 1
    if not checks:
        return None, 0
    src = """(* written by tools/checks/c15.py on every run: a sample of this run's cases with
   the outputs the extracted generated model printed, re-computed in the kernel *)
From Coq Require Import String ZArith List Bool.
From Nexus Require Import Transport.GoArith Transport.RawOps Transport.RawFrame Transport.RawGen
  Transport.RawHandshake gen.GenC15.
Import ListNotations.
Open Scope Z_scope.
Definition ev_eqb (a b : event) : bool :=
  match a, b with
  | EvMsg x, EvMsg y | EvIgnore x, EvIgnore y | EvPong x, EvPong y => list_eqb x y
  | EvNil, EvNil | EvClose, EvClose | EvEOF, EvEOF | EvPanic, EvPanic => true
  | _, _ => false
  end.
Definition evs_eqb (a b : list event) : bool :=
  (length a =? length b)%%nat && forallb (fun p => ev_eqb (fst p) (snd p)) (combine a b).
Definition checks : list bool := [
  %s
].
Lemma cases_ok : forallb (fun b => b) checks = true.
Proof. vm_compute. reflexivity. Qed.
""" % ";\n  ".join(checks)
    return src, len(checks)


def run_kernel_sample(rows, limit):
    src, n = kernel_sample(rows, limit)
    if src is None:
        return True, 0, ""
    d = os.path.join(common.COQ, "cases")
    os.makedirs(d, exist_ok=True)
    f = os.path.join(d, "cases_C15_%s.v" % common.repo_key().replace("-", "_"))
    with open(f, "w") as fh:
        fh.write(src)
    rc, out = common.run(["coqc", "-Q", common.COQ, "Nexus", f], cwd=d, timeout=900)
    return rc == 0, n, out[-1500:]


SCENARIOS = ([("local", "none")] + [("rawsocket", s) for s, _ in SERS] + [("websocket", s) for s, _ in SERS]
             + [("websocket-ka", s) for s, _ in SERS])
# scenario: routing (subscribe/publish/register/call/yield, unserialisable messages in between);
# scenario_meta: pattern watchers over the subscription/registration/session meta topics
SCEN_KINDS = ("scenario", "scenario_meta")


def run_scenarios(harness, kind, seed):
    lines = ["s%d %s %s %s %d" % (i, kind, t, s, seed) for i, (t, s) in enumerate(SCENARIOS)]
    out = run_impl(harness, lines, shards=min(len(lines), common.NPROC))
    return [out.get("s%d" % i) for i in range(len(SCENARIOS))]


def scen_equal(grp):
    return all(x is not None and x.startswith("obs=") for x in grp) and len(set(grp)) == 1


# --------------------------------------------------------------------------
# evaluation


def evaluate(cases, bins, harness, info):
    """Run models and implementation; returns (rows, stats).  A row:
    dict(case, gen, spec, obs, bad_monitor, bad_tie)."""
    mlines = [c.id + " " + c.model for c in cases if c.model]
    spec_out = run_model(bins["spec"], mlines)
    gen_out = run_model(bins["model"], mlines) if bins["model"] else {}
    # bodies the models want deserialized
    want = set()
    for c in cases:
        if c.kind in ("recv", "router_recv"):
            for o in (spec_out.get(c.id, ""), gen_out.get(c.id, "")):
                for ev in o.split(" "):
                    if ev.startswith("msg:"):
                        want.add((c.kw["ser"], ev[4:]))
    want = sorted(want)
    ilines = [c.id + " " + c.impl for c in cases if c.impl]
    clines = ["k%05d canon %s %s" % (i, s, b) for i, (s, b) in enumerate(want)]
    seeds = info or [0]
    slines = ["s%s_%d_%d %s %s %s %d" % (k, j, i, k, t, s, sd) for k in SCEN_KINDS for j, sd in enumerate(seeds)
              for i, (t, s) in enumerate(SCENARIOS)]
    impl_out = run_impl(harness, ilines + clines + slines)
    canon = {}
    for i, (s, b) in enumerate(want):
        o = impl_out.get("k%05d" % i, "fail")
        canon[(s, b)] = o[3:] if o.startswith("ok:") else "fail"
    rows = []
    for c in cases:
        sp = c.expect(spec_out.get(c.id) if c.model else "", canon)
        ge = c.expect(gen_out.get(c.id) if c.model else "", canon) if (bins["model"] or not c.model) else None
        if c.impl is None:
            obs = None
            bad_m = False
            bad_t = ge is not None and ge != sp
        else:
            obs = c.observe(impl_out.get(c.id))
            bad_m = not agree(c, sp, obs)
            bad_t = ge is not None and not agree(c, ge, obs)
        rows.append(dict(case=c, spec=sp, gen=ge, obs=obs, bad_monitor=bad_m, bad_tie=bad_t,
                         raw=dict(model=gen_out.get(c.id), spec=spec_out.get(c.id), impl=impl_out.get(c.id) if c.impl else None)))
    scen = [(k, seeds[j], [impl_out.get("s%s_%d_%d" % (k, j, i)) for i in range(len(SCENARIOS))])
            for k in SCEN_KINDS for j in range(len(seeds))]
    return rows, scen


def agree(c, exp, obs):
    if c.kind == "ping_hold":
        if "_" in obs or "_" in exp:
            return False
        size = c.kw["size"]
        allowed = set()
        for w in exp["wires"]:
            seq = w.split("/")[0]
            allowed.add(",".join(tok(int(x.split(":")[1]), x.split(":")[2], size) for x in seq.split(",")))
        return obs["seq"] in allowed
    if c.kind == "router_recv":
        return all(exp.get(k) == obs.get(k) for k in ("back", "closed", "alive", "nil", "reply")) and "_" not in obs
    if c.kind == "recv" and "_" not in obs and "_" not in exp:
        if exp["delivered"] != obs["delivered"] or exp["closed_early"] != obs["closed_early"]:
            return False
        if exp["written"] == obs["written"]:
            return True
        # when the stream ends inside a PING, whether the PONG header and the
        # part of the payload that did arrive are echoed is not specified
        # (RawSpec.eof_only): one side may have a trailing PONG fragment more
        a, b = exp["written"].replace("-", ""), obs["written"].replace("-", "")
        lo, hi = (a, b) if len(a) <= len(b) else (b, a)
        return exp["closed_early"] == "false" and hi.startswith(lo) and hi[len(lo):].startswith("02")
    return exp == obs


def ping_monitor_ok(row):
    """The monitor for the interleaving property itself: in the observed order
    of Writes the frame's header is immediately followed by its body, and the
    PONG's header by its payload."""
    obs = row["obs"]
    if "_" in obs:
        return False
    toks = obs["seq"].split(",")
    size = row["case"].kw["size"]
    for i, t in enumerate(toks):
        n, hx = t.split(":")
        if int(n) == 4 and hx.startswith("00"):
            if not (i + 1 < len(toks) and toks[i + 1] == "%d:body" % size):
                return False
        if int(n) == 4 and hx.startswith("02"):
            if not (i + 1 < len(toks) and not toks[i + 1].endswith(":body")):
                return False
    return any(t.endswith(":body") or t.endswith(":frame") for t in toks)


# --------------------------------------------------------------------------
# main


def replay_obj(row, tier):
    c = row["case"]
    return {
        "property": PID, "repo": common.REPO, "tier": tier, "seed": common.seed(),
        "kind": c.kind, "impl_case": c.impl, "model_case": c.model, "kw": {k: v for k, v in c.kw.items()},
        "model_generated": row["raw"]["model"], "model_reference": row["raw"]["spec"],
        "implementation": row["raw"]["impl"],
        "expected_by_reference": row["spec"], "observed": row["obs"],
    }


def scen_diff(a, b):
    """Readable difference of two scenario observation lines."""
    if not (a or "").startswith("obs=") or not (b or "").startswith("obs="):
        return ["%s  VERSUS  %s" % ((a or "")[:300], (b or "")[:300])]
    x, y = json.loads(a[4:]), json.loads(b[4:])
    out = []
    for k in sorted(set(x) | set(y)):
        u, w = x.get(k) or [], y.get(k) or []
        if u == w:
            continue
        if k.endswith("events"):
            only_a = [e for e in u if e not in w]
            only_b = [e for e in w if e not in u]
            out.append("%s: only first %s / only second %s" % (k, only_a[:4], only_b[:4]))
        else:
            for i in range(max(len(u), len(w))):
                p, q = (u[i] if i < len(u) else None), (w[i] if i < len(w) else None)
                if p != q:
                    out.append("%s[%d]: %s  VERSUS  %s" % (k, i, json.dumps(p, ensure_ascii=False)[:300], json.dumps(q, ensure_ascii=False)[:300]))
                    break
    return out


def do_replay(path, bins, harness):
    obj = json.load(open(path))
    print("replay %s" % path)
    print("  what: %s" % obj.get("what", obj.get("obligation", "")))
    if obj.get("kind") in SCEN_KINDS:
        sd = obj.get("payload_seed", 0)
        res = run_scenarios(harness, obj["kind"], sd)
        print("  %s, seed %d: per attachment, what differs from %s/%s" % ((obj["kind"], sd) + SCENARIOS[0]))
        print("  %-20s %s" % ("%s/%s" % SCENARIOS[0], (res[0] or "")[:400]))
        for i in range(1, len(SCENARIOS)):
            print("  %-20s %s" % ("%s/%s" % SCENARIOS[i], "same" if res[i] == res[0] else "; ".join(scen_diff(res[0], res[i]))[:1500]))
        bad = not scen_equal(res)
        print("  verdict: %s" % ("FAILS (observations differ)" if bad else "passes (all %d observations equal)" % len(SCENARIOS)))
        return bad
    if not obj.get("impl_case") and not obj.get("model_case"):
        print("  (no concrete input recorded: %s)" % json.dumps(obj.get("failed", ""))[:600])
        return None
    c = Case("r1", obj["kind"], obj.get("impl_case"), obj.get("model_case"), **obj.get("kw", {}))
    rows, _ = evaluate([c], bins, harness, None)
    r = rows[0]
    print("  case (implementation): %s" % (c.impl or "")[:400])
    print("  case (model):          %s" % (c.model or "")[:400])
    print("  generated model : %s" % r["raw"]["model"])
    print("  reference model : %s" % r["raw"]["spec"])
    print("  implementation  : %s" % r["raw"]["impl"])
    print("  expected (reference, projected): %s" % json.dumps(r["spec"], sort_keys=True))
    print("  observed (projected):            %s" % json.dumps(r["obs"], sort_keys=True))
    bad = r["bad_monitor"] or (c.kind == "ping_hold" and not ping_monitor_ok(r))
    print("  verdict: %s" % ("FAILS (implementation differs from the reference model)" if bad else
                              ("tie broken (generated model differs)" if r["bad_tie"] else "passes")))
    return bad or r["bad_tie"]


def main(tier, replay):
    T = common.Timer()
    v = common.Verdict(PID)
    rng = random.Random(common.seed())
    gen_ok, gen_msg = gen()
    if not gen_ok:
        common.info("C15: translator: " + gen_msg)

    if replay:
        harness, glog = common.go_build("./cmd/c15drive")
        bins = build_models()
        if harness is None or bins["spec"] is None:
            common.info("C15: cannot build the harness or the monitor:\n" + (glog or "")[-1500:] + bins["log"])
            return 3
        bad = do_replay(replay, bins, harness)
        return 1 if bad else 0

    # proofs and harness build in parallel
    with ThreadPoolExecutor(max_workers=3) as ex:
        f_coq = ex.submit(common.coq_props, PID, CONF_FILES, 2400)
        f_go = ex.submit(common.go_build, "./cmd/c15drive")
        r = f_coq.result()
        harness, glog = f_go.result()
    common.info("C15: [%.0fs] translator, proofs (%d/%d) and harness build done" % (T.s(), len(r["discharged"]), len(r["obligations"])))
    bins = build_models(all_built=r["ok"])
    common.info("C15: [%.0fs] model runners built" % T.s())
    if harness is None or bins["spec"] is None:
        common.info("C15: cannot build the harness or the monitor:\n" + (glog or "")[-1500:] + bins["log"])
        v.violation({"property": PID, "obligation": "build of the correspondence harness against the repository",
                     "failed": (glog or "")[-1500:] + bins["log"][-1500:]}, tag="build", no_input=True)
        _evidence(tier, T, r, v, [], [], gen_ok, {}, False)
        return v.exit_code()

    _recheck_discharged(r)
    undischarged = [o for o in r["obligations"] if o not in r["discharged"]]
    proofs_ok = r["ok"] and not undischarged and gen_ok
    wide = (tier == "thorough")
    seeds = [0] + ([rng.randrange(1, 1 << 31) for _ in range(20)] if wide else [rng.randrange(1, 1 << 31) for _ in range(2)])
    cases = make_cases(tier, rng, wide)
    rows, scen = evaluate(cases, bins, harness, seeds)
    common.info("C15: [%.0fs] %d cases evaluated" % (T.s(), len(rows)))
    bad_rows = [x for x in rows if x["bad_monitor"]]
    tie_rows = [x for x in rows if x["bad_tie"] and not x["bad_monitor"]]
    searched = False
    if (not proofs_ok or tie_rows) and not wide and not bad_rows:
        # search harder: the thorough boundary enumeration, whatever the tier
        common.info("C15: obligations or correspondence broken; running the wide enumeration to find a failing input")
        searched = True
        cases = make_cases("thorough", rng, True)
        rows, scen = evaluate(cases, bins, harness, seeds)
        bad_rows = [x for x in rows if x["bad_monitor"]]
        tie_rows = [x for x in rows if x["bad_tie"] and not x["bad_monitor"]]

    # in-kernel replay of a sample of the extracted model's outputs
    kern_ok, kern_n, kern_log = (True, 0, "")
    if bins["model"]:
        kern_ok, kern_n, kern_log = run_kernel_sample(rows, 1000 if wide else 60)
        common.info("C15: [%.0fs] in-kernel sample (%d cases) %s" % (T.s(), kern_n, "ok" if kern_ok else "FAILED"))

    # thorough: the independent checker over Props/C15.vo and everything it depends on
    chk = None
    if wide and proofs_ok:
        with common.Lock("coq"):
            rc, out = common.run(["coqchk", "-silent", "-o", "-Q", ".", "Nexus", "Nexus.Props.C15"], cwd=common.COQ, timeout=1500)
        summary = out[out.find("CONTEXT SUMMARY"):] if "CONTEXT SUMMARY" in out else out[-800:]
        chk = {"rc": rc, "summary": " ".join(summary.split())[:600]}
        common.info("C15: [%.0fs] coqchk rc=%d" % (T.s(), rc))
        if rc != 0 or "Axioms: <none>" not in chk["summary"]:
            v.violation({"property": PID, "repo": common.REPO, "obligation": "coqchk over Props/C15.vo", "failed": out[-2000:]},
                        tag="coqchk", no_input=True)

    # the interleaving monitor speaks about the observed order directly
    for x in rows:
        if x["case"].kind == "ping_hold" and not x["bad_monitor"] and not ping_monitor_ok(x):
            x["bad_monitor"] = True
            bad_rows.append(x)

    # findings: one per signature, the smallest input first
    seen = {}
    for x in sorted(bad_rows, key=lambda y: len(y["case"].impl or "")):
        sig, what = classify(x["case"], x["obs"] or {}, x["spec"])
        if sig in seen:
            seen[sig]["count"] += 1
            continue
        seen[sig] = {"row": x, "what": what, "count": 1}
    for sig, e in seen.items():
        obj = replay_obj(e["row"], tier)
        obj["cases_with_this_signature"] = e["count"]
        v.finding(sig, obj, e["what"], tag="input")

    # interchangeability: for every scenario kind and payload seed the observations
    # over all attachments must be equal (a difference is re-run once: a defect
    # of the code is deterministic, a hiccup of a loaded machine is not)
    scen_ok = True
    reported = set()
    for (kind, sd, grp) in scen:
        if scen_equal(grp):
            continue
        grp = run_scenarios(harness, kind, sd)
        if scen_equal(grp):
            common.info("C15: %s seed %d differed once and agreed on the re-run" % (kind, sd))
            continue
        scen_ok = False
        groups = {}
        for i, x in enumerate(grp):
            groups.setdefault(x, []).append("%s/%s" % SCENARIOS[i])
        sig = "C15:interchangeability:%s:%s" % (kind, ";".join(sorted(",".join(g) for g in groups.values())))
        if sig in reported:
            continue
        reported.add(sig)
        ref = grp[0]
        diff = {"%s/%s" % SCENARIOS[i]: scen_diff(ref, grp[i]) for i in range(1, len(SCENARIOS)) if grp[i] != ref}
        v.finding(sig,
                  {"property": PID, "kind": kind, "repo": common.REPO, "payload_seed": sd,
                   "differs_from_%s/%s" % SCENARIOS[0]: diff, "groups": sorted(groups.values()),
                   "observations": {"%s/%s" % SCENARIOS[i]: (grp[i] or "")[:20000] for i in range(len(SCENARIOS))}},
                  "the %s is observed differently depending on how the sessions are attached: %s"
                  % ("routing scenario" if kind == "scenario" else "meta-event scenario (pattern watchers over wamp.subscription./registration./session.)",
                     "; ".join("%s: %s" % (k, " | ".join(d)[:300]) for k, d in list(diff.items())[:2])), tag="scenario")

    # obligations / tie without a failing input
    bad_hyg = [h for h in common.hygiene_scan() if h.startswith(("Transport/", "Props/C15.v", "gen/GenC15.v"))]
    if not kern_ok and v.violations == 0:
        v.violation({"property": PID, "repo": common.REPO,
                     "obligation": "in-kernel replay (vm_compute) of the extracted model's outputs on %d sampled cases" % kern_n,
                     "failed": kern_log}, tag="kernel", no_input=True)
    if (not proofs_ok or tie_rows or bad_hyg) and v.violations == 0 and v.known == 0:
        obj = {"property": PID, "repo": common.REPO,
               "obligation": "translator" if not gen_ok else ("proof obligations" if not proofs_ok else
                                                            ("hygiene" if bad_hyg else "correspondence generated-model = implementation")),
               "translator": gen_msg, "undischarged": undischarged[:40], "failed": r["failed"][-3000:],
               "hygiene": bad_hyg[:20], "searched_wide": searched or wide}
        if tie_rows:
            x = sorted(tie_rows, key=lambda y: len(y["case"].impl or y["case"].model or ""))[0]
            obj.update(replay_obj(x, tier))
            obj["smallest_disagreeing_case"] = True
        v.violation(obj, tag="obligation", no_input=True)
    elif (not proofs_ok or tie_rows) and v.violations == 0:
        # only known findings explain the input-level failures: the broken
        # obligations must be the ones those findings account for
        acc = _accounted(undischarged, r, seen)
        if not acc:
            v.violation({"property": PID, "repo": common.REPO, "obligation": "proof obligations",
                         "undischarged": undischarged[:40], "failed": r["failed"][-3000:]}, tag="obligation", no_input=True)

    _evidence(tier, T, r, v, rows, scen, gen_ok, seen, searched, kern_n if kern_ok else -kern_n, chk)
    for l in ("C15: %d obligations, %d discharged; %d cases, %d monitor rejections, %d tie breaks; scenarios equal: %s; %.1fs"
              % (len(r["obligations"]), len(r["discharged"]), len(rows), len(bad_rows), len(tie_rows), scen_ok, T.s()),):
        common.info(l)
    return v.exit_code()


def _recheck_discharged(r):
    """An obligation counts as discharged only when make itself considers the
    .vo of its file up to date after the build (an old .vo left behind by a
    failed rebuild does not count)."""
    if r["ok"]:
        return  # the whole build succeeded: every target is up to date
    files = ["Props/C15.v"] + CONF_FILES
    stale = set()
    with common.Lock("coq"):
        for f in files:
            rc, _ = common.run(["make", "-f", "Makefile.coq", "-q", f[:-2] + ".vo"], cwd=common.COQ, timeout=300)
            if rc != 0:
                stale.add(f)
    if stale:
        r["discharged"] = [o for o in r["discharged"] if o.split(":", 1)[0] not in stale]
        r["ok"] = False
        r["stale"] = sorted(stale)


def _accounted(undischarged, r, seen):
    """With only known findings reported, every obligation must have been
    discharged (the discipline obligation is a disjunction that holds for the
    known unlocked shape)."""
    return not undischarged and r["ok"]


def _evidence(tier, T, r, v, rows, scen, gen_ok, seen, searched, kern_n=0, chk=None):
    by_kind = {}
    distinct = set()
    for x in rows:
        c = x["case"]
        by_kind[c.kind] = by_kind.get(c.kind, 0) + 1
        if c.kind != "arith" or True:
            distinct.add((c.kind, c.impl or c.model))
    samples = []
    shown = set()
    for x in rows:
        c = x["case"]
        if c.kind in shown:
            continue
        shown.add(c.kind)
        samples.append({"kind": c.kind, "implementation_case": c.impl, "model_case": c.model,
                        "reference_expects": x["spec"], "observed": x["obs"]})
    flat = [x for (_, _, grp) in scen for x in grp if x]
    if flat:
        samples.append({"kind": "scenario", "combinations": ["%s/%s" % s for s in SCENARIOS],
                        "observation": flat[0][:1500]})
    tb = ["Coq 8.16.1 kernel incl. vm_compute", "translator /verif/go/cmd/genc15 (reading of Go syntax and integer semantics, coq/Transport/GoArith.v)",
          "extraction (ExtrOcamlBasic) + ocaml/c15/driver.ml", "Go harness /verif/go/cmd/c15drive (in-memory net.Conn, fake websocket connection, canonicaliser)",
          "modelled, not verified: ugorji codecs, gorilla/websocket framing, Go runtime and scheduler, OS sockets"]
    for n, t in sorted(r["assumptions"].items()):
        tb.append("Print Assumptions %s: %s" % (n, t))
    cov = {
        "obligations": len(r["obligations"]),
        "discharged": len(r["discharged"]),
        "obligation_names": r["obligations"],
        "undischarged": [o for o in r["obligations"] if o not in r["discharged"]],
        "checker_cmd": "make -f Makefile.coq Props/C15.vo " + " ".join(f[:-2] + ".vo" for f in CONF_FILES) + " (coqc 8.16.1, full .vo) && coqc Props/C15.v",
        "trusted_base": tb,
        "axioms": r["axioms"],
        "translator_ok": gen_ok,
        "evaluations": len(rows) + len(flat),
        "distinct_nontrivial": len(distinct) + len(scen),
        "rule": "cases are generated by enumeration (all 256 values of the length/serializer byte x reserved-byte patterns x configured limits for both handshake sides; sizes limit-1, limit, limit+1 for the announced limits; all frame types 0-7 with reserved upper bits; truncations) plus VERIF_SEED-driven random handshakes and frame streams; a case is counted once per distinct (kind, input) and every generated case is non-trivial in the sense that its outcome depends on a decision the property speaks about (handshake verdict, limit test within 1 of a limit, frame-type dispatch, PONG, drop, write order); helper lookups (canon) are not counted",
        "samples": samples,
        "cases_by_kind": by_kind,
        "exhaustive": bool(rows) and not searched,
        "exhaustive_subspaces": "server handshake: buf[1] in 0..255 x 4 reserved-byte patterns x 2 configured limits; client handshake: reply byte 1 in 0..255 x 3 protocols x 2 limits; frame types 0..7 x 3 upper-bit patterns x 3 serializers",
        "scenario_runs": len(flat),
        "scenario_groups_kind_x_seed": len(scen),
        "scenario_kinds": list(SCEN_KINDS),
        "scenarios_equal": bool(scen) and all(len(set(g)) == 1 for (_, _, g) in scen),
        "findings": {sig: {"what": e["what"], "cases": e["count"]} for sig, e in seen.items()},
        "known_findings_reported": v.known,
        "wide_search_run": searched,
        "cases_rechecked_in_kernel_by_vm_compute": kern_n,
        "coqchk": chk if chk is not None else "thorough tier only",
        "tier_limits": "quick: limits up to 2^16 with all serializers + 2^24 with msgpack; thorough: all 16 limits",
    }
    common.write_evidence(PID, tier, "proof", cov, T.s(), v.violations,
                          assumptions=["amd64: Go int/uint are 64 bits", "conn.Write calls are atomic with respect to each other (net.Conn contract)",
                                       "the deserializer is an arbitrary function of the body (codecs are C14's subject)",
                                       "write errors on the connection are not modelled (a failed Write leaves the iteration)"])
