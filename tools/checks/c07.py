"""C07 -- an unresponsive client never blocks others; the router never deadlocks.

Decision procedure (docs/C07.md):
  1. gen(): the translator go/cmd/genskel turns router/*.go and transport/*.go of
     the repository under test into coq/gen/GenSkeleton.v (inventory of channel
     operations with roles, goroutine kinds, call graph).  A construct it cannot
     classify is a broken tie.
  2. Coq: Props/C07.v -- outbox_bounded, stall_non_interference_partial /
     _refuted, yield_retry_bounded, ranked_progress (generic), and the per-run
     obligations over the regenerated inventory (no_blocking_send_to_client,
     wait_graph_ranked, no_peer_close_in_shared_server, yield_retry_window,
     yield_retry_keeps_invocation), instantiated in router_workers_progress;
     the timed model of the RESULT retry (Conc/YieldRetry.v):
     retried_yield_delivered_at_first_room, retried_yield_cancelled_at_deadline,
     invocation_kept_during_retries, retried_yield_refuted_without_keep.
  3. Dynamic: go/cmd/concdrive drives the real router in synctest bubbles with
     stalled subsets of sessions x queue sizes {1,2,64} x generated traffic;
     oracles: no deadlock, latency 0 at non-stalled sessions (documented
     yield-retry exception), outbox bound.  First of every batch: the scenario
     yield-to-stalled-caller-then-resume (q x kind x resume instant), whose
     predictions must equal the table Coq computes from the regenerated
     constants (else the tie between YieldRetry.v and the harness is broken).
  4. Verdict: every dynamic failure is a concrete history -> finding (KNOWN-FINDING
     only for signatures listed in known_findings.json).  A broken obligation or
     translator failure triggers a targeted search around the named functions;
     if nothing fails dynamically it is reported as no-failing-input-found.
"""
import json
import os
import sys

import common
from checks import concshared as cs

PID = "C07"
OBLIGATION_FILES = ["Conc/SkelObligationsC07.v"]
C07_OBLIGATIONS = ["no_blocking_send_to_client", "wait_graph_ranked", "no_peer_close_in_shared_server",
                   "yield_retry_keeps_invocation", "yield_stops_timer_before_retry",
                   "cancel_waits_only_if_interrupt_sent"]

KNOWN_SIG = "meta-result-retry-blocks-metapeer"
WHAT = {
    KNOWN_SIG: "a session that stopped reading with a full queue calls a meta procedure: the realm's "
               "single meta-session handler sits in the RESULT retry of dealer.yield (up to ~65 s) and "
               "every other session's REGISTER/UNREGISTER/join/leave waits behind it on metaPeer.Send()",
}


MAX_LINES = 6   # VIOLATION lines per run; more distinct signatures are only counted


def gen():
    cs.gen()


def _what(sig, f):
    return WHAT.get(sig) or ("%s: %s" % (f.get("oracle", "?"), (f.get("detail") or "")[:300]))


def main(tier, replay):
    t = common.Timer()
    if replay:
        return _replay(replay)
    v = common.Verdict(PID)
    assumptions = [
        "the theorems are about the outbox/protocol model (Conc/Stall.v), the abstract ranked network "
        "(Conc/Ranked.v) and the regenerated inventory; that the inventory is the code's is the translator's claim",
        "translator go/cmd/genskel: reading of Go syntax, channel-role classification by expression and type, "
        "call graph incl. calls through func values / inventory interfaces, goroutine-kind attribution",
        "the Go scheduler, runtime and testing/synctest (durably blocked = quiescent) are sampled, not modelled",
        "network progress of transport writer goroutines; router/auth and wamp packages are outside the inventory",
        "meta session only REGISTERs wamp.* procedures at start-up (no meta publications) -- pinned by meta_inbound_scope",
    ]
    gen_ok, gen_msg = cs.gen()
    rep = cs.skeleton_report() if gen_ok else dict(ok=False, error=gen_msg, obligations={})
    r = common.coq_props(PID, extra_files=OBLIGATION_FILES)
    broken = []
    if not gen_ok:
        broken.append("translator: " + gen_msg[:600])
    if rep.get("ok"):
        for o in C07_OBLIGATIONS:
            if not rep["obligations"].get(o, False):
                broken.append("obligation %s = false" % o)
    elif gen_ok:
        broken.append("skeleton report: " + rep.get("error", "")[:600])
    if not r["ok"] and not broken:
        broken.append("Props/C07.v or its per-run obligations do not compile: " + r["failed"][:800])

    quick = tier != "thorough"
    budget = 60 if quick else 1080
    if os.environ.get("VERIF_DRIVE_BUDGET"):      # self-test runs on a loaded machine
        budget = int(os.environ["VERIF_DRIVE_BUDGET"])
    summary, dlog = cs.drive(PID, tier, budget)
    targeted = None
    if broken:
        focus = cs.focus_functions(rep, ["trySend", "yield", "register", "onLeave"]) if rep.get("ok") else []
        common.info("C07: %s -> targeted search around %s" % ("; ".join(broken)[:300], ",".join(focus)))
        targeted, tlog = cs.drive(PID, "thorough" if quick else tier, 40 if quick else 480,
                                  focus=focus, tag="-targeted", corpus=False, shrink=not quick)
    harness_error = None
    if summary is None:
        harness_error = dlog
    yr = _yield_resume(rep, summary, targeted)
    if yr["mismatch"] and not broken:
        # the Go mirror of the model and the Coq model disagree: nothing the
        # scenario says can be attributed to the model
        broken.append("yield-resume predictions of go/cmd/concdrive differ from Conc/YieldRetry.v on the "
                      "regenerated constants: %s" % "; ".join(yr["mismatch"][:4]))
    failures = []
    for sm in (summary, targeted):
        if sm:
            failures += sm.get("failures", [])
    seen = set()
    new_failures = 0
    suppressed = 0
    for f in failures:
        sig = f.get("signature", "?")
        if f.get("oracle") == "harness-error" or f.get("oracle") == "harness-timeout":
            harness_error = harness_error or ("%s: %s" % (sig, (f.get("detail") or "")[:500]))
            continue
        if sig in seen:
            continue
        seen.add(sig)
        if v.violations >= MAX_LINES and common.match_known(PID, sig) is None:
            suppressed += 1      # further distinct signatures are kept in the evidence only
            continue
        before = v.violations
        v.finding(sig, dict(property=PID, history=f.get("history"), oracle=f.get("oracle"),
                            detail=f.get("detail"), stderr_tail=f.get("stderr_tail"),
                            broken=broken, replay_cmd="./check C07 --replay <this file>"),
                  _what(sig, f), tag="hist")
        new_failures += v.violations - before
    if broken and new_failures == 0:
        # the property is no longer shown, and no history outside the known findings fails
        v.violation(dict(property=PID, broken=broken,
                         skeleton_report={k: rep.get(k) for k in ("obligations", "bad_client_sends", "bad_edges",
                                                                  "bad_peer_closes")},
                         coq_failed=r["failed"][:1500],
                         searched=dict(main=_counts(summary), targeted=_counts(targeted)),
                         what="a per-run obligation of C07 or the translator tie is broken; the targeted "
                              "stall histories found no failing input"),
                    tag="obligation", no_input=True)
    if harness_error and summary is None:
        # the machinery itself failed: not a verdict about the code
        common.info("C07: harness error:\n" + harness_error[-2000:])
        _evidence(tier, t, v, r, rep, summary, targeted, assumptions, broken, yr)
        return 3

    _evidence(tier, t, v, r, rep, summary, targeted, assumptions, broken, yr)
    return v.exit_code()


def _yield_resume(rep, *summaries):
    """Rows of the scenario yield-to-stalled-caller-then-resume and the
    comparison of the harness's predictions with Coq's table."""
    table = rep.get("yield_resume_table") or {}
    rows, mismatch, compared = [], [], 0
    for sm in summaries:
        for row in (sm or {}).get("yield_resume") or []:
            rows.append(row)
            want = table.get(int(row.get("resume_after_us", -1)))
            if want is None:
                continue
            compared += 1
            if (int(row.get("predicted_us", -1)), row.get("predicted")) != want:
                mismatch.append("t=%s us: harness %s at %s us, Coq %s at %s us" % (
                    row.get("resume_after_us"), row.get("predicted"), row.get("predicted_us"), want[1], want[0]))
    if rep.get("ok") and rows and not table:
        mismatch.append("Conc/SkelReport.v printed no YIELD_RESUME_TABLE")
    # scenario cancel-to-stalled-callee against Conc/CancelModel.v
    ctable = rep.get("cancel_table") or {}
    crows = []
    for sm in summaries:
        for row in (sm or {}).get("cancel_stalled") or []:
            crows.append(row)
            want = ctable.get((row.get("mode"), not row.get("full")))
            if want is None:
                continue
            compared += 1
            got = (bool(row.get("predicted_interrupt_queued")), bool(row.get("predicted_answered_at_once")))
            if got != want:
                mismatch.append("cancel mode=%s room=%s: harness %s, Coq %s" % (row.get("mode"), not row.get("full"), got, want))
    if rep.get("ok") and crows and not ctable:
        mismatch.append("Conc/SkelReport.v printed no CANCEL_TABLE")
    return dict(rows=rows, mismatch=mismatch, compared=compared, table_size=len(table), cancel_rows=crows)


def _counts(sm):
    if not sm:
        return None
    return dict(evaluations=sm.get("evaluations"), distinct_nontrivial=sm.get("distinct_nontrivial"),
                signatures=sm.get("signatures"), wall_s=sm.get("wall_s"))


def _evidence(tier, t, v, r, rep, summary, targeted, assumptions, broken, yr=None):
    sm = summary or {}
    cov = dict(
        obligations=len(r["obligations"]),
        discharged=len(r["discharged"]) if r["ok"] else len([o for o in r["discharged"]]),
        obligation_names=r["obligations"],
        undischarged=[o for o in r["obligations"] if o not in r["discharged"]],
        checker_cmd="coqc -Q coq Nexus coq/Props/C07.v (Coq 8.16.1; dependencies by make -f Makefile.coq)",
        trusted_base=["Coq 8.16.1 kernel incl. vm_compute", "go/cmd/genskel translator",
                      "testing/synctest + go/cmd/concdrive harness"]
                     + ["Print Assumptions %s: %s" % (k, val) for k, val in sorted(r["assumptions"].items())],
        per_run_obligations=rep.get("obligations"),
        inventory=rep.get("size"),
        retry_total_ms=rep.get("retry_total_ms"),
        broken=broken,
        evaluations=int(sm.get("evaluations", 0)),
        distinct_nontrivial=int(sm.get("distinct_nontrivial", 0)),
        rule=sm.get("rule", ""),
        samples=sm.get("samples", [])[:4],
        distribution=sm.get("distribution"),
        signatures=sm.get("signatures"),
        targeted_search=_counts(targeted),
        known_findings=v.known,
        yield_keep_reading=rep.get("yield_keep"),
        dealer_readings=rep.get("readings"),
        cancel_stalled=dict(scenarios=len((yr or {}).get("cancel_rows", [])),
                            as_predicted=len([x for x in (yr or {}).get("cancel_rows", [])
                                              if x.get("predicted_interrupt_queued") == x.get("observed_interrupt_queued")
                                              and x.get("predicted_answered_at_once") == x.get("observed_answered_at_once")])),
        yield_resume=dict(
            scenarios=len((yr or {}).get("rows", [])),
            predictions_compared_with_coq=(yr or {}).get("compared"),
            mismatches=(yr or {}).get("mismatch"),
            outcomes=_yr_outcomes((yr or {}).get("rows", []))),
    )
    if not r["ok"]:
        cov["coq_failed"] = r["failed"][:1200]
    if cov["discharged"] == 0:
        # nothing was proved on this run (the property file does not compile against the
        # regenerated inventory): report that under other keys so that the file still
        # validates through the schema's exploration-style fallback
        cov["obligations_total"] = cov.pop("obligations")
        cov["discharged_count"] = cov.pop("discharged")
        cov["explanation"] = "no proof obligation was discharged on this run; see coq_failed / broken"
    common.write_evidence(PID, tier, "proof", cov, t.s(), v.violations, assumptions)


def _yr_outcomes(rows):
    res = {}
    for row in rows:
        k = "%s->%s" % (row.get("predicted"), row.get("observed"))
        res[k] = res.get(k, 0) + 1
    return res


def _replay(path):
    obj = json.load(open(path))
    print("== C07 replay of %s" % path)
    print("-- recorded: signature=%s oracle=%s" % (obj.get("signature"), obj.get("oracle")))
    if obj.get("broken"):
        print("-- obligations broken when recorded: %s" % "; ".join(obj["broken"]))
    if "history" not in obj or not obj.get("history"):
        print("-- no history recorded (broken obligation without failing input); re-evaluating the obligations")
        gen_ok, msg = cs.gen()
        rep = cs.skeleton_report() if gen_ok else dict(ok=False, error=msg, obligations={})
        print(json.dumps({k: rep.get(k) for k in ("obligations", "bad_client_sends", "bad_edges", "bad_peer_closes", "error")}, indent=1))
        bad = (not rep.get("ok")) or any(not rep["obligations"].get(o, False) for o in C07_OBLIGATIONS)
        print("VERDICT: %s" % ("still broken" if bad else "obligations hold now"))
        return 1 if bad else 0
    if (obj.get("history") or {}).get("cancel_stalled"):
        print("-- model (Conc/CancelModel.v): mode skip answers the caller at once; killnowait offers an INTERRUPT and answers "
              "at once; kill waits for the callee only if the INTERRUPT was queued, a full queue degrades it to skip")
    if (obj.get("history") or {}).get("yield_resume"):
        print("-- model (Conc/YieldRetry.v): a YIELD that found the caller's queue full is delivered at the first retry "
              "instant (1, 3, 7, ... ms) at which the caller has room, exactly once; otherwise the call is cancelled "
              "at 65 535 ms; the invocation is kept during the retries; the callee's handler is released at that instant")
    print("-- model (Conc/Stall.v, Conc/Ranked.v): every request of a non-stalled session is taken at once "
          "(latency 0) unless it yields to a stalled caller; outbox <= capacity; no cycle of waits")
    rc, out = cs.replay(path)
    print("-- implementation (go/cmd/concdrive, real router in a synctest bubble):")
    print(out[-6000:])
    print("VERDICT: %s" % ("history passes" if rc == 0 else "history FAILS (oracle above)"))
    return 0 if rc == 0 else 1


if __name__ == "__main__":
    sys.exit(main(sys.argv[1] if len(sys.argv) > 1 else "quick", None))
