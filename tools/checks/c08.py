"""C08 - Per-peer ordering guarantees hold under concurrency.

gen():  translator go/cmd/genc08: /repo/router/*.go + /repo/transport/localpeer.go
        -> coq/gen/GenC08Sites.v (attribution table, hand-over sites, shape facts)
main(): 1. gen
        2. Coq obligations: Props/C08.v (theorems over the LTS Order/Model.v, all
           interleavings) and Order/Conform.v (send_sites_conform ... over the
           regenerated table, by vm_compute)
        3. dynamic harness go/cmd/c08drive: bursts against the real router with real
           goroutine concurrency under GOMAXPROCS 1, 2 and 16 (child processes); every
           receiver log is judged by the extracted Coq monitor (ocaml/order)
        4. when an obligation broke: targeted bursts around what changed
        5. a rejected log -> shrink, replay file, VIOLATION (or KNOWN-FINDING);
           a broken obligation without a rejected log -> VIOLATION ... no-failing-input-found
        6. evidence
"""
import glob
import hashlib
import json
import os
import re
import shutil
import subprocess
import time
from concurrent.futures import ThreadPoolExecutor

import common
from common import COQ, VERIF

PID = "C08"
CLAIMS = {1: "event_order", 2: "call_order", 3: "progress_order",
          4: "subscribed_before_event/no_event_after_unsubscribed",
          5: "registered_before_invocation/no_invocation_after_unregistered"}
GOMAXPROCS = (1, 2, 16)
SIG_REFUSED = "C08:progress_order:refused-continuation-chunk:router/dealer.go:syncCall"

_gen = {"ok": False, "msg": "not run", "json": None}

POISON = """(* GENERATED stub: the translator go/cmd/genc08 did not understand the sources.
   Nothing conforms. *)
From Coq Require Import List NArith Bool String.
From Nexus Require Import Order.Sites.
Import ListNotations.
Open Scope N_scope.
Definition gen_sites : list site := [].
Definition gen_submits : list submit := [].
Definition gen_shape : shape := mkshape false false false false 0 0 false 0 false false.
"""


# ---------------------------------------------------------------------------
# translator


def gen():
    exe, log = common.go_build("./cmd/genc08")
    if exe is None:
        raise RuntimeError("cannot build the C08 translator:\n" + log)
    d = common.build_dir("c08")
    vout = os.path.join(d, "GenC08Sites.v")
    jout = os.path.join(d, "sites.json")
    for p in (vout, jout):
        if os.path.exists(p):
            os.remove(p)
    rc, txt = common.run([exe, "-repo", common.REPO, "-coq", vout, "-json", jout], timeout=120)
    target = os.path.join(COQ, "gen", "GenC08Sites.v")
    if rc == 0 and os.path.exists(vout):
        common.write_if_changed(target, open(vout).read())
        _gen.update(ok=True, msg=txt.strip(), json=json.load(open(jout)))
    else:
        common.write_if_changed(target, POISON)
        _gen.update(ok=False, msg=txt.strip()[-3000:], json=None)
    return _gen


# ---------------------------------------------------------------------------
# monitor (extracted) and harness


def _hash(paths):
    h = hashlib.sha1()
    for p in paths:
        h.update(open(p, "rb").read())
    return h.hexdigest()


def build_monitor():
    """Extract Order/Spec.v's monitor and link it with ocaml/order/driver.ml."""
    d = common.build_dir("c08", "mon")
    ocdir = os.path.join(VERIF, "ocaml", "order")
    deps = [os.path.join(COQ, "Order", f) for f in ("Model.v", "Spec.v")] + \
           [os.path.join(ocdir, "extract.v"), os.path.join(ocdir, "driver.ml")]
    stamp = os.path.join(d, "stamp")
    exe = os.path.join(d, "c08mon")
    hv = _hash(deps)
    if os.path.exists(exe) and os.path.exists(stamp) and open(stamp).read() == hv:
        return exe, ""
    ok, log = common.coq_make(["Order/Spec.vo"], timeout=900)
    if not ok:
        return None, log[-2000:]
    shutil.copy(os.path.join(ocdir, "extract.v"), os.path.join(d, "extract.v"))
    shutil.copy(os.path.join(ocdir, "driver.ml"), os.path.join(d, "driver.ml"))
    rc, out = common.run(["coqc", "-Q", COQ, "Nexus", "extract.v"], cwd=d, timeout=600)
    if rc != 0:
        return None, out[-2000:]
    rc, out2 = common.run(["ocamlfind", "ocamlopt", "-O2", "-w", "-a", "model.mli", "model.ml", "driver.ml",
                           "-o", exe], cwd=d, timeout=600)
    if rc != 0:
        return None, out2[-2000:]
    with open(stamp, "w") as f:
        f.write(hv)
    return exe, ""


def run_monitor(mon, logfile):
    """-> (rejected [(burst, receiver, [claims])], logs, msgs)"""
    with open(logfile, "rb") as f:
        p = subprocess.run([mon], stdin=f, stdout=subprocess.PIPE, stderr=subprocess.STDOUT, timeout=1800)
    out = p.stdout.decode(errors="replace")
    rej, logs, msgs = [], 0, 0
    for line in out.splitlines():
        t = line.split()
        if not t:
            continue
        if t[0] == "V":
            rej.append((t[1], t[2], [int(x) for x in t[3:]]))
        elif t[0] == "DONE":
            logs, msgs = int(t[1]), int(t[2])
    if p.returncode != 0:
        raise RuntimeError("monitor failed on %s:\n%s" % (logfile, out[-1000:]))
    return rej, logs, msgs


def receiver_block(logfile, burst, recv):
    res, on = [], False
    hdr = "R %s %s" % (burst, recv)
    with open(logfile, errors="replace") as f:
        for line in f:
            line = line.rstrip("\n")
            if line.startswith("R "):
                on = line == hdr or line == hdr + " lossy"
                continue
            if on:
                if line == ".":
                    break
                res.append(line)
    return res


def excerpt(lines, claim):
    """The part of a receiver log that shows the rejected claim (for the reader
    of the replay file; the verdict itself is the extracted monitor's)."""
    idx = list(enumerate(lines))
    pick = {1: "E", 2: "I", 3: "XZ", 4: "SUE", 5: "GHI"}[claim]
    rel = [(i, l) for i, l in idx if l[:1] in pick]
    bad = None
    if claim in (1, 2, 3):
        last = {}
        closed = {}
        for i, l in rel:
            t = l.split()
            if claim == 1:
                if t[2] == "-":
                    continue
                key, y = (t[1], t[2], t[3]), int(t[4])
            elif claim == 2:
                key, y = (t[3],), int(t[5])
            else:
                key = (t[1],)
                if key in closed:
                    bad = (closed[key], i, "reply after the final reply of call %s" % t[1])
                    break
                if t[0] == "Z":
                    closed[key] = i
                    continue
                y = int(t[2])
                if t[4] == "0":
                    closed[key] = i
            if key in last and last[key][1] >= y:
                bad = (last[key][0], i, "sequence number %d after %d for %s" % (y, last[key][1], "/".join(key)))
                break
            last[key] = (i, y)
    else:
        opn = {}
        for i, l in rel:
            t = l.split()
            k = t[1]
            if t[0] in ("S", "G"):
                opn[k] = (True, i)
            elif t[0] in ("U", "H"):
                opn[k] = (False, i)
            elif t[0] == "E" or (t[0] == "I" and t[-1] == "1"):
                st = opn.get(k)
                if st is None or not st[0]:
                    bad = (st[1] if st else 0, i,
                           "%s for %s while not %s" % ("EVENT" if t[0] == "E" else "INVOCATION", k,
                                                       "subscribed" if t[0] == "E" else "registered"))
                    break
    if bad is None:
        return {"note": "excerpt heuristics found nothing; see the monitor verdict", "lines": lines[:40]}
    a, b, what = bad
    lo, hi = max(0, a - 2), min(len(lines), b + 3)
    if hi - lo > 60:
        sel = list(range(lo, min(a + 6, hi))) + list(range(max(b - 6, lo), hi))
    else:
        sel = list(range(lo, hi))
    sel = sorted(set(sel))
    return {"what": what, "first_index": a, "second_index": b,
            "lines": ["%d: %s" % (i, lines[i]) for i in sel]}


class Harness:
    def __init__(self):
        self.exe = None
        self.mon = None
        self.dir = common.build_dir("c08", "runs")
        self.evals = 0
        self.logs = 0
        self.msgs = 0
        self.summ = []        # burst records
        self.rejected = []    # (rec, recv, claims, lines)
        self.crashes = []
        self.n = 0

    def build(self):
        self.exe, log = common.go_build("./cmd/c08drive")
        if self.exe is None:
            raise RuntimeError("cannot build c08drive (does /repo still compile?):\n" + log[-3000:])
        self.mon, mlog = build_monitor()
        if self.mon is None:
            raise RuntimeError("cannot build the extracted monitor:\n" + mlog)

    def _child(self, args, g, tag, timeout=600):
        self.n += 1
        base = os.path.join(self.dir, "%s-%d-%d" % (tag, os.getpid(), self.n))
        logf, sumf = base + ".log", base + ".json"
        env = dict(os.environ)
        env["GOMAXPROCS"] = str(g)
        cmd = [self.exe] + args + ["-out", logf, "-summary", sumf]
        rc, out = common.run(cmd, env=env, timeout=timeout)
        return rc, out, logf, sumf

    def run_chunk(self, seed, first, count, profile, g, tag="b"):
        """One child process: count bursts.  Returns list of rejections."""
        rc, out, logf, sumf = self._child(["-seed", str(seed), "-first", str(first), "-bursts", str(count),
                                           "-profile", profile, "-tag", tag], g, tag)
        return self._collect(rc, out, logf, sumf, g, profile)

    def run_workload(self, w, g, tries, tag="r"):
        wf = os.path.join(self.dir, "w-%d-%d.json" % (os.getpid(), time.time_ns()))
        with open(wf, "w") as f:
            json.dump(w, f)
        rc, out, logf, sumf = self._child(["-replay", wf, "-tries", str(tries), "-tag", tag], g, tag)
        os.remove(wf)
        return self._collect(rc, out, logf, sumf, g, w.get("profile", "?"))

    def _collect(self, rc, out, logf, sumf, g, profile):
        recs = {}
        if os.path.exists(sumf):
            for line in open(sumf):
                try:
                    r = json.loads(line)
                    r["gomaxprocs"] = g
                    recs[r["burst"]] = r
                except ValueError:
                    pass
        res = []
        if rc != 0:
            # the router (or the harness) died: keep what it printed
            self.crashes.append({"gomaxprocs": g, "profile": profile, "rc": rc,
                                 "bursts_completed": len(recs), "output": out[-3000:]})
        if os.path.exists(logf):
            if rc != 0:
                # keep only the complete receiver blocks of a log cut short
                data = open(logf, "rb").read()
                cut = data.rfind(b"\n.\n")
                with open(logf, "wb") as f:
                    f.write(data[:cut + 3] if cut >= 0 else b"")
            rej, logs, msgs = run_monitor(self.mon, logf)
            self.logs += logs
            self.msgs += msgs
            for burst, recv, claims in rej:
                lines = receiver_block(logf, burst, recv)
                res.append((recs.get(burst, {"burst": burst, "gomaxprocs": g}), recv, claims, lines))
            os.remove(logf)
        if os.path.exists(sumf):
            os.remove(sumf)
        self.evals += len(recs)
        self.summ.extend(recs.values())
        self.rejected.extend(res)
        return res

    def scenario(self, name):
        rc, out, logf, sumf = self._child(["-scenario", name], 4, "s", timeout=120)
        if rc != 0 or not os.path.exists(logf):
            return None, out
        rej, logs, msgs = run_monitor(self.mon, logf)
        blocks = {r: receiver_block(logf, name, r) for (_, r, _) in rej}
        os.remove(logf)
        return [(r, c, blocks[r]) for (_, r, c) in rej], out


def plan(tier, seed):
    """[(profile, first, count, gomaxprocs)] - chunks for the child processes."""
    per_g = 200 if tier == "quick" else 3334
    mix = [("mixed", 0.40), ("pubsub", 0.17), ("rpc", 0.16), ("progress", 0.10), ("history", 0.12),
           ("smallq", 0.05)]
    chunk = 20 if tier == "quick" else 60
    tasks = []
    for g in GOMAXPROCS:
        first = 0
        # bursts in which a caller stops reading for more than a second: mostly
        # sleeping, so one burst per child, started first
        for k in range(2 if tier == "quick" else 12):
            tasks.append(("stall", first, 1, g))
            first += 1
        for prof, frac in mix:
            n = max(1, int(round(per_g * frac)))
            while n > 0:
                c = min(chunk, n)
                tasks.append((prof, first, c, g))
                first += c
                n -= c
    return tasks


def targeted_profiles(failed):
    profs = set()
    for f in failed:
        if any(k in f for k in ("EVENT", "SUBSCRIBED", "broker", "shape:")):
            profs.update(("pubsub", "mixed", "history"))
        if any(k in f for k in ("RESULT", "ERROR_CALL", "yield", "shape:")):
            profs.update(("progress", "smallq", "rpc", "stall"))
        if any(k in f for k in ("INVOCATION", "REGISTERED", "dealer", "shape:")):
            profs.update(("rpc", "mixed"))
    return sorted(profs) or ["mixed", "pubsub", "rpc", "progress"]


def shrink(h, rec, claims, budget_s, timer):
    """Smaller workloads that still produce a rejected log for one of the
    claims (same GOMAXPROCS; the scheduler decides, so each candidate gets a
    few tries)."""
    w = dict(rec["workload"])
    g = rec.get("gomaxprocs", 16)
    keys = ["pub_msgs", "calls_per", "chunks", "churn_rounds", "reg_churn", "publishers", "callers", "callees",
            "churners", "subscribers", "prefix_subs", "bystanders", "meta_calls", "join_leave", "meta_subs",
            "sole_churners", "prefix_churners", "wild_churners", "dup_reg", "topics", "procs"]
    best = None
    t0 = timer.s()
    steps = 0
    progress = True
    while progress and timer.s() - t0 < budget_s:
        progress = False
        for k in keys:
            if timer.s() - t0 >= budget_s:
                break
            v = w.get(k, 0)
            if not isinstance(v, int) or isinstance(v, bool) or v <= (1 if k in ("topics", "procs") else 0):
                continue
            nv = v // 2
            if k in ("topics", "procs"):
                nv = max(1, nv)
            cand = dict(w)
            cand[k] = nv
            res = h.run_workload(cand, g, 12, tag="k")
            steps += 1
            hit = [x for x in res if set(x[2]) & set(claims)]
            if hit:
                w = cand
                best = hit[0]
                progress = True
    return w, best, steps


def signature_of(claims):
    return "C08:" + "+".join(CLAIMS[c].split("/")[0] for c in sorted(claims)) + ":burst"


def replay_obj(rec, recv, claims, lines, shrunk=None, shrunk_hit=None, extra=None):
    obj = {
        "kind": "burst",
        "property": PID,
        "claims": [CLAIMS[c] for c in claims],
        "claim_numbers": claims,
        "gomaxprocs": rec.get("gomaxprocs"),
        "burst": rec.get("burst"),
        "workload": rec.get("workload"),
        "receiver": recv,
        "offending_log": [excerpt(lines, c) for c in claims],
        "how_to_replay": "./check C08 --replay <this file>  (re-runs the workload under the same GOMAXPROCS until "
                         "the extracted monitor rejects a log again; the Go scheduler is not deterministic)",
        "log_format": "E sub publisher topic seq | S sub | U sub | I reg inv caller call seq first | G reg | H reg | "
                      "X call yieldseq callee progress | Z call | O other   (ocaml/order/driver.ml)",
    }
    if shrunk is not None:
        obj["shrunk_workload"] = shrunk
        if shrunk_hit is not None:
            obj["shrunk_offending_log"] = [excerpt(shrunk_hit[3], c) for c in shrunk_hit[2] if c in claims]
    if extra:
        obj.update(extra)
    return obj


# ---------------------------------------------------------------------------


def parse_failed_checks(log):
    """The list printed by 'Eval vm_compute in (failed_checks ...)' in Order/Conform.v."""
    m = re.search(r"=\s*\[(.*?)\]\s*:\s*list string", log, re.S)
    if not m:
        return None
    return re.findall(r'"([^"]*)"', m.group(1))


MY_FILES = ["Order/Model.v", "Order/Spec.v", "Order/SpecProofs.v", "Order/InvBase.v", "Order/InvSend.v",
            "Order/InvEvent.v", "Order/InvCall.v", "Order/InvScan.v", "Order/InvRec.v", "Order/InvYield.v",
            "Order/InvRepaired.v", "Order/Sites.v", "Order/SitesProofs.v", "Order/Examples.v", "Order/Thm.v",
            "gen/GenC08Sites.v", "Order/Conform.v", "Props/C08.v"]


def coq_obligations():
    """common.coq_props, with a fallback: the development is shared, and a
    broken file of another family (or a stale dependency list) must not be
    read as a broken C08 obligation.  When make fails on something that is not
    ours, our own files are compiled directly, in dependency order."""
    r = common.coq_props(PID, extra_files=["Order/Conform.v"])
    if r["ok"]:
        return r
    err = r["failed"] + r["log"][-4000:]
    mine = re.search(r'File "\./(Order/|Props/C08|gen/GenC08)', err) or \
        re.search(r"\[Makefile\.coq:\d+: (Order/|Props/C08|gen/GenC08)", err)
    if mine:
        return r
    common.info("C08: make failed outside this property's files; compiling them directly")
    with common.Lock("coq"):
        out_props = ""
        for f in MY_FILES:
            rc, out = common.run(["coqc", "-Q", ".", "Nexus", "-w", "-notation-overridden", f], cwd=COQ, timeout=1200)
            if f == "Props/C08.v":
                out_props = out
            if rc != 0:
                r["failed"] = out[-2000:]
                r["log"] += out
                good = MY_FILES[:MY_FILES.index(f)]
                r["discharged"] = [o for o in r["obligations"] if o.split(":")[0] in good]
                return r
    r["ok"] = True
    r["failed"] = ""
    r["discharged"] = list(r["obligations"])
    r["assumptions"], r["axioms"] = common.parse_assumptions(open(os.path.join(COQ, "Props", "C08.v")).read(), out_props)
    return r


def conform_diagnosis():
    """Compile Order/Conform.v on its own to read the failing obligations."""
    rc, out = common.run(["coqc", "-Q", ".", "Nexus", "-w", "-notation-overridden", "Order/Conform.v"],
                         cwd=COQ, timeout=600)
    return parse_failed_checks(out), out[-1500:]


def do_replay(path, h, v, timer):
    obj = json.load(open(path))
    kind = obj.get("kind")
    print("replay of %s (%s)" % (path, kind))
    if kind == "burst":
        w = obj.get("shrunk_workload") or obj["workload"]
        g = obj.get("gomaxprocs") or 16
        claims = obj.get("claim_numbers", [])
        print("model     : Props/C08.v - for every reachable state of the LTS and every receiver the claims %s hold"
              % ", ".join(obj.get("claims", [])))
        print("workload  : %s" % json.dumps(w, sort_keys=True))
        hit = None
        tries = 0
        for rnd in range(20):
            res = h.run_workload(w, g, 25, tag="p")
            tries += 25
            hit = [x for x in res if not claims or set(x[2]) & set(claims)]
            if hit or h.crashes:
                break
        if hit:
            rec, recv, cl, lines = hit[0]
            print("implementation (GOMAXPROCS=%s, within %d runs): receiver %s log rejected for %s" %
                  (g, tries, recv, ", ".join(CLAIMS[c] for c in cl)))
            for c in cl:
                ex = excerpt(lines, c)
                print("  " + ex.get("what", ex.get("note", "")))
                for l in ex["lines"]:
                    print("    " + l)
            print("verdict   : VIOLATED (extracted monitor rejects the log)")
            v.finding(signature_of(cl), replay_obj(rec, recv, cl, lines), "order violation reproduced", tag="replay")
        elif h.crashes:
            print("implementation: the router/harness process died:\n" + h.crashes[0]["output"][-1500:])
            print("verdict   : VIOLATED (crash under the recorded workload)")
            v.violation({"kind": "crash", "workload": w, "gomaxprocs": g, "output": h.crashes[0]["output"][-3000:]},
                        tag="replay")
        else:
            print("implementation (GOMAXPROCS=%s): %d runs, every log accepted by the monitor" % (g, tries))
            print("verdict   : not reproduced")
    elif kind == "scenario":
        res, out = h.scenario(obj["scenario"])
        print("model     : progress_order - nothing for a call follows its final reply (Props/C08.v; "
              "progress_order_refuted shows the faithful model violates it)")
        if res:
            for recv, cl, lines in res:
                print("implementation: receiver %s: %s" % (recv, " | ".join(lines)))
            print("verdict   : VIOLATED")
            v.finding(obj.get("signature", SIG_REFUSED), obj, obj.get("what", "refused continuation chunk"),
                      tag="replay")
        else:
            print("implementation: scenario log accepted by the monitor")
            print("verdict   : not reproduced")
    else:
        g = gen()
        r = coq_obligations()
        print("model     : obligation(s) %s" % ", ".join(obj.get("obligations_not_discharged", [])))
        print("translator: %s" % g["msg"][:500])
        nd = [o for o in r["obligations"] if o not in r["discharged"]]
        print("now       : %d obligations, %d discharged%s" % (len(r["obligations"]), len(r["discharged"]),
                                                                 ("; failing: " + ", ".join(nd)) if nd else ""))
        if nd or not g["ok"]:
            print("verdict   : the obligation still does not hold (no failing input known)")
            v.violation(obj, tag="replay", no_input=True)
        else:
            print("verdict   : holds")
    return v.exit_code()


def main(tier, replay):
    timer = common.Timer()
    seed = common.seed()
    v = common.Verdict(PID)
    h = Harness()

    if replay:
        h.build()
        return do_replay(replay, h, v, timer)

    # 1. translator
    g = gen()
    if not g["ok"]:
        common.info("C08: translator did not understand the sources:\n" + g["msg"])

    # 2. Coq
    r = coq_obligations()
    not_discharged = [o for o in r["obligations"] if o not in r["discharged"]]
    failed = []
    if not r["ok"]:
        failed, tail = conform_diagnosis()
        if failed is None:
            failed = ["(could not read the failing obligations)"]
        common.info("C08: proof obligations not discharged: %s\n  failing checks: %s\n%s" %
                    (", ".join(not_discharged), ", ".join(failed), r["failed"][:1500]))
    hyg = [b for b in common.hygiene_scan() if b.startswith("Order/") or b.startswith("Props/C08")]
    if hyg:
        common.info("C08: hygiene: " + "; ".join(hyg))

    # 3. harness
    h.build()
    pending = []

    # corpus first: recorded workloads, then the known shape
    corpus = sorted(glob.glob(os.path.join(VERIF, "corpus", PID, "*.json")))
    corpus_runs = 0
    for p in corpus:
        try:
            c = json.load(open(p))
        except ValueError:
            continue
        if c.get("kind") == "burst":
            h.run_workload(c.get("shrunk_workload") or c["workload"], c.get("gomaxprocs") or 16, 10, tag="c")
            corpus_runs += 10
    scen, scen_out = h.scenario("refused_chunk")
    scen_state = "accepted"
    if scen is None:
        common.info("C08: scenario refused_chunk could not run:\n" + scen_out[-800:])
        scen_state = "error"
    elif scen:
        recv, cl, lines = scen[0]
        obj = {"kind": "scenario", "scenario": "refused_chunk", "property": PID, "signature": SIG_REFUSED,
               "claims": [CLAIMS[c] for c in cl],
               "what": "ERROR(CALL, no_such_procedure) for a further CALL message of a pending progressive call "
                       "does not erase the call: RESULTs reach the caller after the final reply",
               "offending_log": lines, "receiver": recv,
               "how_to_replay": "./check C08 --replay <this file>"}
        known = common.match_known(PID, SIG_REFUSED)
        kf = json.load(open(os.path.join(VERIF, "known_findings.json"))).get("findings", [])
        listed_fixed = any(e.get("property") == PID and e.get("status") == "fixed" and
                           (e.get("signature") == SIG_REFUSED or "C08-refused-chunk" in str(e.get("witness", "")))
                           for e in kf)
        if known is not None or listed_fixed:
            v.finding(SIG_REFUSED, obj, obj["what"], tag="refused-chunk")
            scen_state = "known-finding" if known is not None else "regressed"
        else:
            # genuine defect of the unchanged tree, written up in fixes/C08-refused-chunk.md;
            # not yet in known_findings.json (only the lead edits that file)
            pending.append(SIG_REFUSED)
            scen_state = "reproduced (proposal fixes/C08-refused-chunk.md pending)"
            common.info("C08: refused continuation chunk reproduced (fixes/C08-refused-chunk.md): " + " | ".join(lines))

    tasks = plan(tier, seed)
    workers = max(2, min(10, common.NPROC // 2))

    def runit(t):
        prof, first, count, g_ = t
        return h.run_chunk(seed, first, count, prof, g_)

    with ThreadPoolExecutor(max_workers=workers) as ex:
        list(ex.map(runit, tasks))
    baseline_evals = h.evals

    # 4. targeted bursts when the proof side broke
    targeted = 0
    if (not r["ok"] or not g["ok"]) and not h.rejected:
        profs = targeted_profiles(failed or ["shape:"])
        extra = []
        rounds = 6 if tier == "quick" else 30
        for k in range(rounds):
            for prof in profs:
                for g_ in (16, 2, 1):
                    extra.append((prof, 100000 + k * 40, 2 if prof == "stall" else 20, g_))

        t_start = timer.s()
        t_budget = 120 if tier == "quick" else 600

        def runx(t):
            if h.rejected or h.crashes or timer.s() - t_start > t_budget:
                return []
            prof, first, count, g_ = t
            return h.run_chunk(seed + 7, first, count, prof, g_, tag="t")

        with ThreadPoolExecutor(max_workers=workers) as ex:
            list(ex.map(runx, extra))
        targeted = h.evals - baseline_evals

    # 5. verdict
    reported = set()
    samples = []
    for rec, recv, claims, lines in h.rejected:
        key = tuple(sorted(claims))
        if key in reported or len(reported) >= 3:
            continue
        reported.add(key)
        budget = 25 if tier == "quick" else 120
        shr, hit, steps = (None, None, 0)
        if rec.get("workload"):
            shr, hit, steps = shrink(h, rec, claims, budget, timer)
        obj = replay_obj(rec, recv, claims, lines, shr, hit,
                         {"obligations_not_discharged": not_discharged, "failed_checks": failed,
                          "shrink_steps": steps})
        what = "%s violated on receiver %s of burst %s (GOMAXPROCS=%s)" % (
            ", ".join(CLAIMS[c] for c in claims), recv, rec.get("burst"), rec.get("gomaxprocs"))
        p = v.finding(signature_of(claims), obj, what, tag="-".join(str(c) for c in claims))
        if p and rec.get("workload"):
            os.makedirs(os.path.join(VERIF, "corpus", PID), exist_ok=True)
    if h.crashes and not h.rejected:
        c = h.crashes[0]
        v.violation({"kind": "crash", "property": PID,
                     "what": "the router process died during a burst (no order predicate could be evaluated)",
                     "gomaxprocs": c["gomaxprocs"], "profile": c["profile"], "output": c["output"],
                     "obligations_not_discharged": not_discharged, "failed_checks": failed,
                     "how_to_replay": "./check C08 quick  (same VERIF_SEED=%d)" % seed}, tag="crash")
    if (not r["ok"] or not g["ok"] or hyg) and v.violations == 0:
        v.violation({"kind": "obligation", "property": PID,
                     "obligations_not_discharged": not_discharged or ["Order/Conform.v:send_sites_conform"],
                     "failed_checks": failed, "translator": g["msg"][-1500:], "hygiene": hyg,
                     "coq_error": r["failed"][:1500],
                     "searched": "%d baseline + %d targeted bursts (profiles %s), every log accepted by the monitor"
                                 % (baseline_evals, targeted, ", ".join(targeted_profiles(failed or ["shape:"]))),
                     "meaning": "the attribution table / shape facts regenerated from the sources no longer equal "
                                "the ones the ordering proofs rest on; the property is not shown for this tree"},
                    tag="obligation", no_input=True)

    # 6. evidence
    dist = {}
    tot = {}
    for s in h.summ:
        k = "%s/g%s" % (s["workload"]["profile"], s.get("gomaxprocs"))
        dist[k] = dist.get(k, 0) + 1
        for kk, vv in s.get("stats", {}).items():
            tot[kk] = tot.get(kk, 0) + vv
    nontrivial = set()
    for s in h.summ:
        st = s.get("stats", {})
        conc = (st.get("Published", 0) > 0 and st.get("SubRounds", 0) > 0) or \
               (st.get("Calls", 0) > 0 and (st.get("RegRounds", 0) > 0 or st.get("Yields", 0) > st.get("Calls", 0)))
        if conc and not s.get("err"):
            nontrivial.add((json.dumps(s["workload"], sort_keys=True), s.get("gomaxprocs")))
    for s in h.summ[:3]:
        samples.append({"burst": s["burst"], "gomaxprocs": s.get("gomaxprocs"), "workload": s["workload"],
                        "stats": s.get("stats"), "wall_ms": s.get("wall_ms")})
    lossy = sum(1 for s in h.summ if s.get("lossy"))
    trusted = ["Coq 8.16.1 kernel (coqc, vm_compute for Order/Conform.v and the Examples)"]
    for k, t in sorted(r["assumptions"].items()):
        trusted.append("Print Assumptions %s: %s" % (k, t))
    trusted += [
        "translator go/cmd/genc08 (go/parser + go/ast; syntactic call graph and channel roles of package router; "
        "fails on forms it does not understand)",
        "extraction (ExtrOcamlBasic only) of Order/Spec.v monitor, OCaml 4.13.1, ocaml/order/driver.ml",
        "harness go/cmd/c08drive (one writer goroutine per client stamps the sequence number at the moment of "
        "sending; one reader logs in arrival order)",
        "the Go scheduler, runtime and memory model (sampled under GOMAXPROCS 1, 2, 16; not modelled)",
    ]
    coverage = {
        "obligations": len(r["obligations"]),
        "discharged": len(r["discharged"]),
        "obligation_names": r["obligations"],
        "not_discharged": not_discharged,
        "checker_cmd": "make -f Makefile.coq Props/C08.vo Order/Conform.vo (coqc 8.16.1) ; coqc Props/C08.v",
        "trusted_base": trusted,
        "translator": {"ok": g["ok"], "message": g["msg"][:600],
                       "sites": len((g["json"] or {}).get("sites", [])),
                       "handover_sites": len((g["json"] or {}).get("submits", [])),
                       "shape": (g["json"] or {}).get("shape")},
        "failed_conformance_checks": failed,
        "evaluations": h.evals,
        "distinct_nontrivial": len(nontrivial),
        "rule": "a burst = one fresh router + the clients of one generated workload (splitmix from VERIF_SEED, "
                "burst index, profile) run with real goroutines under the stated GOMAXPROCS; judged by the "
                "extracted Coq monitor on every receiver log. distinct = distinct (workload, GOMAXPROCS); "
                "non-trivial = traffic really overlapped with churn (publications while subscribe/unsubscribe "
                "rounds completed, or calls while register/unregister rounds completed or with progressive results) "
                "and the burst ended without harness error",
        "samples": samples,
        "receiver_logs_judged": h.logs,
        "messages_judged": h.msgs,
        "bursts_by_profile_and_gomaxprocs": dist,
        "workload_totals": tot,
        "bursts_with_dropped_messages": lossy,
        "corpus_runs": corpus_runs,
        "scenario_refused_chunk": scen_state,
        "pending_finding_proposals": pending,
        "targeted_bursts": targeted,
        "rejected_logs": len(h.rejected),
        "crashes": len(h.crashes),
        "exhaustive": False,
    }
    assumptions = [
        "the theorems are about the LTS Order/Model.v (all interleavings, any number of sessions); the LTS is tied "
        "to the code by the regenerated attribution table + shape facts (Order/Conform.v), not by a proof about Go",
        "Go channels are FIFO and a select with default never blocks; one goroutine executes its statements in "
        "program order",
        "subscribed_before_event / registered_before_invocation (and the two 'no ... after') hold on the received "
        "stream provided the SUBSCRIBED / REGISTERED itself was not dropped on a full queue; unconditional on the "
        "attempt log",
        "progress_order at full strength needs fixes/C08-refused-chunk (progress_order_refuted is the witness for "
        "the code as it is); network transports' writer goroutine is C15's subject",
    ]
    common.write_evidence(PID, tier, "proof", coverage, timer.s(), violations=v.violations, assumptions=assumptions)
    common.info("C08: %d obligations (%d discharged), %d bursts, %d receiver logs, %d rejected, %d crashes, %.1fs"
                % (len(r["obligations"]), len(r["discharged"]), h.evals, h.logs, len(h.rejected), len(h.crashes),
                   timer.s()))
    return v.exit_code()
