"""C13: decided on the router-core model (coq/Router, Props/C13.v) + correspondence harness (go/drive)."""
import router_check


def main(tier, replay=None):
    return router_check.main("C13", tier, replay)


def gen():
    err = router_check.gen()
    if err:
        raise RuntimeError(err)
