#!/usr/bin/env python3
"""Seeded changes (seeded/<id>/): confirm and run the checks against them.

  seeded.py import <dir>...        copy candidates written by a sub-agent (patch.diff, demo_test.go, meta.json)
                                   into /verif/seeded/<id>/ after CONFIRMING in a scratch worktree of /repo HEAD:
                                   patch applies, tree builds (also -tags verif), existing suite passes,
                                   demonstration fails with the change and passes without it
  seeded.py check <id>... | all    run the property's registered quick check against HEAD + change
                                   (VERIF_REPO = scratch worktree; /repo itself is never touched) and record
                                   caught_by / how_caught / what_ran in seeded/<id>/meta.json

Scratch worktrees live under /tmp and are removed afterwards."""
import glob
import json
import os
import re
import shutil
import subprocess
import sys

VERIF = os.path.dirname(os.path.dirname(os.path.abspath(__file__)))
GOENV = ("export PATH=/root/go/pkg/mod/golang.org/toolchain@v0.0.1-go1.25.0.linux-amd64/bin:$PATH "
         "GOTOOLCHAIN=local GOFLAGS=-mod=mod GOPROXY=off; ")
FLAKY = "TestClientRace|TestProgressDisconnect|TestRecvTimeout"   # fail under machine load on the unchanged tree as well (timing with 1-10 ms margins)


def sh(cmd, **kw):
    return subprocess.run(cmd, shell=True, capture_output=True, text=True, errors="replace", **kw)


def worktree(path):
    if os.path.isdir(path):
        sh("git -C /repo worktree remove --force %s" % path)
    r = sh("git -C /repo worktree add -f --detach %s HEAD" % path)
    if r.returncode != 0:
        raise RuntimeError(r.stderr)


def drop_worktree(path):
    sh("git -C /repo worktree remove --force %s" % path)
    shutil.rmtree(path, ignore_errors=True)


def run_demo(wt, demo_path):
    demo = open(demo_path).read()
    m = re.search(r"place at (\S+)", demo.splitlines()[0])
    if not m:
        return None, "no placement comment"
    dst = os.path.join(wt, m.group(1))
    shutil.copy(demo_path, dst)
    pkg = "./" + os.path.dirname(m.group(1))
    tests = re.findall(r"^func (Test\w+)", demo, re.M)
    r = sh(GOENV + "cd %s && unshare -n sh -c 'ip link set lo up 2>/dev/null; timeout 400 go test -vet=off -count=1 -timeout 5m -run \"^(%s)$\" %s'" % (wt, "|".join(tests), pkg))
    os.remove(dst)
    return r.returncode == 0, (r.stdout + r.stderr)[-1500:]


def do_import(dirs):
    for d in dirs:
        d = d.rstrip("/")
        name = os.path.basename(d)
        wt = "/tmp/wt-seed-import-%d" % os.getpid()
        worktree(wt)
        try:
            conf = {}
            ok_without, out0 = run_demo(wt, d + "/demo_test.go")
            conf["demo_passes_without_change"] = bool(ok_without)
            r = sh("git -C %s apply --3way %s/patch.diff" % (wt, d))
            conf["patch_applies_on_head"] = r.returncode == 0
            if r.returncode != 0:
                print(name, "patch does not apply:", r.stderr[-300:])
                continue
            sh("git -C %s reset -q" % wt)
            r = sh(GOENV + "cd %s && timeout 900 go build ./... && timeout 900 go build -tags verif ./... && timeout 600 go vet ./router/ ./wamp/ ./transport/... ./client/ 2>&1 | tail -3" % wt)
            conf["builds"] = r.returncode == 0
            r = sh(GOENV + "cd %s && unshare -n sh -c 'ip link set lo up 2>/dev/null; timeout 1500 go test -vet=off -count=1 -timeout 20m -skip \"%s\" ./...' 2>&1 | grep -E '^(ok|FAIL|---|panic)' | head -30" % (wt, FLAKY))
            suite = r.stdout
            conf["suite_passes"] = ("FAIL" not in suite) and ("ok" in suite)
            conf["suite_output"] = suite[-1200:]
            ok_with, out1 = run_demo(wt, d + "/demo_test.go")
            conf["demo_fails_with_change"] = ok_with is False
            conf["demo_output_with_change"] = out1[-600:]
            good = all(conf.get(k) for k in ("demo_passes_without_change", "patch_applies_on_head", "builds", "suite_passes", "demo_fails_with_change"))
            print(name, "CONFIRMED" if good else "NOT CONFIRMED", {k: v for k, v in conf.items() if isinstance(v, bool)}, flush=True)
            if not good:
                if not conf.get("suite_passes"):
                    print("   suite:", conf.get("suite_output", "")[-800:].replace("\n", " | "))
                continue
            dst = os.path.join(VERIF, "seeded", name)
            os.makedirs(dst, exist_ok=True)
            shutil.copy(d + "/patch.diff", dst)
            shutil.copy(d + "/demo_test.go", dst)
            meta = json.load(open(d + "/meta.json"))
            meta["confirmed_by_lead"] = conf
            meta["base_commit"] = sh("git -C /repo rev-parse HEAD").stdout.strip()
            meta.setdefault("caught_by", [])
            json.dump(meta, open(os.path.join(dst, "meta.json"), "w"), indent=1)
        finally:
            drop_worktree(wt)


def do_check(ids):
    if ids == ["all"]:
        ids = sorted(os.path.basename(os.path.dirname(p)) for p in glob.glob(os.path.join(VERIF, "seeded", "*", "meta.json")))
    for name in ids:
        d = os.path.join(VERIF, "seeded", name)
        meta = json.load(open(os.path.join(d, "meta.json")))
        pids = [meta["property"]] + [p for p in meta.get("also_check", []) if p != meta["property"]]
        wt = "/tmp/wt-seed-check-%s" % name
        worktree(wt)
        try:
            r = sh("git -C %s apply --3way %s/patch.diff" % (wt, d))
            if r.returncode != 0:
                print(name, "patch does not apply on HEAD any more:", r.stderr[-200:])
                continue
            caught, how, ran = [], [], []
            for pid in pids:
                env = dict(os.environ, VERIF_REPO=wt)
                r = sh("cd %s && timeout 3000 ./check %s quick" % (VERIF, pid), env=env)
                lines = [l for l in r.stdout.splitlines() if l.startswith(("VIOLATION", "KNOWN-FINDING"))]
                ran.append("VERIF_REPO=<HEAD+change> ./check %s quick -> exit %d" % (pid, r.returncode))
                vio = [l for l in lines if l.startswith("VIOLATION")]
                if r.returncode == 1 and vio:
                    caught.append(pid)
                    kind = "no-failing-input-found" if all("no-failing-input-found" in l for l in vio) else "concrete failing input"
                    what = ""
                    m = re.search(r"replay=(\S+)", vio[0])
                    if m and os.path.exists(m.group(1)):
                        try:
                            rep = json.load(open(m.group(1)))
                            what = str(rep.get("what") or rep.get("broken") or "")[:300]
                        except Exception:
                            pass
                    how.append("%s: %d VIOLATION line(s), %s; %s" % (pid, len(vio), kind, what))
                print(name, pid, "exit", r.returncode, vio[:1], flush=True)
            meta["caught_by"] = caught
            meta["how_caught"] = " | ".join(how)
            meta["what_ran"] = ran
            json.dump(meta, open(os.path.join(d, "meta.json"), "w"), indent=1)
        finally:
            drop_worktree(wt)
            shutil.rmtree(os.path.join(VERIF, "build", "alt-" + __import__("hashlib").sha1(wt.encode()).hexdigest()[:10]), ignore_errors=True)


if __name__ == "__main__":
    if len(sys.argv) < 3:
        print(__doc__)
        sys.exit(2)
    {"import": do_import, "check": do_check}[sys.argv[1]](sys.argv[2:])
