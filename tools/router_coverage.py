#!/usr/bin/env python3
"""Statement coverage of /repo's router package under the router-core
correspondence harness: which blocks of broker.go / dealer.go / realm.go /
router.go / publishfilter.go does NO generated history reach?  A block the
generator never reaches is a block in which a change cannot disagree with the
model; the list drives the generator (and is recorded in DESIGN.md §5.1).

  python3 tools/router_coverage.py [count-per-profile]

Not a registered check; writes build/<key>/runs/coverage.txt and prints the
uncovered blocks of the modelled files."""
import json
import os
import re
import sys

sys.path.insert(0, os.path.dirname(os.path.abspath(__file__)))
import common  # noqa: E402
import router_build  # noqa: E402
import router_check  # noqa: E402

FILES = ("broker.go", "dealer.go", "realm.go", "publishfilter.go", "router.go", "helpers.go")


def main():
    count = int(sys.argv[1]) if len(sys.argv) > 1 else 600
    model, log = router_build.build_model()
    out = os.path.join(common.build_dir("bin"), "drive-cover.test")
    mod = common.harness_modfile()
    cmd = ["go", "test", "-c", "-modfile=" + mod, "-tags", "verif", "-cover", "-covermode=atomic",
           "-coverpkg=github.com/gammazero/nexus/v3/router", "-o", out, "./drive"]
    rc, blog = common.run(cmd, cwd=os.path.join(common.VERIF, "go"), env=common.go_env(), timeout=900)
    if rc != 0 or not model:
        print("build failed", blog[-2000:], log[-500:])
        return 3
    rundir = common.build_dir("runs")
    profs = []
    corpus = sorted(os.path.join(dp, f) for dp, _, fs in os.walk(os.path.join(common.VERIF, "corpus")) for f in fs
                    if f.endswith(".json") and os.path.basename(dp) in router_check.SPECS)
    for profile in ["pubsub", "rpc", "lifecycle", "meta", "history", "authz", "realms"]:
        cp = os.path.join(rundir, "cover-%s.out" % profile)
        params = dict(profile=profile, seed=4242, count=count, max_ops=80, max_sess=9, model=model,
                      out=os.path.join(rundir, "cover-%s.json" % profile), workers=common.NPROC, check_sizes=True,
                      shrink=False, corpus=corpus if profile == "pubsub" else [], transcripts=0)
        env = common.go_env()
        env["DRIVE_PARAMS"] = json.dumps(params)
        rc, log = common.run([out, "-test.run", "TestBatch", "-test.timeout", "3000s", "-test.coverprofile", cp], env=env, timeout=3300)
        print(profile, "rc", rc, flush=True)
        if os.path.exists(cp):
            profs.append(cp)
    hit = {}
    for cp in profs:
        for line in open(cp):
            m = re.match(r"(\S+):(\d+)\.(\d+),(\d+)\.(\d+) (\d+) (\d+)", line)
            if not m:
                continue
            f = os.path.basename(m.group(1))
            if f not in FILES or "/router/" not in m.group(1) or "/router/auth" in m.group(1):
                continue
            key = (f, int(m.group(2)), int(m.group(4)), int(m.group(6)))
            hit[key] = hit.get(key, 0) + int(m.group(7))
    lines = []
    tot = cov = 0
    for (f, a, b, n), c in sorted(hit.items()):
        tot += n
        if c:
            cov += n
        else:
            src = open(os.path.join(common.REPO, "router", f)).read().splitlines()
            lines.append("%s:%d-%d  %s" % (f, a, b, src[a - 1].strip()[:110]))
    txt = "statements %d covered %d (%.1f%%)\n" % (tot, cov, 100.0 * cov / max(tot, 1)) + "\n".join(lines) + "\n"
    open(os.path.join(rundir, "coverage.txt"), "w").write(txt)
    print(txt)


if __name__ == "__main__":
    sys.exit(main() or 0)
