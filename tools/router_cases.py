"""Turns model-side transcripts recorded by the harness (commands sent to the
extracted runner + the output lines it printed) into coq/cases/RouterCases.v,
whose [vm_compute] re-evaluates the same operations with [rstep] inside the
kernel and compares with what the extracted OCaml printed."""
import os

import common


class Tok:
    def __init__(self, toks):
        self.t = toks
        self.i = 0

    def next(self):
        x = self.t[self.i]
        self.i += 1
        return x

    def done(self):
        return self.i >= len(self.t)


def unhex(h):
    return b"" if h == "-" else bytes.fromhex(h)


def coq_str(b):
    if all(0x20 <= c < 0x7f and c != 0x22 for c in b):
        return '"%s"' % b.decode()
    return "(sb [%s])" % "; ".join(str(c) for c in b)


def z(s):
    n = int(s)
    return "(%d)%%Z" % n


def n(s):
    return "%d%%N" % int(s)


IK = {"i": "KInt", "l": "KInt64", "u": "KUint64", "d": "KID", "f": "KFloat"}
SK = {"s": "SStr", "u": "SURI", "b": "SBytes"}


def value(t):
    x = t.next()
    if x == "N":
        return "VNull"
    if x == "T":
        return "(VBool true)"
    if x == "F":
        return "(VBool false)"
    if x == "L":
        k = int(t.next())
        return "(VList [%s])" % "; ".join(value(t) for _ in range(k))
    if x == "D":
        k = int(t.next())
        return "(VDict %s)" % pairs(t, k)
    if x[0] == "I":
        return "(VInt %s %s)" % (IK[x[1]], z(t.next()))
    if x[0] == "S":
        return "(VStr %s %s)" % (SK[x[1]], coq_str(unhex(t.next())))
    raise ValueError("bad token " + x)


def pairs(t, k):
    out = []
    for _ in range(k):
        key = coq_str(unhex(t.next()))
        out.append("(%s, %s)" % (key, value(t)))
    return "[%s]" % "; ".join(out)


def dict_(t):
    x = t.next()
    if x == "N":
        return "[]"
    assert x == "D", x
    return pairs(t, int(t.next()))


def list_(t):
    x = t.next()
    if x == "N":
        return "[]"
    assert x == "L", x
    k = int(t.next())
    return "[%s]" % "; ".join(value(t) for _ in range(k))


def s_(t):
    return coq_str(unhex(t.next()))


def cmsg(t):
    k = t.next()
    if k == "pub":
        return "(CPublish %s %s %s %s %s)" % (n(t.next()), dict_(t), s_(t), list_(t), dict_(t))
    if k == "sub":
        return "(CSubscribe %s %s %s)" % (n(t.next()), dict_(t), s_(t))
    if k == "unsub":
        return "(CUnsubscribe %s %s)" % (n(t.next()), n(t.next()))
    if k == "reg":
        return "(CRegister %s %s %s)" % (n(t.next()), dict_(t), s_(t))
    if k == "unreg":
        return "(CUnregister %s %s)" % (n(t.next()), n(t.next()))
    if k == "call":
        return "(CCall %s %s %s %s %s)" % (n(t.next()), dict_(t), s_(t), list_(t), dict_(t))
    if k == "cancel":
        return "(CCancel %s %s)" % (n(t.next()), dict_(t))
    if k == "yield":
        return "(CYield %s %s %s %s)" % (n(t.next()), dict_(t), list_(t), dict_(t))
    if k == "err":
        return "(CError %s %s %s %s %s %s)" % (n(t.next()), n(t.next()), dict_(t), s_(t), list_(t), dict_(t))
    if k == "bye":
        return '(CGoodbye [] "wamp.close.close_realm")'
    if k == "other":
        return "(COther %s)" % n(t.next())
    raise ValueError("bad message kind " + k)


def boolc(x):
    return "true" if x == "1" else "false"


def config(t):
    strict, disclose, meta_strict, kill, modify, local_authz = [boolc(t.next()) for _ in range(6)]
    nh = int(t.next())
    hist = []
    for _ in range(nh):
        hist.append("(mkHistCfg %s %s %s)" % (s_(t), s_(t), n(t.next())))
    nr = int(t.next())
    rules = []
    for _ in range(nr):
        code = n(t.next())
        u = t.next()
        uri = "None" if u == "*" else "(Some %s)" % coq_str(unhex(u))
        sid = n(t.next())
        act = t.next()
        if act == "rewrite":
            a = "(ActRewrite %s)" % s_(t)
        else:
            a = {"allow": "ActAllow", "deny": "ActDeny", "fail": "ActFail"}[act]
        rules.append("(mkRule %s %s %s %s)" % (code, uri, sid, a))
    authz = "None" if nr == 0 else "(Some (table_authz [%s]))" % "; ".join(rules)
    return "(mkConfig %s %s %s %s %s %s [%s] %s)" % (strict, disclose, meta_strict, kill, modify, local_authz, "; ".join(hist), authz)


def command(line):
    t = Tok(line.split())
    c = t.next()
    if c == "realm":
        idx = n(t.next())
        return "(RAddRealm %s %s)" % (idx, config(t))
    if c == "rmrealm":
        return "(RRemoveRealm %s)" % n(t.next())
    if c == "rtick":
        idx = n(t.next())
        return "(ROp %s (OTick %s))" % (idx, n(t.next()))
    if c == "do":
        idx = n(t.next())
        k = t.next()
        if k == "join":
            sid = n(t.next())
            local = boolc(t.next())
            return "(ROp %s (OJoin %s %s %s))" % (idx, sid, local, dict_(t))
        if k == "drop":
            return "(ROp %s (ODrop %s))" % (idx, n(t.next()))
        if k == "tick":
            return "(RTick %s)" % n(t.next())
        if k == "msg":
            sid = n(t.next())
            oracle = n(t.next())
            return "(ROp %s (OMsg %s %s %s))" % (idx, sid, cmsg(t), oracle)
    raise ValueError("bad command " + line)


def output(line):
    t = Tok(line.split())
    assert t.next() == "out"
    sid = n(t.next())
    return "(%s, %s)" % (sid, value(t))


def write_cases(transcripts, max_cases=40):
    """Returns the number of cases written."""
    cases = []
    for tr in transcripts[:max_cases]:
        steps = []
        cur = None
        try:
            for l in tr:
                if l.startswith("> "):
                    if l[2:].startswith("tryrm"):
                        cur = None
                        continue
                    cur = [command(l[2:]), []]
                    steps.append(cur)
                elif l.startswith("< ") and cur is not None:
                    cur[1].append(output(l[2:]))
        except Exception as e:  # an op this converter does not know: skip the case
            common.info("router_cases: skipped a transcript: %s" % e)
            continue
        cases.append("[%s]" % ";\n   ".join("(%s, [%s])" % (c, "; ".join(o)) for c, o in steps))
    body = ["(* GENERATED on every run by tools/router_cases.py from the harness's model-side transcripts. *)",
            "From Nexus Require Import Router.CaseCheck.", "Open Scope string_scope.", "Open Scope list_scope.", "Open Scope N_scope.", ""]
    for i, c in enumerate(cases):
        body.append("Definition case_%d : transcript :=\n  %s." % (i, c))
    body.append("")
    body.append("Definition all_cases : list transcript := [%s]." % "; ".join("case_%d" % i for i in range(len(cases))))
    body.append("Definition failing : list nat := Eval vm_compute in")
    body.append("  map fst (filter (fun p => negb (run_case (snd p))) (combine (seq 0 (List.length all_cases)) all_cases)).")
    body.append("Lemma extracted_runner_agrees_with_kernel : failing = [].")
    body.append("Proof. reflexivity. Qed.")
    body.append("Definition n_steps : nat := Eval vm_compute in fold_right (fun c a => List.length c + a)%nat 0%nat all_cases.")
    body.append("Print n_steps.")
    d = os.path.join(common.COQ, "cases")
    os.makedirs(d, exist_ok=True)
    with open(os.path.join(d, "RouterCases.v"), "w") as f:
        f.write("\n".join(body) + "\n")
    return len(cases)


def check_cases(timeout=900):
    """coqc the generated file. Returns (ok, steps, log)."""
    import re
    with common.Lock("coq"):
        rc, out = common.run(["coqc", "-Q", ".", "Nexus", "-w", "-notation-overridden", os.path.join("cases", "RouterCases.v")], cwd=common.COQ, timeout=timeout)
    m = re.search(r"n_steps = (\d+)", out)
    return rc == 0, int(m.group(1)) if m else 0, out
