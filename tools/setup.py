#!/usr/bin/env python3
"""MANIFEST.setup_cmd: build the framework from files on disk only (offline).

Regenerates coq/gen from /repo, builds the whole Coq development (full .vo),
the extracted model runners and the Go harness binaries.  Every check rebuilds
incrementally what it needs anyway; this just makes the first check fast."""
import os
import sys

sys.path.insert(0, os.path.dirname(os.path.abspath(__file__)))
import common  # noqa: E402


def main():
    t = common.Timer()
    rc = 0
    # every check module may expose gen(): its translator part; and setup():
    # building its runners / harness binaries (after the Coq build)
    import importlib
    import pkgutil
    import checks
    mods = []
    for m in sorted(x.name for x in pkgutil.iter_modules(checks.__path__)):
        try:
            mods.append(importlib.import_module("checks." + m))
        except Exception as e:
            print("setup: import %s: %s" % (m, e), file=sys.stderr)
    for mod in mods:
        if hasattr(mod, "gen"):
            try:
                mod.gen()
            except Exception as e:  # a broken translator is reported by the check itself
                print("setup: %s.gen: %s" % (mod.__name__, e), file=sys.stderr)
    print("setup: translators done after %.1fs" % t.s(), flush=True)
    ok, log = common.coq_make(None, keep_going=True)
    if not ok:
        sys.stderr.write(log[-4000:])
        print("setup: coq build incomplete (checks report per-property)", file=sys.stderr)
    print("setup: coq build done after %.1fs" % t.s(), flush=True)
    for mod in mods:
        if hasattr(mod, "setup"):
            try:
                mod.setup()
            except Exception as e:
                print("setup: %s.setup: %s" % (mod.__name__, e), file=sys.stderr)
    print("setup done in %.1fs" % t.s())
    return rc


if __name__ == "__main__":
    sys.exit(main())
