#!/usr/bin/env python3
"""MANIFEST.setup_cmd: build the framework from files on disk only (offline).

Regenerates coq/gen from /repo, builds the whole Coq development (full .vo),
the extracted model runners and the Go harness binaries.  Every check rebuilds
incrementally what it needs anyway; this just makes the first check fast."""
import os
import sys

sys.path.insert(0, os.path.dirname(os.path.abspath(__file__)))
import common  # noqa: E402


def main():
    t = common.Timer()
    rc = 0
    # every check module may expose gen(): its translator part
    import importlib
    import pkgutil
    import checks
    for m in sorted(x.name for x in pkgutil.iter_modules(checks.__path__)):
        try:
            mod = importlib.import_module("checks." + m)
            if hasattr(mod, "gen"):
                mod.gen()
            if hasattr(mod, "setup"):
                mod.setup()
        except Exception as e:  # a broken translator is reported by the check itself
            print("setup: %s: %s" % (m, e), file=sys.stderr)
    ok, log = common.coq_make(None, keep_going=True)
    if not ok:
        sys.stderr.write(log[-4000:])
        print("setup: coq build incomplete (checks report per-property)", file=sys.stderr)
    print("setup done in %.1fs" % t.s())
    return rc


if __name__ == "__main__":
    sys.exit(main())
