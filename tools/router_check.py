"""Generic check for the properties decided on the router-core model
(coq/Router): C01 C02 C03 C05 C10 C11 C12 C13 C18 C20.

Per run:
  1. rebuild the Coq model, its extraction + OCaml runner, and the Go harness
     against the repository's current working tree (-tags verif);
  2. compile Props/<Cxx>.v (proof obligations, Print Assumptions);
  3. corpus first, then generated histories of the property's profiles: the
     real router (testing/synctest bubble) and the extracted model run the same
     ops; canonicalised observations and table sizes are compared after every
     op; monitors (panic, mutation after delivery, shared payload objects) run
     on the implementation's observations;
  4. a disagreement on the message kinds the property owns is a concrete
     failing history (shrunk) -> VIOLATION with that history as replay; a
     broken proof obligation or harness build without a failing history ->
     VIOLATION ... no-failing-input-found;
  5. evidence with everything measured on this run.
"""
import glob
import json
import os
import subprocess
import sys

import common
import router_build

# message codes (and 1000+request type for ERROR) each property owns
EVENT, PUBLISHED, SUBSCRIBED, UNSUBSCRIBED = 36, 17, 33, 35
INVOCATION, REGISTERED, UNREGISTERED = 68, 65, 67
RESULT, INTERRUPT, GOODBYE, ABORT, ERROR = 50, 69, 6, 3, 8
E = lambda t: 1000 + t  # noqa: E731

# properties whose history-level statements (Props/Histories<pid>.v) are finished
# and wired in as obligations (files still being written are not)
HISTORIES = {"C01", "C02", "C03", "C05", "C12", "C13", "C18", "C20"}

SPECS = {
    "C01": dict(profiles=["pubsub"], owned={EVENT, PUBLISHED, SUBSCRIBED, UNSUBSCRIBED, E(16), E(32), E(34)},
                monitors=set(), sizes=False, rule="events>=2",
                rule_text="a history is non-trivial when at least two EVENTs were delivered (publications that reached subscribers through the tables under test)"),
    "C02": dict(profiles=["rpc"], owned={RESULT, E(48)}, monitors=set(), sizes=False, rule="invocation+reply",
                rule_text="non-trivial: at least one INVOCATION was delivered and at least one RESULT/ERROR came back"),
    "C03": dict(profiles=["rpc"], owned={INVOCATION, REGISTERED, UNREGISTERED, E(64), E(66), RESULT, E(48)}, monitors=set(), sizes=False,
                rule="invocation+reply", rule_text="non-trivial: at least one INVOCATION was delivered and answered"),
    "C13": dict(profiles=["rpc"], owned={INTERRUPT, E(48), E(49), RESULT, INVOCATION}, monitors=set(), sizes=False, rule="cancel-or-timeout",
                rule_text="non-trivial: the history contains a CANCEL in kill mode, a call with a timeout option, or a delivered INTERRUPT"),
    "C05": dict(profiles=["lifecycle"], owned={GOODBYE, ABORT, EVENT, E(48), INTERRUPT, RESULT, INVOCATION}, monitors=set(), sizes=True,
                rule="session-ended-with-state", rule_text="non-trivial: at least one session was ended by GOODBYE/ABORT/kill while the tables were non-empty"),
    "C10": dict(profiles=["authz"], owned=None, monitors=set(), sizes=True, rule="invocation+reply",
                rule_text="non-trivial: an authorizer table was installed and routed traffic (an INVOCATION and a reply) occurred"),
    "C11": dict(profiles=["realms"], owned=None, monitors=set(), sizes=True, rule="events>=2",
                rule_text="non-trivial: 2-4 realms ran the same kind of traffic and at least two EVENTs were delivered"),
    "C12": dict(profiles=["pubsub", "rpc"], owned={EVENT, INVOCATION, E(16), E(48), RESULT}, monitors={"C12"}, sizes=False, rule="disclosure", own_opts={"disclose_caller", "disclose_me"},
                rule_text="non-trivial: a publication or call asked for identity disclosure (disclose_me / disclose_caller)"),
    "C18": dict(profiles=["meta", "history"], owned=None, monitors=set(), sizes=True, rule="meta-api",
                rule_text="non-trivial: the history used session kill / testament / modify_details meta procedures besides the read-only ones"),
    "C20": dict(profiles=["history"], owned=None, monitors=set(), sizes=False, rule="history-filter",
                rule_text="non-trivial: a get_events query with a publication or time bound ran against a non-empty history"),
}

TIERS = {
    "quick": dict(count=400, max_ops=50, max_sess=7, seeds=1, kernel_cases=12),
    "thorough": dict(count=2500, max_ops=90, max_sess=10, seeds=3, kernel_cases=100),
}


def _op_owned(spec, failure, mm):
    """A disagreement on the reply to a request is also the property's when the
    request itself carries an option the property is about (spec['own_opts']):
    e.g. for C12 a REGISTER with disclose_caller that is accepted or refused
    differently from the model."""
    keys = spec.get("own_opts")
    if not keys:
        return False
    try:
        op = failure["scenario"]["ops"][mm["op_index"]]
        opts = (op.get("m") or {}).get("opts") or []
        return any(isinstance(kv, list) and kv and kv[0] in keys for kv in opts[1:])
    except Exception:
        return False


def run_batch(binp, model, profile, seed, count, max_ops, max_sess, corpus, check_sizes, out, transcripts=0):
    params = dict(profile=profile, seed=seed, count=count, max_ops=max_ops, max_sess=max_sess, model=model,
                  out=out, workers=common.NPROC, check_sizes=check_sizes, shrink=True, corpus=corpus, transcripts=transcripts)
    env = common.go_env()
    env["DRIVE_PARAMS"] = json.dumps(params)
    for f in glob.glob(out + ".running.*"):
        os.remove(f)
    rc, log = common.run([binp, "-test.run", "TestBatch", "-test.timeout", "3000s"], env=env, timeout=3300)
    if rc != 0 or not os.path.exists(out):
        # the harness process died: a panic in a router goroutine.  Replay the
        # scenarios that were running, one process each, to find the culprit.
        crashed = []
        marks = sorted(glob.glob(out + ".running.*"))
        if os.path.exists(out + ".stuck"):
            # the harness's watchdog named the scenario(s) that did not finish
            named = [m for m in open(out + ".stuck").read().split() if os.path.exists(m)]
            marks = named or marks
            os.remove(out + ".stuck")
        for f in marks:
            e2 = common.go_env()
            e2["DRIVE_REPLAY"] = f
            e2["DRIVE_MODEL"] = model
            rc2, out2 = common.run([binp, "-test.run", "TestReplay", "-test.timeout", "120s"], env=e2, timeout=200)
            if rc2 != 0 and ("panic:" in out2 or "fatal error:" in out2 or rc2 == 124):
                lines = [l for l in out2.splitlines() if l.startswith(("panic:", "fatal error:"))]
                what = (lines or ["panic"])[0]
                if "test timed out" in what or rc2 == 124:
                    # the history never reaches quiescence: a router goroutine
                    # spins (or waits on a lock, which synctest does not count as blocked)
                    m = [l for l in out2.splitlines() if "nexus/v3/router." in l]
                    what = "hang: history does not finish (router goroutine busy or waiting on a lock)" + (" @ " + m[0].strip().split("(")[0] if m else "")
                crashed.append(dict(scenario=json.load(open(f)), panic=what, trace=out2[-2500:]))
        return dict(crashed=crashed, stats=None), log
    return json.load(open(out)), log


def gen():
    """Regenerate coq/gen/GenRouter.v from the repository's current source.
    Returns an error text, or None."""
    binp, log = common.go_build("./cmd/genrouter")
    if not binp:
        return "genrouter does not build: " + log[-1500:]
    rc, out = common.run([binp, common.REPO, os.path.join(common.COQ, "gen", "GenRouter.v")], timeout=120)
    if rc != 0:
        return out
    return None


def replay(pid, path):
    model, log = router_build.build_model()
    binp, log2 = router_build.build_harness()
    if not model or not binp:
        print((log or "") + (log2 or ""))
        return 3
    env = common.go_env()
    env["DRIVE_REPLAY"] = path
    env["DRIVE_MODEL"] = model
    rc, out = common.run([binp, "-test.run", "TestReplay", "-test.v", "-test.timeout", "300s"], env=env, timeout=400)
    print(out)
    return 1 if ("MISMATCH" in out or "MONITOR" in out or "PANIC" in out) else 0


def main(pid, tier, replay_path=None):
    if replay_path:
        return replay(pid, replay_path)
    spec = SPECS[pid]
    t = common.Timer()
    v = common.Verdict(pid)
    tcfg = TIERS[tier]
    trusted = [
        "Coq 8.16.1 kernel (coqc); vm_compute in _refuted/Example witnesses only; no native_compute",
        "router-core model coq/Router/{Base,Msg,Broker,Dealer,Realm}.v is hand-written; tied to /repo by the correspondence run of this check; its constants (URIs, option keys, feature names, message codes, meta procedure registration order) are tied by the translator go/cmd/genrouter + Router/GenConform.v, re-checked on every run",
        "extraction: ExtrOcamlBasic only (bool, option, unit, list, prod, sumbool, sumor to OCaml types; andb/orb inlined); no Extract Constant of our own; OCaml 4.13.1; ocaml/router/driver.ml (parsing, printing)",
        "harness go/drive: scenario generator, testing/synctest semantics (quiescence = all goroutines durably blocked, virtual clock), canonicaliser (session ids, publication ids, timestamps, numeric kinds, map-iteration order)",
        "payload passthru (ppt_*) options, queue overflow (trySend drops), transports and serializers are outside this model (C04/C07/C14/C15)",
    ]

    # 0. translator part: constants the model depends on, regenerated from the source
    gen_err = gen()
    common.info("%s [%.1fs] translator" % (pid, t.s()))
    # 1. builds
    model, mlog = router_build.build_model()
    if not model:
        common.info(mlog[-3000:])
        print("internal error: router model does not build", file=sys.stderr)
        return 3
    binp, hlog = router_build.build_harness()
    common.info("%s [%.1fs] model runner and harness built" % (pid, t.s()))
    # 2. proof obligations
    extra = ["Router/GenConform.v"]
    if pid in HISTORIES and os.path.exists(os.path.join(common.COQ, "Props", "Histories%s.v" % pid)):
        extra.append("Props/Histories%s.v" % pid)   # the property lifted to whole histories of Realm.run
    pr = common.coq_props(pid, extra_files=extra)
    obligations, discharged = len(pr["obligations"]), len(pr["discharged"])
    for name, text in sorted(pr["assumptions"].items()):
        trusted.append("Print Assumptions %s: %s" % (name, text))
    common.info("%s [%.1fs] proof obligations: %d/%d" % (pid, t.s(), len(pr["discharged"]), len(pr["obligations"])))
    hyg = common.hygiene_scan()
    cov = dict(obligations=obligations, discharged=discharged,
               checker_cmd="make -f Makefile.coq Props/%s.vo && coqc -Q coq Nexus coq/Props/%s.v (full .vo build)" % (pid, pid),
               trusted_base=trusted, theorems=pr["obligations"], axioms=pr["axioms"], hygiene_violations=hyg)
    broken = []
    if not pr["ok"] or obligations == 0 or discharged != obligations:
        broken.append(dict(kind="proof-obligation", detail=pr["failed"][-1500:] or "Props/%s.v missing or empty" % pid))
    if hyg:
        broken.append(dict(kind="hygiene", detail=hyg[:10]))
    if not binp:
        broken.append(dict(kind="harness-build", detail=hlog[-3000:]))
    if gen_err:
        broken.append(dict(kind="translator", detail=gen_err[-1500:]))

    stats_all = dict(scenarios=0, ops=0, distinct=0, nontrivial=0, op_kinds={}, delivered={}, tags={}, foreign_mismatches=0, sessions=0)
    samples = []
    transcripts = []
    n_fail = 0
    if binp:
        corpus = sorted(glob.glob(os.path.join(common.VERIF, "corpus", pid, "*.json")))
        for si in range(tcfg["seeds"]):
            for profile in spec["profiles"]:
                out = os.path.join(common.build_dir("runs"), "%s-%s-%d.json" % (pid, profile, si))
                if os.path.exists(out):
                    os.remove(out)
                res, log = run_batch(binp, model, profile, common.seed() * 1000 + si, tcfg["count"] if len(spec["profiles"]) == 1 else int(tcfg["count"] * 0.7),
                                     tcfg["max_ops"], tcfg["max_sess"], corpus if si == 0 else [], spec["sizes"], out,
                                     transcripts=tcfg["kernel_cases"] if si == 0 else 0)
                if res is not None and res.get("transcripts"):
                    transcripts += res["transcripts"]
                if res is None or res.get("stats") is None:
                    crashed = (res or {}).get("crashed") or []
                    for c in crashed[:3]:
                        n_fail += 1
                        v.finding("router-panic", dict(scenario=c["scenario"], panic=c["panic"], trace=c["trace"]),
                                  "the router process died while running this history: " + c["panic"])
                    if not crashed:
                        broken.append(dict(kind="harness-run", detail=log[-3000:]))
                    continue
                st = res["stats"]
                stats_all["scenarios"] += st["scenarios"]
                stats_all["ops"] += st["ops"]
                stats_all["sessions"] += st["sessions"]
                stats_all["distinct"] += st["distinct_histories"]
                stats_all["nontrivial"] += (st.get("nontrivial") or {}).get(spec["rule"], 0)
                for k in ("op_kinds", "tags"):
                    for a, b in (st.get(k) or {}).items():
                        stats_all[k][a] = stats_all[k].get(a, 0) + b
                for a, b in (st.get("delivered_by_code") or {}).items():
                    stats_all["delivered"][a] = stats_all["delivered"].get(a, 0) + b
                if not samples:
                    samples = [dict(name=s["name"], ops=s["ops"][:12], tags=s.get("tags")) for s in (res.get("samples") or [])[:1]]
                for f in res.get("failures") or []:
                    mm = f.get("mismatch")
                    mons = [m for m in (f.get("monitors") or [])]
                    mine = []
                    if mm:
                        codes = set(f.get("codes") or [])
                        if mm["what"] == "sizes":
                            if spec["sizes"]:
                                mine.append(("sizes", "table sizes differ from the model after op %d: %s" % (mm["op_index"], mm["detail"][:300])))
                        elif mm["what"] == "model-error":
                            broken.append(dict(kind="model-error", detail=mm["detail"][:500]))
                        elif spec["owned"] is None or (codes & spec["owned"]) or not codes or _op_owned(spec, f, mm):
                            mine.append(("mismatch:%s" % ",".join(str(c) for c in sorted(codes)),
                                         "router and model disagree at op %d: %s" % (mm["op_index"], mm["detail"][:600])))
                        else:
                            stats_all["foreign_mismatches"] += 1
                    for m in mons:
                        if m["property"] in spec["monitors"] or (m["property"] == pid):
                            mine.append((m["signature"], m["what"][:600]))
                        elif m["signature"] in ("router-panic", "close-waits"):
                            # the model neither panics, deadlocks, leaks a goroutine nor
                            # waits in Close: a disagreement on this history
                            mine.append((m["signature"], m["what"][:600]))
                    for sig, what in mine:
                        n_fail += 1
                        if n_fail > 5:
                            continue
                        v.finding(sig, dict(scenario=f["scenario"], mismatch=mm, monitors=mons, corpus=f.get("corpus"),
                                            how_to_replay="./check %s --replay <this file>" % pid), what)

    # 3b. in-kernel replay of a sample: the extracted runner's outputs are
    # re-computed by vm_compute from the same operations
    kernel = dict(cases=0, steps=0, ok=None)
    if transcripts:
        import router_cases
        okc, _ = common.coq_make(["Router/CaseCheck.vo"])
        kernel["cases"] = router_cases.write_cases(transcripts, max_cases=tcfg["kernel_cases"])
        okk, steps, klog = router_cases.check_cases()
        kernel.update(ok=bool(okc and okk), steps=steps)
        if not (okc and okk):
            broken.append(dict(kind="extraction-vs-kernel", detail=klog[-1500:]))
        common.info("%s [%.1fs] in-kernel replay: %d cases, %d steps, ok=%s" % (pid, t.s(), kernel["cases"], steps, okc and okk))

    if tier == "thorough" and pr["ok"]:
        okchk, chk = common.coqchk(pid)
        cov["coqchk"] = dict(ok=okchk, summary=chk)
        trusted.append("coqchk -silent -o Nexus.Props.%s: %s" % (pid, "ok" if okchk else "FAILED"))
        if not okchk:
            broken.append(dict(kind="coqchk", detail=chk[-1500:]))
        common.info("%s [%.1fs] coqchk ok=%s" % (pid, t.s(), okchk))

    # 4. broken obligation / tie without a failing history
    if broken and v.violations == 0 and v.known == 0:
        v.violation(dict(broken=broken, searched=dict(histories=stats_all["scenarios"], ops=stats_all["ops"]),
                         note="no history on which the property fails was found; the named obligation / tie no longer checks"),
                    tag="obligation", no_input=True)

    cov.update(evaluations=stats_all["scenarios"], distinct_nontrivial=stats_all["nontrivial"],
               rule="histories from go/drive/gen.go profiles %s (weighted grammar over an overlapping URI universe + shape templates, all choices from VERIF_SEED); distinct = distinct canonical observation logs; %s"
               % (spec["profiles"], spec["rule_text"]),
               samples=samples or [dict(note="no history was run")], distinct_histories=stats_all["distinct"],
               ops=stats_all["ops"], sessions=stats_all["sessions"], op_kinds=stats_all["op_kinds"],
               delivered_by_message_code=stats_all["delivered"], shape_templates_fired=stats_all["tags"],
               foreign_mismatches=stats_all["foreign_mismatches"], traces_validated_against_impl=stats_all["scenarios"],
               exhaustive=False, failures=n_fail, broken=broken, in_kernel_replay=kernel)
    common.write_evidence(pid, tier, "proof", cov, t.s(), violations=v.violations,
                          assumptions=["all client queues are drained (queue overflow is C07's subject)",
                                       "one client-side event at a time, router run to quiescence (interleavings inside the router are C08's subject)"])
    common.info("%s %s: %d histories, %d ops, %d non-trivial, obligations %d/%d, violations %d, known %d, %.1fs"
                % (pid, tier, stats_all["scenarios"], stats_all["ops"], stats_all["nontrivial"], discharged, obligations, v.violations, v.known, t.s()))
    return v.exit_code()
